"""ISO/IEC 7816-4 command APDU encoding (short and extended length fields)."""


def apdu_short(cla, ins, p1, p2, data, mrl):
    b = bytes([cla, ins, p1, p2])
    if data is not None and len(data) > 0:
        b = b + bytes([len(data)]) + data
    if mrl > 0:
        b = b + bytes([0 if mrl == 256 else mrl])
    return b


def apdu_extended(cla, ins, p1, p2, data, mrl):
    b = bytes([cla, ins, p1, p2])
    has_data = data is not None and len(data) > 0
    if has_data:
        b = b + bytes([0, len(data) // 256, len(data) % 256]) + data
    if mrl > 0:
        le = 0 if mrl == 65536 else mrl
        if has_data:
            b = b + bytes([le // 256, le % 256])
        else:
            b = b + bytes([0, le // 256, le % 256])
    return b
