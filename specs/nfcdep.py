"""Independent reading of the NFC-DEP activation PDUs (NFC Forum Digital
Protocol / ISO/IEC 18092 section 12.5): ATR_REQ, ATR_RES, PSL_REQ and the
length-reduction field."""

LR_OCTETS = (64, 128, 192, 254)


def lr_of_pp(pp):
    """maximum transport data length announced by the PPi/PPt octet (bits 5..4)"""
    v = (pp // 16) % 4
    if v == 0:
        return 64
    if v == 1:
        return 128
    if v == 2:
        return 192
    return 254


def enc_atr_req(nfcid3, did, bs, br, pp, gb):
    return bytes([0xD4, 0x00]) + nfcid3 + bytes([did, bs, br, pp]) + gb


def enc_atr_res(nfcid3, did, bs, br, to, pp, gb):
    return bytes([0xD5, 0x01]) + nfcid3 + bytes([did, bs, br, to, pp]) + gb


def pp_of(lr, has_gb, has_nad):
    return lr * 16 + (2 if has_gb else 0) + (1 if has_nad else 0)


def llcp_gb(version, miu, wks, lto_ms, lsc, dpc):
    """LLCP magic number and parameter TLVs a device must announce
    (LLCP 1.3 section 6.2.3.1) for the given local settings."""
    b = b'Ffm' + bytes([1, 1, version])                 # VERSION
    if miu != 128:
        b = b + bytes([2, 2, (miu - 128) // 256, (miu - 128) % 256])   # MIUX
    b = b + bytes([3, 2, wks // 256, wks % 256])       # WKS
    if lto_ms != 100:
        b = b + bytes([4, 1, lto_ms // 10])            # LTO in units of 10 ms
    if lsc != 0 or dpc != 0:
        b = b + bytes([7, 1, lsc + 4 * dpc])           # OPT
    return b


def gb_tlv(gb, t):
    """value octets of the first TLV of type t in LLCP general bytes, or None"""
    if len(gb) < 3 or gb[0:3] != b'Ffm':
        return None
    i = 3
    while i + 2 <= len(gb):
        ln = gb[i + 1]
        if gb[i] == t:
            return gb[i + 2:i + 2 + ln]
        i = i + 2 + ln
    return None


def gb_miu(gb):
    v = gb_tlv(gb, 2)
    return 128 if v is None else 128 + (v[0] % 8) * 256 + v[1]


def gb_lto_ms(gb):
    v = gb_tlv(gb, 4)
    return 100 if v is None else v[0] * 10


def gb_wks(gb):
    v = gb_tlv(gb, 3)
    return 0 if v is None else v[0] * 256 + v[1]


def gb_opt(gb):
    v = gb_tlv(gb, 7)
    return 0 if v is None else v[0]


def gb_version(gb):
    v = gb_tlv(gb, 1)
    return None if v is None else v[0]


def pfb_octet(fmt, nad, did, pni):
    """protocol function byte of DEP_REQ/DEP_RES"""
    return fmt * 16 + (8 if nad else 0) + (4 if did else 0) + pni


def enc_dep(code1, code2, fmt, pni, did, nad, data):
    """DEP_REQ (D4 06) / DEP_RES (D5 07): command, PFB, optional DID and NAD, payload"""
    b = bytes([code1, code2, pfb_octet(fmt, nad is not None, did is not None, pni)])
    if did is not None:
        b = b + bytes([did])
    if nad is not None:
        b = b + bytes([nad])
    return b + data


def dep_frame(brty, pdu):
    """transport frame: optional F0 start octet at 106 kbps, length octet (payload + 1), payload"""
    f = bytes([len(pdu) + 1]) + pdu
    if brty == '106A':
        f = b'\xF0' + f
    return f
