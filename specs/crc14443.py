"""ISO/IEC 14443-3 Annex B: CRC_A / CRC_B, byte-wise reference (the C code
sample of the standard, UpdateCrc), written without reference to nfcpy."""


def crc_update(ch, crc):
    """one UpdateCrc step of Annex B for octet ch and 16-bit register crc"""
    ch = ch ^ (crc % 256)
    ch = ch ^ ((ch * 16) % 256)
    return (crc // 256) ^ (ch * 256) ^ (ch * 8) ^ (ch // 16)


def crc_fold(data, init):
    crc = init
    for ch in data:
        crc = crc_update(ch, crc)
    return crc


def crc_a(data):
    return crc_fold(data, 0x6363)


def crc_b(data):
    return 0xFFFF - crc_fold(data, 0xFFFF)
