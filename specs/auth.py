"""C20: key derivation rules (what "the key derived from that password" means)."""


def ntag_key(password):
    """NTAG21x: first six password octets = PWD (4) + PACK (2); empty password = factory default"""
    if len(password) == 0:
        return b"\xFF\xFF\xFF\xFF\x00\x00"
    return password[0:6]


def felica_key(password):
    """FeliCa Lite: first sixteen password octets; empty password = all-zero factory key"""
    if len(password) == 0:
        return bytes(16)
    return password[0:16]


def felica_rc(rcblock):
    """the challenge RC1||RC2 a FeliCa Lite tag holds in block 80h (each 8-octet half stored in reversed order)"""
    b = rcblock
    return bytes([b[7], b[6], b[5], b[4], b[3], b[2], b[1], b[0],
                  b[15], b[14], b[13], b[12], b[11], b[10], b[9], b[8]])
