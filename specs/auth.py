"""C20: key derivation rules (what "the key derived from that password" means)."""


def ntag_key(password):
    """NTAG21x: first six password octets = PWD (4) + PACK (2); empty password = factory default"""
    if len(password) == 0:
        return b"\xFF\xFF\xFF\xFF\x00\x00"
    return password[0:6]


def felica_key(password):
    """FeliCa Lite: first sixteen password octets; empty password = all-zero factory key"""
    if len(password) == 0:
        return bytes(16)
    return password[0:16]
