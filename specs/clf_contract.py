"""C18: the documented contract of ContactlessFrontend.connect()/sense()."""


def is_prefix_of_activation(log):
    """callbacks of one activation come in the order discover, connect, release"""
    order = ['discover', 'connect', 'release']
    if len(log) > 3:
        return False
    for i in range(len(log)):
        if log[i] != order[i]:
            return False
    return True


def count(log, what):
    n = 0
    for e in log:
        if e == what:
            n = n + 1
    return n


def only_callbacks(log):
    out = []
    for e in log:
        if e == 'discover' or e == 'connect' or e == 'release':
            out.append(e)
    return out
