"""C16: how a tag command must treat transient communication errors."""
TIMEOUT_ERROR, RECEIVE_ERROR, PROTOCOL_ERROR = 0, -1, -2


def all_same(sent, data):
    for s in sent:
        if s != data:
            return False
    return True


def failures_then_ok(outcomes):
    """every attempt but the last failed, the last one was answered"""
    n = len(outcomes)
    if n == 0 or outcomes[n - 1] != 0:
        return False
    for i in range(n - 1):
        if outcomes[i] == 0:
            return False
    return True


def all_failed(outcomes):
    for o in outcomes:
        if o == 0:
            return False
    return True


def errno_of(kind):
    """reason code for the error kind of the last attempt"""
    if kind == 1:
        return TIMEOUT_ERROR
    if kind == 2 or kind == 4:       # garbled, or the field went away: no response could be received
        return RECEIVE_ERROR
    return PROTOCOL_ERROR
