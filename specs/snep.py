"""SNEP 1.0 message header: version, request/response code, 4-octet length."""


def be32(b):
    return b[0] * 16777216 + b[1] * 65536 + b[2] * 256 + b[3]
