"""Independent reading of the LLCP 1.3 frame formats (NFC Forum LLCP TS 1.3,
section 4: LLC PDU formats and parameter TLVs).

Pure functions over ints / bytes.  They are executed symbolically by pyvc in
postconditions and natively by CPython in replay; nothing here is derived from
nfcpy's code.
"""

# PDU type codes (LLCP 1.3 table 3)
SYMM, PAX, AGF, UI, CONNECT, DISC, CC, DM, FRMR, SNL, DPS, I, RR, RNR = \
    0, 1, 2, 3, 4, 5, 6, 7, 8, 9, 10, 12, 13, 14

# parameter types (LLCP 1.3 section 4.4)
T_VERSION, T_MIUX, T_WKS, T_LTO, T_RW, T_SN, T_OPT, T_SDREQ, T_SDRES, T_ECPK, T_RN = \
    1, 2, 3, 4, 5, 6, 7, 8, 9, 10, 11


def hdr(dsap, ptype, ssap):
    """DSAP(6) PTYPE(4) SSAP(6) in two octets."""
    return bytes([dsap * 4 + ptype // 4, (ptype % 4) * 64 + ssap])


def seq(ns, nr):
    return bytes([ns * 16 + nr])


def tlv1(t, v):
    return bytes([t, 1, v])


def tlv2(t, v):
    return bytes([t, 2, v // 256, v % 256])


def tlvb(t, v):
    return bytes([t, len(v)]) + v


def hdr_dsap(b):
    return b[0] // 4


def hdr_ptype(b):
    return (b[0] % 4) * 4 + b[1] // 64


def hdr_ssap(b):
    return b[1] % 64


# ----------------------------------------------------------------- encoders
def enc_symm():
    return hdr(0, SYMM, 0)


def enc_pax(version, miux, wks, lto, opt):
    b = hdr(0, PAX, 0)
    if version is not None:
        b = b + tlv1(T_VERSION, version)
    if miux is not None:
        b = b + tlv2(T_MIUX, miux)
    if wks is not None:
        b = b + tlv2(T_WKS, wks)
    if lto is not None:
        b = b + tlv1(T_LTO, lto)
    if opt is not None:
        b = b + tlv1(T_OPT, opt)
    return b


def enc_ui(dsap, ssap, data):
    return hdr(dsap, UI, ssap) + data


def enc_conn_params(miu, rw):
    # MIUX may be omitted only when MIU has its default 128, RW only when it
    # has its default 1 (LLCP 1.3 4.5.2, 4.5.5): an omitted TLV means default.
    b = b''
    if miu != 128:
        b = b + tlv2(T_MIUX, miu - 128)
    if rw != 1:
        b = b + tlv1(T_RW, rw)
    return b


def enc_connect(dsap, ssap, miu, rw, sn):
    b = hdr(dsap, CONNECT, ssap) + enc_conn_params(miu, rw)
    if sn is not None:
        b = b + tlvb(T_SN, sn)
    return b


def enc_disc(dsap, ssap):
    return hdr(dsap, DISC, ssap)


def enc_cc(dsap, ssap, miu, rw):
    return hdr(dsap, CC, ssap) + enc_conn_params(miu, rw)


def enc_dm(dsap, ssap, reason):
    return hdr(dsap, DM, ssap) + bytes([reason])


def enc_frmr(dsap, ssap, flags, ptype, ns, nr, vs, vr, vsa, vra):
    return hdr(dsap, FRMR, ssap) + bytes([flags * 16 + ptype, ns * 16 + nr, vs * 16 + vr, vsa * 16 + vra])


def enc_sdreq(tid, sn):
    return bytes([T_SDREQ, 1 + len(sn), tid]) + sn


def enc_sdres(tid, sap):
    return bytes([T_SDRES, 2, tid, sap])


def enc_dps(ecpk, rn):
    b = hdr(0, DPS, 0)
    if ecpk is not None:
        b = b + tlvb(T_ECPK, ecpk)
    if rn is not None:
        b = b + tlvb(T_RN, rn)
    return b


def enc_i(dsap, ssap, ns, nr, data):
    return hdr(dsap, I, ssap) + seq(ns, nr) + data


def enc_rr(dsap, ssap, nr):
    return hdr(dsap, RR, ssap) + seq(0, nr)


def enc_rnr(dsap, ssap, nr):
    return hdr(dsap, RNR, ssap) + seq(0, nr)


def enc_agf_entry(b):
    return bytes([len(b) // 256, len(b) % 256]) + b


# ------------------------------------------------------ fixed-format parsers
def valid_frame(b):
    """Is b (the octets of exactly one PDU) acceptable at all?  Only the
    constraints of the fixed-format PDU types are given here."""
    if len(b) < 2:
        return False
    t = hdr_ptype(b)
    d = hdr_dsap(b)
    s = hdr_ssap(b)
    if t == SYMM:
        return d == 0 and s == 0 and len(b) == 2
    if t == PAX or t == AGF or t == DPS:
        return d == 0 and s == 0
    if t == SNL:
        return d == 1 and s == 1
    if t == DM:
        return len(b) == 3
    if t == FRMR:
        return len(b) == 6
    if t == I or t == RR or t == RNR:
        return len(b) >= 3
    return True


CLASS_OF = {SYMM: 'Symmetry', PAX: 'ParameterExchange', AGF: 'AggregatedFrame',
            UI: 'UnnumberedInformation', CONNECT: 'Connect', DISC: 'Disconnect',
            CC: 'ConnectionComplete', DM: 'DisconnectedMode', FRMR: 'FrameReject',
            SNL: 'ServiceNameLookup', DPS: 'DataProtectionSetup', I: 'Information',
            RR: 'ReceiveReady', RNR: 'ReceiveNotReady'}


def pdu_octets(data, offset, size):
    """the octets of the one PDU that decode(data, offset, size) is asked to read"""
    if size is None:
        return data[offset:]
    return data[offset:offset + size]


def agrees(p, b):
    """Does the decoded PDU object p carry what the octets b (exactly one PDU)
    say, for the header and for the fixed-format PDU types?"""
    t = hdr_ptype(b)
    if p.ptype != t or p.dsap != hdr_dsap(b) or p.ssap != hdr_ssap(b):
        return False
    if type(p).__name__ != CLASS_OF.get(t, 'UnknownProtocolDataUnit'):
        return False
    if t == UI:
        return p.data == b[2:]
    if t == DM:
        return p.reason == b[2]
    if t == FRMR:
        return (p.rej_flags == b[2] // 16 and p.rej_ptype == b[2] % 16 and
                p.ns == b[3] // 16 and p.nr == b[3] % 16 and
                p.vs == b[4] // 16 and p.vr == b[4] % 16 and
                p.vsa == b[5] // 16 and p.vra == b[5] % 16)
    if t == I:
        return p.ns == b[2] // 16 and p.nr == b[2] % 16 and p.data == b[3:]
    if t == RR or t == RNR:
        return p.nr == b[2] % 16
    if t == 11 or t == 15:
        return p.payload == b[2:]
    return True


def old_size(data, offset, size):
    if size is None:
        return len(data) - offset
    return size


def own_end(data, offset, size):
    """end of the index range decode(data, offset, size) may inspect: the PDU's
    own octets, and nothing at all when they are not all present"""
    n = old_size(data, offset, size)
    if n < 0 or offset + n > len(data):
        return offset
    return offset + n


# ------------------------------------------------------------- C10 helpers
def icv_of(p, icv_size):
    if p.name == "UI" or p.name == "I":
        return icv_size
    return 0


def within_miu(p, miu_size, icv_size):
    """Interface contract of dequeue(miu_size, icv_size) for everything stored
    in llc.sap[i]: the information field (plus ICV for UI/I) is at most
    miu_size octets, or the PDU is one of the three-octet control PDUs
    (DM, RR, RNR).  Every header has 2 or 3 octets, so either way the PDU adds
    at most miu_size + 3 octets (plus its length prefix) to an aggregate."""
    if p is None:
        return True
    if len(p) <= 3:
        return True
    return len(p) + icv_of(p, icv_size) - p.header_size <= miu_size


def tlv_numeric(t, raw):
    """LLCP 1.3 section 4.5: value of the numeric parameters as the receiver must use them, from the value octets
    `raw` (big endian): VERSION 8 bit, MIUX the 11 least significant bits (the others are reserved and ignored),
    WKS 16 bit, LTO 8 bit, RW the 4 least significant bits, OPT the 3 least significant bits (LSC, DPC)"""
    n = raw[0] if len(raw) == 1 else raw[0] * 256 + raw[1]
    if t == 2:
        return n % 2048
    if t == 5:
        return n % 16
    if t == 7:
        return n % 8
    return n
