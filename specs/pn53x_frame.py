"""Independent reading of the PN53x host-link frame formats (PN532 user manual
UM0701-02 section 6.2.1: normal and extended information frames), the ACR122
PC/SC escape envelope (ACR122U API 2.x: pseudo APDU FF 00 00 00 Lc inside a CCID
PC_to_RDR_Escape) and the RC-S380 frame (same extended layout, little endian
length)."""


def dcs(body_sum):
    """data checksum: body bytes + DCS == 0 mod 256"""
    return (256 - body_sum % 256) % 256


def pn53x_cmd_frame(code, payload):
    """frame a host controller must send for command `code` with `payload`"""
    n = len(payload) + 2                       # TFI + command code + payload
    body = bytes([0xD4, code]) + payload
    tail = bytes([dcs(0xD4 + code + sum(payload)), 0x00])
    if n <= 255:
        head = bytes([0x00, 0x00, 0xFF, n, (256 - n) % 256])
    else:
        lm = n // 256
        ll = n % 256
        head = bytes([0x00, 0x00, 0xFF, 0xFF, 0xFF, lm, ll, (256 - (lm + ll) % 256) % 256])
    return head + body + tail


def pn53x_body(frame):
    """TFI + data octets of a well-framed information frame (preamble, start
    code, length + length checksum, data checksum, postamble), else None"""
    if len(frame) < 8:
        return None
    if frame[0] != 0x00 or frame[1] != 0x00 or frame[2] != 0xFF:
        return None
    if frame[3] == 0xFF and frame[4] == 0xFF:
        if len(frame) < 11:
            return None
        n = frame[5] * 256 + frame[6]
        if (frame[5] + frame[6] + frame[7]) % 256 != 0:
            return None
        start = 8
    else:
        n = frame[3]
        if (frame[3] + frame[4]) % 256 != 0:
            return None
        start = 5
    if n < 1 or len(frame) != start + n + 2:
        return None
    body = frame[start:start + n]
    if (sum(body) + frame[start + n]) % 256 != 0:
        return None
    if frame[start + n + 1] != 0x00:
        return None
    return body


def pn53x_rsp_payload(frame, code):
    """payload of a valid response frame to command `code`, None if the frame
    is not a valid response (any framing, checksum, TFI or code error)"""
    body = pn53x_body(frame)
    if body is None or len(body) < 2:
        return None
    if body[0] != 0xD5 or body[1] != code + 1:
        return None
    return body[2:]


def pn53x_is_error_frame(frame):
    """application level error frame: well framed, TFI replaced by 7Fh"""
    body = pn53x_body(frame)
    return body is not None and body[0] == 0x7F


def rcs380_frame(data):
    n = len(data)
    return (bytes([0x00, 0x00, 0xFF, 0xFF, 0xFF, n % 256, n // 256, (256 - (n % 256 + n // 256) % 256) % 256])
            + data + bytes([dcs(sum(data)), 0x00]))


def ccid_escape(data):
    """PC_to_RDR_Escape: 6F, dwLength (LE), slot 0, seq 0, 3 x RFU, then the data"""
    n = len(data)
    return bytes([0x6F, n % 256, (n // 256) % 256, (n // 65536) % 256, n // 16777216, 0, 0, 0, 0, 0]) + data


def acr122_cmd_apdu(code, payload):
    """pseudo APDU 'direct transmit': FF 00 00 00 Lc D4 code payload"""
    return bytes([0xFF, 0x00, 0x00, 0x00, len(payload) + 2, 0xD4, code]) + payload


def ccid_rsp_data(frame):
    """abData of a well-formed RDR_to_PC_DataBlock, else None"""
    if len(frame) < 10 or frame[0] != 0x80:
        return None
    n = frame[1] + frame[2] * 256 + frame[3] * 65536 + frame[4] * 16777216
    if len(frame) != 10 + n:
        return None
    return frame[10:]


def acr122_rsp_payload(data, code):
    """payload of a valid chip response inside the pseudo APDU response"""
    if data is None or len(data) < 4:
        return None
    if data[0] != 0xD5 or data[1] != code + 1:
        return None
    if data[len(data) - 2] != 0x90 or data[len(data) - 1] != 0x00:
        return None
    return data[2:len(data) - 2]
