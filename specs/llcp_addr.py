"""Reference address-table reading for C17 (LLCP 1.3 section 4.2: SAP values
0-15 well-known, 16-31 advertised by name, 32-63 upper layer)."""
from errno import EAGAIN, EFAULT, EACCES, EADDRINUSE, EADDRNOTAVAIL, EINVAL, ENOTSOCK, EBADF   # noqa


def lowest_free(sap, lo, hi):
    """smallest address in [lo, hi) with no service access point, else None"""
    for a in range(lo, hi):
        if sap[a] is None:
            return a
    return None


from pyvc_rt import same_entries, call_arg, call_ret, ideal, entries_none_from, was_called, urandom_draws   # noqa
from pyvc_rt import call_raised, call_errno, call_kwarg   # noqa


def unchanged_except(new, old, addr):
    """every entry of the address table other than `addr` is as before"""
    return same_entries(new, old, addr)
