"""LLCP 1.3 section 5.6 (connection-oriented transport): the sequence-number
state of one data link connection endpoint and its invariant."""
from errno import EMSGSIZE, EWOULDBLOCK, EPIPE, ENOTCONN   # noqa


def dlc_inv(d):
    """representation invariant of an ESTABLISHED data link connection:
    V(S), V(SA), V(R), V(RA) are modulo-16 counters; the number of sent but
    unacknowledged I PDUs never exceeds RW(R); the I PDUs received but not yet
    acknowledged (still queued, or delivered and awaiting confirmation) are
    exactly V(R) - V(RA) and never exceed RW(L)."""
    if not (d.send_cnt >= 0 and d.send_cnt <= 15 and d.send_ack >= 0 and d.send_ack <= 15):
        return False
    if not (d.recv_cnt >= 0 and d.recv_cnt <= 15 and d.recv_ack >= 0 and d.recv_ack <= 15):
        return False
    if not (d.send_win >= 0 and d.send_win <= 15 and d.recv_win >= 0 and d.recv_win <= 15):
        return False
    if (d.send_cnt - d.send_ack) % 16 > d.send_win:
        return False
    if d.recv_confs < 0:
        return False
    if len(d.recv_queue) + d.recv_confs != (d.recv_cnt - d.recv_ack) % 16:
        return False
    if (d.recv_cnt - d.recv_ack) % 16 > d.recv_win:
        return False
    return d.recv_buf == d.recv_win


def outstanding(d):
    return (d.send_cnt - d.send_ack) % 16
