"""Independent reading of the NFC Forum tag NDEF mappings (Type 3 Tag Operation
1.2 section 6, Type 4 Tag Operation 2.0 section 5): what a fresh reader sees in
a given tag memory."""

NOT_READABLE = -1      # attribute information says "write in progress" / not readable
NO_NDEF = -2           # no valid NDEF management data


def be16(b):
    return b[0] * 256 + b[1]


def t3_attr_valid(mem):
    """attribute information block: checksum over octets 0..13 in octets 14..15"""
    if len(mem) < 16:
        return False
    return sum(mem[0:14]) == be16(mem[14:16]) and mem[0] // 16 == 1


def t3_nmaxb(mem):
    return mem[3] * 256 + mem[4]


def t3_ln(mem):
    return mem[11] * 65536 + mem[12] * 256 + mem[13]


def t3_view(mem):
    """the NDEF message a fresh reader finds in Type 3 Tag memory `mem` (block 0 = attribute information
    block, blocks 1..Nmaxb = data), or NOT_READABLE / NO_NDEF"""
    if not t3_attr_valid(mem):
        return NO_NDEF
    if mem[9] != 0x00 or mem[1] == 0:          # WriteF set (write in progress) or Nbr = 0
        return NOT_READABLE
    ln = t3_ln(mem)
    if ln > 16 * t3_nmaxb(mem) or 16 + ln > len(mem):
        return NO_NDEF
    return mem[16:16 + ln]


def view_is(view, octets):
    return view != NOT_READABLE and view != NO_NDEF and view == octets


def cut_ok(view, old_view, new_octets):
    """C02: what a fresh reader may see after a write was cut at this point"""
    if view == NOT_READABLE:
        return True
    if old_view != NOT_READABLE and old_view != NO_NDEF and view != NO_NDEF and view == old_view:
        return True
    if view == NO_NDEF:
        return old_view == NO_NDEF
    return len(view) == 0 or view == new_octets


def t4_nlen(f, nlen_size):
    if nlen_size == 2:
        return f[0] * 256 + f[1]
    return f[0] * 16777216 + f[1] * 65536 + f[2] * 256 + f[3]


def t4_view(f, nlen_size):
    """the NDEF message a fresh reader finds in an NDEF file `f` (NLEN/ENLEN field first)"""
    if len(f) < nlen_size:
        return NO_NDEF
    n = t4_nlen(f, nlen_size)
    if n > len(f) - nlen_size:
        return NO_NDEF
    return f[nlen_size:nlen_size + n]


def t4_cc_valid(cc):
    """well-formed capability container (T4T 2.0 / 3.0): CCLEN, mapping version 2.x or 3.x, MLe >= 000Fh,
    MLc >= 0001h, then the NDEF File Control TLV (T=04h, L=06h) or the Extended one (T=06h, L=08h); the file
    identifier is neither the CC's nor a reserved one"""
    if len(cc) < 15:
        return False
    if cc[0] * 256 + cc[1] != len(cc):
        return False
    if cc[2] // 16 != 2 and cc[2] // 16 != 3:
        return False
    if cc[3] * 256 + cc[4] < 15 or cc[5] * 256 + cc[6] < 1:
        return False
    if cc[7] == 4:
        return cc[8] == 6 and len(cc) == 15 and cc[9:11] != b'\xE1\x03'
    if cc[7] == 6:
        return cc[8] == 8 and len(cc) == 17 and cc[9:11] != b'\xE1\x03'
    return False


def t4_cc_mfs(cc):
    if cc[7] == 4:
        return cc[11] * 256 + cc[12]
    return cc[11] * 16777216 + cc[12] * 65536 + cc[13] * 256 + cc[14]


def t4_cc_mle(cc):
    return cc[3] * 256 + cc[4]


def t4_cc_mlc(cc):
    return cc[5] * 256 + cc[6]


def t12_view(mem, off, end, a, b):
    """the message a fresh Type 1/2 reader finds in the NDEF TLV at `off` of a memory image whose data area ends
    at `end` (exclusive) and whose only reserved range is [a, b) - for layouts in which that range does not
    touch the TLV (it lies before `off` or behind the data area, or is empty).  NO_NDEF when there is no NDEF
    TLV at `off` or its value does not fit the data area."""
    if off + 2 > end or mem[off] != 3:
        return NO_NDEF
    if mem[off + 1] < 255:
        n = mem[off + 1]
        s = off + 2
    else:
        if off + 4 > end:
            return NO_NDEF
        n = mem[off + 2] * 256 + mem[off + 3]
        s = off + 4
    if s + n > end:
        return NO_NDEF
    return mem[s:s + n]


def ctl_tlv_start(v):
    """first octet address named by a lock / memory control TLV value (T1T/T2T: PageAddr * 2**BytesPerPage +
    ByteOffset, BytesPerPage being the LOW nibble of the third octet)"""
    return (v[0] // 16) * (2 ** (v[2] % 16)) + v[0] % 16


def lock_tlv_size(v):
    """number of lock octets: the size octet counts lock BITS (0 means 256), rounded up to whole octets"""
    bits = v[1] if v[1] > 0 else 256
    return (bits + 7) // 8


def rsvd_tlv_size(v):
    """number of reserved octets (0 means 256)"""
    return v[1] if v[1] > 0 else 256


def t12_view_in(mem, off, end, a, b):
    """like t12_view for layouts whose reserved range [a, b) lies INSIDE the message area behind the TLV header
    (off + 4 <= a < b <= end): the value octets are the first n not-reserved octets from the start of the value"""
    if off + 2 > end or mem[off] != 3:
        return NO_NDEF
    if mem[off + 1] < 255:
        n = mem[off + 1]
        s = off + 2
    else:
        if off + 4 > end:
            return NO_NDEF
        n = mem[off + 2] * 256 + mem[off + 3]
        s = off + 4
    if s + n <= a:
        return mem[s:s + n]
    if s + n + (b - a) > end:
        return NO_NDEF
    return mem[s:a] + mem[b:b + n - (a - s)]


def t3_apply(mem, data, blocks):
    """memory of a Type 3 Tag after the blocks of one Write Without Encryption command were stored in list order
    (16 octets each, a later element of the list wins)"""
    i = 0
    for b in blocks:
        mem = mem[0:16 * b] + data[16 * i:16 * i + 16] + mem[16 * b + 16:]
        i = i + 1
    return mem


def t3_gather(mem, blocks):
    """what one Read Without Encryption command returns: the listed blocks in list order"""
    out = b''
    for b in blocks:
        out = out + mem[16 * b:16 * b + 16]
    return out
