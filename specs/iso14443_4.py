"""ISO/IEC 14443-4 activation parameters: Answer To Select (section 5.2) and the
protocol info of ATQB/SENSB_RES (ISO/IEC 14443-3 section 7.9)."""

FSC_TABLE = (16, 24, 32, 40, 48, 64, 96, 128, 256)


def conformant_ats(ats):
    """TL counts itself and all following octets; T0 announces which of TA(1), TB(1), TC(1) follow"""
    if len(ats) < 1 or ats[0] != len(ats):
        return False
    if len(ats) == 1:
        return True
    need = 2
    if ats[1] & 0x10:
        need = need + 1
    if ats[1] & 0x20:
        need = need + 1
    if ats[1] & 0x40:
        need = need + 1
    return len(ats) >= need and ats[1] < 0x80


def ats_fsci(ats):
    """frame size for proximity card integer: low nibble of T0, default 2 when T0 is absent; RFU values are 8"""
    if len(ats) < 2:
        return 2
    v = ats[1] % 16
    return 8 if v > 8 else v


def ats_fwi(ats):
    """frame waiting time integer: high nibble of TB(1) if present (after TA(1) if present), default 4;
    the RFU value 15 is treated as 4"""
    if len(ats) < 2 or not (ats[1] & 0x20):
        return 4
    i = 2
    if ats[1] & 0x10:
        i = i + 1
    v = ats[i] // 16
    return 4 if v > 14 else v


def fsc_of(fsci):
    return FSC_TABLE[fsci]
