#!/bin/sh
# Offline setup: verify the tools the checks need; create scratch dirs.
set -e
cd "$(dirname "$0")"
python3-vt -c "import z3; assert z3.get_version_string().startswith('5.')" 
/venv/bin/python -c "import nfc, ndef" 
mkdir -p .work evidence/replay
echo "setup ok"
