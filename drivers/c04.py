"""Compositions of real nfcpy functions with spec encoders for C04."""
import nfc.dep
from specs.nfcdep import *   # noqa


def decode_dep_res(mac, fmt, pni, did, nad, data):
    """Initiator side: decode the independently built frame of a DEP_RES"""
    return mac.decode_frame(bytearray(dep_frame(mac.target.brty, enc_dep(0xD5, 0x07, fmt, pni, did, nad, data))))


def decode_dep_req(mac, fmt, pni, did, nad, data):
    """Target side: decode the independently built frame of a DEP_REQ"""
    return mac.decode_frame(bytearray(dep_frame(mac.target.brty, enc_dep(0xD4, 0x06, fmt, pni, did, nad, data))))


def encode_dep_req(mac, fmt, pni, did, nad, data):
    pfb = nfc.dep.DEP_REQ.PFB(fmt, nad is not None, did is not None, pni)
    return mac.encode_frame(nfc.dep.DEP_REQ(pfb, did, nad, data))


def encode_dep_res(mac, fmt, pni, did, nad, data):
    pfb = nfc.dep.DEP_RES.PFB(fmt, nad is not None, did is not None, pni)
    return mac.encode_frame(nfc.dep.DEP_RES(pfb, did, nad, data))
