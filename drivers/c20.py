"""Compositions of real nfcpy functions for C20."""


def ntag_protect_then_auth(tag, password, password2, read_protect, protect_from):
    first = tag._protect_with_password(password, read_protect, protect_from)
    second = tag._authenticate(password2)
    return (first, second)
