"""Compositions of real nfcpy functions for C20."""


def ntag_protect_then_auth(tag, password, password2, read_protect, protect_from):
    first = tag.protect(password, read_protect, protect_from)     # the public entry point (nfc.tag.Tag.protect)
    second = tag._authenticate(password2)
    return (first, second)
