"""Compositions of real nfcpy functions for C16: sequences of operations on one tag object."""
import nfc.tag


def t2_read_then(tag, page1, page2, what):
    try:
        tag.read(page1)
    except nfc.tag.TagCommandError:
        pass
    if what == 0:
        return tag.read(page2)
    if what == 1:
        return tag.is_present
    return tag.write(page2, bytearray(4))
