"""Compositions of real nfcpy functions for C01 (emulated Type 3 Tag): the reader's Type3Tag object on one side,
the library's Type3TagEmulation with the two NDEF services (as examples/tagtool.py registers them) on the other,
the RF link between them a loopback (models.tag_models.LoopbackClf)."""


def emu_serve(emu, memory):
    emu.add_service(0x0009, memory.ndef_read, memory.ndef_write)
    emu.add_service(0x000B, memory.ndef_read, None)


def emu_write(tag, emu, memory, data, blocks):
    emu_serve(emu, memory)
    tag.write_to_ndef_service(data, *blocks)


def emu_read(tag, emu, memory, blocks):
    emu_serve(emu, memory)
    return tag.read_from_ndef_service(*blocks)
