"""Compositions of real nfcpy functions for C14 (no logic of their own)."""
from nfc.clf.device import calculate_crc, Device


def crc_step(octet, reg):
    """the inner loop of calculate_crc for one octet"""
    return calculate_crc(bytearray([octet]), 1, reg)
