"""Compositions of real nfcpy functions with spec encoders (no logic of their
own): the round-trip obligations of C11 are postconditions of these."""
import nfc.llcp.pdu as pdu
from specs.llcp_frames import *   # noqa


def rt_connect(dsap, ssap, miu, rw, sn):
    return pdu.decode(enc_connect(dsap, ssap, miu, rw, sn))


def rt_cc(dsap, ssap, miu, rw):
    return pdu.decode(enc_cc(dsap, ssap, miu, rw))


def rt_pax(version, miux, wks, lto, opt):
    return pdu.decode(enc_pax(version, miux, wks, lto, opt))


def rt_dps(ecpk, rn):
    return pdu.decode(enc_dps(ecpk, rn))


def rt_snl(reqs, ress):
    b = hdr(1, SNL, 1)
    for tid, sn in reqs:
        b = b + enc_sdreq(tid, sn)
    for tid, sap in ress:
        b = b + enc_sdres(tid, sap)
    return pdu.decode(b)


def rt_agf(frames):
    b = hdr(0, AGF, 0)
    for f in frames:
        b = b + enc_agf_entry(f)
    return pdu.decode(b)


def encode_decode(p):
    """decode(encode(p)) on the real code only"""
    return pdu.decode(pdu.encode(p))


def reencode(data, offset, size):
    """decode, re-encode, decode again (idempotence of the codec)"""
    p = pdu.decode(data, offset, size)
    e = p.encode()
    q = pdu.decode(e)
    return (p, e, q, q.encode())
