"""Compositions of real nfcpy functions with spec encoders for C19."""
import nfc.dep
from specs.nfcdep import *   # noqa


def atr_req_roundtrip(nfcid3, did, bs, br, lr, nad, gb):
    pp = pp_of(lr, len(gb) > 0, nad)
    return nfc.dep.ATR_REQ.decode(bytearray(enc_atr_req(nfcid3, did, bs, br, pp, gb)))


def atr_res_roundtrip(nfcid3, did, bs, br, to, lr, nad, gb):
    pp = pp_of(lr, len(gb) > 0, nad)
    return nfc.dep.ATR_RES.decode(bytearray(enc_atr_res(nfcid3, did, bs, br, to, pp, gb)))
