"""negative control for C15: a driver call without the frontend lock"""


def unlocked_mute(clf):
    clf.device.mute()
