"""Native replay harness: runs under /venv/bin/python (the interpreter nfcpy is
installed in).  Reads a JSON list of cases on stdin, rebuilds the concrete
inputs of each from its recipe, calls the REAL function from the current /repo
tree, evaluates the contract clauses with CPython and prints a JSON list of
observations.  Nothing here decides a verdict; run.py compares.
"""
import ast
import collections
import copy
import importlib
import inspect
import json
import os
import sys
import threading
import traceback

HERE = os.path.dirname(os.path.dirname(os.path.abspath(__file__)))
REPO = os.environ.get('VERIF_REPO', '/repo')
sys.path.insert(0, HERE)
sys.path.insert(0, os.path.join(REPO, 'src'))

from harness import pyvc_rt   # noqa: E402
sys.modules['pyvc_rt'] = pyvc_rt


def resolve(qual):
    """'pkg.mod:Cls.attr' or 'pkg.mod.Cls.attr' -> object"""
    if ':' in qual:
        modname, path = qual.split(':')
        obj = importlib.import_module(modname)
        for p in path.split('.'):
            obj = getattr(obj, p)
        return obj
    parts = qual.split('.')
    for i in range(len(parts), 0, -1):
        try:
            obj = importlib.import_module('.'.join(parts[:i]))
        except ImportError:
            continue
        for p in parts[i:]:
            obj = getattr(obj, p)
        return obj
    import builtins
    return getattr(builtins, qual)


def resolve_exc(name):
    import builtins
    import struct
    import binascii
    if name == 'struct.error':
        return struct.error
    if name == 'binascii.Error':
        return binascii.Error
    if hasattr(builtins, name):
        return getattr(builtins, name)
    return resolve(name)


class Builder(object):
    def __init__(self, spec_ns):
        self.memo = {}
        self.spec_ns = spec_ns

    def build(self, r):
        if r is None or isinstance(r, (bool, int, float, str)):
            return r
        if isinstance(r, list):
            return [self.build(x) for x in r]
        if '__bytes__' in r:
            b = bytes.fromhex(r['__bytes__'])
            return bytearray(b) if r.get('mutable') else b
        if '__tuple__' in r:
            return tuple(self.build(x) for x in r['__tuple__'])
        if '__list__' in r:
            return [self.build(x) for x in r['__list__']]
        if '__deque__' in r:
            return collections.deque(self.build(x) for x in r['__deque__'])
        if '__dict__' in r:
            d = collections.defaultdict(int) if r.get('default') else {}
            for k, v in r['__dict__']:
                d[self.build(k)] = self.build(v)
            return d
        if '__set__' in r:
            return set(self.build(x) for x in r['__set__'])
        if '__ref__' in r:
            return self.memo[r['__ref__']]
        if '__obj__' in r:
            cls = resolve(r['__obj__'])
            if issubclass(cls, BaseException):
                o = cls.__new__(cls)
            else:
                o = object.__new__(cls)
            self.memo[r['id']] = o
            for k, v in r['fields'].items():
                val = self.build(v)
                try:
                    o.__dict__[k] = val
                except AttributeError:
                    object.__setattr__(o, k, val)
            return o
        if '__lock__' in r:
            l = threading.RLock() if r['__lock__'] else threading.Lock()
            for _ in range(r.get('held', 0)):
                l.acquire()
            self.memo[r['id']] = l
            return l
        if '__cond__' in r:
            return threading.Condition(self.build(r['__cond__']))
        if '__class__' in r:
            return resolve_exc(r['__class__'])
        if '__logger__' in r:
            import logging
            lg = logging.getLogger(r['__logger__'])
            lg.setLevel(logging.CRITICAL + 1)
            return lg
        if '__lambda__' in r:
            return eval(r['__lambda__'], dict(self.spec_ns))
        if '__func__' in r:
            return resolve(r['__func__'])
        if '__method__' in r:
            return getattr(self.build(r['__method__'][0]), r['__method__'][1])
        if '__slice__' in r:
            return slice(*[self.build(x) for x in r['__slice__']])
        if '__repr__' in r:
            raise ValueError('cannot rebuild %s' % r['__repr__'])
        raise ValueError('unknown recipe %r' % (r,))


class OldRewriter(ast.NodeTransformer):
    """old(e) -> e evaluated over the entry snapshot; implies(a,b) -> (not a) or b"""
    def __init__(self):
        self.in_old = False

    def visit_Call(self, node):
        if isinstance(node.func, ast.Name) and node.func.id == 'old' and len(node.args) == 1:
            saved = self.in_old
            self.in_old = True
            r = self.visit(node.args[0])
            self.in_old = saved
            return r
        if isinstance(node.func, ast.Name) and node.func.id == 'implies' and len(node.args) == 2:
            a = self.visit(node.args[0])
            b = self.visit(node.args[1])
            return ast.BoolOp(op=ast.Or(), values=[ast.UnaryOp(op=ast.Not(), operand=a), b])
        return self.generic_visit(node)

    def visit_Name(self, node):
        if self.in_old and isinstance(node.ctx, ast.Load):
            return ast.Subscript(value=ast.Name(id='__old__', ctx=ast.Load()),
                                 slice=ast.Constant(node.id), ctx=ast.Load())
        return node


class OldEnv(dict):
    def __init__(self, old, ns):
        dict.__init__(self, old)
        self.ns = ns

    def __missing__(self, k):
        if k in self.ns:
            return self.ns[k]
        import builtins
        return getattr(builtins, k)


def eval_clause(src, env, old, ns):
    tree = ast.parse(src.strip(), mode='eval')
    tree = ast.fix_missing_locations(OldRewriter().visit(tree))
    g = dict(ns)
    g['__old__'] = OldEnv(old, ns)
    g.update(env)
    return eval(compile(tree, '<clause>', 'eval'), g)


def spec_namespace():
    ns = {}
    for pkg in ('specs', 'models'):
        d = os.path.join(HERE, pkg)
        for fn in sorted(os.listdir(d)):
            if fn.endswith('.py') and fn != '__init__.py':
                m = importlib.import_module(pkg + '.' + fn[:-3])
                for k, v in vars(m).items():
                    if not k.startswith('__'):
                        ns[k] = v
    return ns


def summarize(v, depth=0):
    if depth > 3:
        return '...'
    if isinstance(v, (bytes, bytearray)):
        return {'bytes': bytes(v[:256]).hex(), 'len': len(v)}
    if isinstance(v, (bool, int, float, str)) or v is None:
        return v
    if isinstance(v, (list, tuple, collections.deque)):
        return [summarize(x, depth + 1) for x in list(v)[:32]]
    if isinstance(v, dict):
        return {str(k): summarize(x, depth + 1) for k, x in list(v.items())[:32]}
    if hasattr(v, '__dict__'):
        return {'class': type(v).__module__ + '.' + type(v).__name__,
                'fields': {k: summarize(x, depth + 1) for k, x in list(vars(v).items())[:32]
                           if not k.startswith('__')}}
    return repr(v)[:200]


def call_target(case, env):
    target = case['target']
    modname, path = target.split(':')
    mod = importlib.import_module(modname)
    parts = path.split('.')
    owner = mod
    for p in parts[:-1]:
        owner = getattr(owner, p)
    raw = inspect.getattr_static(owner, parts[-1]) if inspect.isclass(owner) else getattr(owner, parts[-1])
    if isinstance(raw, property):
        fn = raw.fset if case.get('call') == 'setter' else raw.fget
    elif isinstance(raw, staticmethod):
        fn = raw.__func__
    elif isinstance(raw, classmethod):
        fn = getattr(owner, parts[-1])
    else:
        fn = raw
    params = inspect.signature(fn).parameters
    sig = [p for p, q in params.items() if q.kind in (q.POSITIONAL_ONLY, q.POSITIONAL_OR_KEYWORD)]
    args = []
    for nm in sig:
        if nm in env:
            args.append(env[nm])
        else:
            break
    kwargs = {k: env[k] for k in case.get('kwargs', []) if k in env and k not in sig[:len(args)]}
    for p, q in params.items():
        if q.kind == q.VAR_POSITIONAL and p in env:
            args.extend(env[p])
        if q.kind == q.VAR_KEYWORD and p in env:
            kwargs.update(env[p])
    return fn(*args, **kwargs)


def install_stubs(targets, own, names=None):
    names = names or {}
    pyvc_rt._call_excs.clear()
    pyvc_rt._call_rets.clear()
    """callees that the proof replaced by their contract are replaced natively
    by stubs that return what the solver model chose (in call order)"""
    undo = []
    state = {'entered': False}
    for t in targets:
        modname, path = t.split(':')
        mod = importlib.import_module(modname)
        parts = path.split('.')
        owner = mod
        for p in parts[:-1]:
            owner = getattr(owner, p)
        orig = inspect.getattr_static(owner, parts[-1]) if inspect.isclass(owner) else getattr(owner, parts[-1])

        def stub(*a, _t=t, _orig=orig, **k):
            if _t == own and not state['entered']:
                state['entered'] = True      # the verified function itself runs for real
                f = _orig.__func__ if isinstance(_orig, (staticmethod, classmethod)) else _orig
                return f(*a, **k)
            r = pyvc_rt.next_call(_t)
            nm = names.get(_t)
            if r[0] == 'raise':
                e = r[1].__new__(r[1])
                if len(r) > 2 and r[2] is not None:
                    try:
                        e.errno = r[2]
                    except Exception:
                        pass
                if nm is not None:
                    pyvc_rt._call_excs[nm] = (r[1].__qualname__, r[2] if len(r) > 2 else None)
                    pyvc_rt._call_rets.pop(nm, None)
                raise e
            if nm is not None:
                pyvc_rt._call_excs[nm] = None
                pyvc_rt._call_rets[nm] = r[1]
            return r[1]
        try:
            stub.__signature__ = inspect.signature(
                orig.__func__ if isinstance(orig, (staticmethod, classmethod)) else orig)
        except (TypeError, ValueError):
            pass
        setattr(owner, parts[-1], staticmethod(stub) if isinstance(orig, staticmethod) else stub)
        undo.append(lambda owner=owner, nm=parts[-1], orig=orig: setattr(owner, nm, orig))
    return undo


def run_case(case, ns):
    obs = {'id': case.get('id')}
    try:
        pyvc_rt.load_script(case.get('nondet', []), Builder(ns))
        b = Builder(ns)
        env = {k: b.build(v) for k, v in case['params'].items()}
        bo = Builder(ns)
        old = {k: bo.build(v) for k, v in case['params'].items()}
    except Exception:
        obs['error'] = 'rebuild failed: ' + traceback.format_exc()[-800:]
        return obs
    # witness predicates of known findings are evaluated on the inputs
    obs['witness'] = []
    for w in case.get('witness', []):
        try:
            obs['witness'].append(bool(eval_clause(w, env, old, ns)))
        except Exception as e:
            obs['witness'].append('error: %r' % (e,))
    sys.setrecursionlimit(case.get('recursionlimit', 1000))
    undo = install_stubs(case.get('stubs', []), case['target'], case.get('stub_names'))
    # select.select on a model socket: answered from the script (the symbolic side records a nondet bool)
    import select as _select_mod
    _real_select = _select_mod.select
    _select_mod.select = lambda r, w, x, timeout=None: ((list(r), [], []) if pyvc_rt.nondet_bool() else ([], [], []))
    undo.append(lambda: setattr(_select_mod, 'select', _real_select))
    try:
        result = call_target(case, env)
        obs['outcome'] = 'return'
        obs['result'] = summarize(result)
        env2 = dict(env)
        env2['result'] = result
    except NativeHang:
        raise
    except BaseException as e:   # noqa
        obs['outcome'] = 'raise'
        if isinstance(e, pyvc_rt.ScriptExhausted):
            obs['script_exhausted'] = True
        obs['exc_class'] = type(e).__module__ + '.' + type(e).__name__
        try:
            obs['exc_msg'] = str(e)[:300]
        except Exception:   # a stubbed exception object built without its constructor
            obs['exc_msg'] = '<unprintable %s>' % type(e).__name__
        obs['exc_mro'] = [c.__module__ + '.' + c.__name__ for c in type(e).__mro__]
        tb = traceback.extract_tb(e.__traceback__)
        obs['exc_where'] = '%s:%s' % (os.path.basename(tb[-1].filename), tb[-1].lineno) if tb else None
        allowed = []
        for nm in case.get('allowed_raises', []):
            try:
                allowed.append(resolve_exc(nm))
            except Exception:
                pass
        obs['exc_allowed'] = any(isinstance(e, c) for c in allowed)
        obs['exc_matches'] = [nm for nm, c in zip(case.get('allowed_raises', []), allowed) if isinstance(e, c)]
        env2 = dict(env)
        env2['exc'] = e
    for u in undo:
        u()
    obs['clauses'] = {}
    which = case.get('clauses_return', []) if obs['outcome'] == 'return' else case.get('clauses_raise', {}).get(
        (obs.get('exc_matches') or [None])[0], [])
    for nm, src in which:
        try:
            obs['clauses'][nm] = bool(eval_clause(src, env2, old, ns))
        except Exception as e:
            obs['clauses'][nm] = 'error: %r' % (e,)
    # reads-clause differential: "decoded from its own bytes only" means the
    # outcome equals the outcome on the own bytes alone (standalone overrides),
    # or, without overrides, is insensitive to every byte outside [lo, hi)
    for pname, lo_src, hi_src, over in case.get('reads', []):
        try:
            b2 = Builder(ns)
            envp = {k: b2.build(v) for k, v in case['params'].items()}
            if over:
                for k, src in over.items():
                    envp[k] = eval_clause(src, old, old, ns)
            else:
                lo = eval_clause(lo_src, old, old, ns)
                hi = eval_clause(hi_src, old, old, ns)
                data = bytearray(envp[pname])
                for i in range(len(data)):
                    if not (lo <= i < hi):
                        data[i] ^= 0xFF
                envp[pname] = bytes(data) if isinstance(envp[pname], bytes) else data
            try:
                r2 = ('return', summarize(call_target(case, envp)))
            except BaseException as e2:   # noqa
                r2 = ('raise', type(e2).__name__)
            r1 = ('return', obs.get('result')) if obs['outcome'] == 'return' else ('raise', obs['exc_class'].split('.')[-1])
            obs.setdefault('reads_differs', {})[pname] = (json.dumps(r1, sort_keys=True) != json.dumps(r2, sort_keys=True))
            obs.setdefault('reads_other', {})[pname] = r2
        except Exception as e:
            obs.setdefault('reads_differs', {})[pname] = 'error: %r' % (e,)
    return obs


class NativeHang(BaseException):
    pass


def _alarm(sig, frm):
    raise NativeHang()


def main():
    import signal
    cases = json.load(sys.stdin)
    ns = spec_namespace()
    out = []
    signal.signal(signal.SIGALRM, _alarm)
    for c in cases:
        signal.alarm(int(c.get('timeout_s', 8)))
        try:
            out.append(run_case(c, ns))
        except NativeHang:
            out.append({'id': c.get('id'), 'outcome': 'hang', 'hang': True, 'clauses': {}, 'witness': []})
        except BaseException:   # noqa
            out.append({'id': c.get('id'), 'error': traceback.format_exc()[-800:]})
        finally:
            signal.alarm(0)
    json.dump(out, sys.stdout)


if __name__ == '__main__':
    main()
