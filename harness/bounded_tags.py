"""Bounded stand-in for C01/C02/C03 on Type 1 and Type 2 Tags (labelled bounded, never counted as proved).

Runs the real nfc.tag.tt1 / nfc.tag.tt2 code under /venv/bin/python against a simulated tag memory behind
clf.exchange() and evaluates the same three contracts the proved Type 3/4 checks state, with an independent TLV
reader (below, written from the NFC Forum T1T/T2T mapping, sharing no code with nfcpy):

  C01  after `ndef.octets = m` a fresh reader of the tag memory finds exactly m; capacity is honest; longer data is
       refused before any command
  C02  after every prefix of the state-changing commands of that write (field lost after the k-th write command)
       a fresh reader finds the old message, an empty/absent message or the complete new message
  C03  bytes outside the NDEF message area (header/CC, lock, OTP, reserved ranges, beyond the data area) keep their
       value and no write command addresses a unit wholly outside the area

Bound: the layouts of LAYOUTS x old lengths x new lengths listed in lengths() x every cut point; contents are
fixed pseudo-random octets (seeded).  Usage:
  bounded_tags.py <C01|C02|C03> [--jobs N] [--tier quick|thorough]   -> JSON on stdout
  bounded_tags.py --case '<json>'                                     -> replays one case, JSON on stdout
"""
import sys, os, json, random, multiprocessing
sys.path.insert(0, os.path.join(os.environ.get('NFCPY_REPO', os.environ.get('VERIF_REPO', '/repo')), 'src'))
import logging
logging.disable(logging.CRITICAL)
from unittest import mock
import nfc, nfc.clf, nfc.tag, nfc.tag.tt1, nfc.tag.tt2   # noqa


# ---------------------------------------------------------------- independent reading of the TLV mapping
def ctl_range(v, lock):
    page, offs = v[0] >> 4, v[0] & 15
    size = v[1] if v[1] else 256
    if lock:
        size = (size + 7) // 8
    start = page * (1 << (v[2] & 15)) + offs
    return set(range(start, start + size))


def tlv_view(mem, first, end, skip0):
    """-> (status, ndef_tlv_offset, value addresses, skip set)   status: 'ndef' | 'none'
    walks TLVs from `first` to `end` (exclusive); reserved ranges of lock/memory control TLVs are skipped inside
    TLV value fields"""
    skip = set(skip0)
    p = first
    while p < end:
        if p in skip:
            p += 1
            continue
        t = mem[p]
        if t == 0x00:
            p += 1
            continue
        if t == 0xFE:
            return ('none', None, [], skip)
        if p + 1 >= len(mem):
            return ('none', None, [], skip)
        ln = mem[p + 1]
        q = p + 2
        if ln == 0xFF:
            if p + 3 >= len(mem):
                return ('none', None, [], skip)
            ln = mem[p + 2] * 256 + mem[p + 3]
            q = p + 4
        addrs = []
        while len(addrs) < ln:
            if q >= end:
                return ('none', None, [], skip)       # value runs out of the data area
            if q not in skip:
                addrs.append(q)
            q += 1
        if t == 0x03:
            return ('ndef', p, addrs, skip)
        if t == 0x01 and ln == 3:
            skip |= ctl_range([mem[a] for a in addrs], True)
        if t == 0x02 and ln == 3:
            skip |= ctl_range([mem[a] for a in addrs], False)
        p = q
    return ('none', None, [], skip)


def fresh_view(kind, mem):
    """what a fresh, independent reader finds: bytes of the message, or None (no readable NDEF)"""
    if kind == 'tt2':
        if mem[12] != 0xE1 or mem[13] >> 4 != 1:
            return None, None
        end = min(16 + mem[14] * 8, len(mem))
        st, off, addrs, skip = tlv_view(mem, 16, end, set())
    else:
        if mem[8] != 0xE1 or mem[9] >> 4 != 1:
            return None, None
        end = min((mem[10] + 1) * 8, len(mem))
        skip0 = set(range(104, 120 if end == 120 else 128))
        st, off, addrs, skip = tlv_view(mem, 12, end, skip0)
    if st != 'ndef':
        return None, None
    return bytes(mem[a] for a in addrs), (off, addrs, skip, end)


# ---------------------------------------------------------------- simulated tags behind clf.exchange
class Sim(object):
    def __init__(self, kind, mem, cut_after=None, hr0=0x12):
        self.kind, self.mem, self.cut_after = kind, bytearray(mem), cut_after
        self.writes = []           # (first address, length) of each state-changing command
        self.commands = 0
        self.sector = 0
        self.hr = bytearray([hr0, 0x4C])
        self.sel = None

    def lost(self):
        return self.cut_after is not None and len(self.writes) >= self.cut_after

    def exchange(self, data, timeout):
        self.commands += 1
        data = bytes(data)
        return self.t2(data) if self.kind == 'tt2' else self.t1(data)

    def t2(self, d):
        if self.sel is not None:                      # second half of SECTOR SELECT: passive ack = timeout
            self.sector, self.sel = d[0], None
            raise nfc.clf.TimeoutError
        if d[0] == 0x30 and len(d) == 2:
            a = (self.sector * 256 + d[1]) * 4
            if a >= len(self.mem):
                return bytearray([0x00])
            r = self.mem[a:a + 16]
            return bytearray(r + self.mem[0:16 - len(r)])
        if d[0] == 0xA2 and len(d) == 6:
            if self.lost():
                raise nfc.clf.TimeoutError
            a = (self.sector * 256 + d[1]) * 4
            if a >= len(self.mem):
                return bytearray([0x00])
            self.mem[a:a + 4] = d[2:6]
            self.writes.append((a, 4))
            return bytearray([0x0A])
        if d[0] == 0xC2 and len(d) == 2:
            if len(self.mem) <= 1024:
                return bytearray([0x00])
            self.sel = True
            return bytearray([0x0A])
        raise nfc.clf.TimeoutError

    def t1(self, d):
        uid = bytes(self.mem[0:4])
        if d[0] == 0x00:                              # RALL
            return self.hr + self.mem[0:120]
        if d[0] == 0x01:                              # READ
            return bytearray([d[1], self.mem[d[1]]])
        if d[0] == 0x02:                              # READ8
            a = d[1] * 8
            return bytearray([d[1]]) + self.mem[a:a + 8]
        if d[0] == 0x10:                              # RSEG
            a = (d[1] >> 4) * 128
            if a >= len(self.mem):
                raise nfc.clf.TimeoutError
            seg = self.mem[a:a + 128]
            return bytearray([d[1]]) + seg + bytearray(128 - len(seg))
        if d[0] in (0x53, 0x1A):                      # WRITE-E / WRITE-NE
            if self.lost():
                raise nfc.clf.TimeoutError
            a = d[1]
            self.mem[a] = d[2] if d[0] == 0x53 else (self.mem[a] | d[2])
            self.writes.append((a, 1))
            return bytearray([a, self.mem[a]])
        if d[0] in (0x54, 0x1B):                      # WRITE-E8 / WRITE-NE8
            if self.lost():
                raise nfc.clf.TimeoutError
            a = d[1] * 8
            if a >= len(self.mem):
                raise nfc.clf.TimeoutError
            new = d[2:10] if d[0] == 0x54 else bytes(x | y for x, y in zip(self.mem[a:a + 8], d[2:10]))
            self.mem[a:a + 8] = new
            self.writes.append((a, 8))
            return bytearray([d[1]]) + self.mem[a:a + 8]
        raise nfc.clf.TimeoutError


def make_tag(sim):
    clf = mock.Mock(spec=nfc.ContactlessFrontend)
    clf.exchange.side_effect = sim.exchange
    clf.sense.return_value = None
    target = nfc.clf.RemoteTarget("106A")
    if sim.kind == 'tt2':
        target.sens_res = bytearray.fromhex("4400")
        target.sel_res = bytearray([0])
        target.sdd_res = bytearray(sim.mem[0:3] + sim.mem[4:8])
        return nfc.tag.tt2.Type2Tag(clf, target)
    target.sens_res = bytearray.fromhex("000C")
    target.rid_res = bytearray(sim.hr + sim.mem[0:4])
    return nfc.tag.tt1.Type1Tag(clf, target)


# ---------------------------------------------------------------- layouts
def rnd(n, seed):
    r = random.Random(seed)
    return bytes(r.randrange(1, 255) for _ in range(n))


def build(kind, size, prefix, oldlen, seed=1):
    """memory image: header, `prefix` TLVs (control / NULL TLVs), an NDEF TLV holding `oldlen` octets, terminator"""
    if kind == 'tt2':
        mem = bytearray.fromhex("04010203 05060708 09480000 E110") + bytearray([(size - 16) // 8, 0])
        first, skip0 = 16, set()
    else:
        mem = bytearray.fromhex("01020304 05060700 E110") + bytearray([size // 8 - 1, 0])
        first = 12
        skip0 = set(range(104, 120 if size == 120 else 128))
    mem += bytearray(size - len(mem))
    extra = 64 if kind == 'tt2' and size > 64 else 0      # dynamic lock / reserved pages behind the data area
    mem += bytearray(b'\xAA' * extra)
    p = first
    for b in prefix:
        mem[p] = b
        p += 1
    _, _, _, skip = tlv_view(mem, first, size, skip0)
    old = rnd(oldlen, seed)
    hdr = [3, oldlen] if oldlen < 255 else [3, 255, oldlen >> 8, oldlen & 255]
    for b in hdr:
        mem[p] = b
        p += 1
    for b in old:
        while p in skip:
            p += 1
        mem[p] = b
        p += 1
    while p in skip:
        p += 1
    if p < size:
        mem[p] = 0xFE
    if kind == 'tt1':
        for a in range(104, 120 if size == 120 else 128):
            mem[a] = 0x55                                  # lock / OTP / reserved octets hold something to damage
    return mem


def LAYOUTS(tier):
    out = []
    nul = lambda n: [0] * n                                  # noqa
    # Type 2: static 64-byte tag (48 byte data area), NDEF TLV at each of the four page alignments
    for al in range(4):
        out.append(('tt2', 64, nul(al), 'static/align%d' % al))
    # Type 2: 512 byte data area, lock control TLV pointing behind the data area, every alignment
    for al in range(4):
        out.append(('tt2', 16 + 496, [1, 3, 0x82, 0x20, 0x36] + nul(al), 'dyn/lock-behind/align%d' % al))
    # reserved range inside the data area: before, inside, directly after, straddling the end of the message
    for pos, name in ((0x28, 'rsvd-near'), (0x60, 'rsvd-inside'), (0xF0, 'rsvd-far')):
        for al in (0, 1, 3):
            out.append(('tt2', 16 + 496, [2, 3, pos, 12, 0x04] + nul(al), 'dyn/%s/align%d' % (name, al)))
    out.append(('tt2', 16 + 496, [1, 3, 0x82, 0x20, 0x36, 2, 3, 0x70, 7, 0x04], 'dyn/lock+rsvd'))
    out.append(('tt2', 16 + 2032, [1, 3, 0xF0, 0xFF, 0x77], 'dyn2k/lock-behind'))
    # Type 1: static 120 byte, dynamic 512 byte with the usual lock + memory control TLVs, alignments over 8
    for al in (0, 1, 2):
        out.append(('tt1', 120, nul(al), 'static/align%d' % al))
    std = [1, 3, 0xF2, 0x30, 0x33, 2, 3, 0xF0, 0x02, 0x03]
    for al in range(8):
        out.append(('tt1', 512, std + nul(al), 'dyn/std/align%d' % al))
    out.append(('tt1', 512, std + [2, 3, 0x40, 16, 0x05], 'dyn/rsvd-inside'))
    # reserved / lock octets inside the last 16 octets of the data area
    out.append(('tt2', 64, [2, 3, 0x34, 8, 0x04], 'static/rsvd-tail'))
    out.append(('tt2', 16 + 496, [2, 3, 0xFF, 12, 0x05], 'dyn/rsvd-tail'))
    out.append(('tt2', 16 + 496, [1, 3, 0xFF, 0x60, 0x05], 'dyn/lock-tail'))
    out.append(('tt1', 512, std + [2, 3, 0xFF, 12, 0x05], 'dyn/rsvd-tail'))
    # capacity boundary: exactly 256..259 free octets at the NDEF TLV (1-byte vs 3-byte length field break-even)
    for n in (5, 6, 7, 8):
        out.append(('tt2', 16 + 264, nul(n), 'cap-boundary/null%d' % n))
    out.append(('tt2', 16 + 264, [1, 3, 0x82, 0x20, 0x36] + nul(1), 'cap-boundary/lock+null1'))
    out.append(('tt2', 16 + 264, [1, 3, 0x82, 0x20, 0x36] + nul(2), 'cap-boundary/lock+null2'))
    for al in (0, 1, 2):
        out.append(('tt1', 304, std + nul(al), 'cap-boundary/std+null%d' % al))
    if tier == 'quick':
        keep = ('static/rsvd-tail', 'dyn/rsvd-tail', 'dyn/lock-tail', 'cap-boundary/null6', 'cap-boundary/null7', 'cap-boundary/lock+null1', 'cap-boundary/std+null0',
                'cap-boundary/std+null1', 'static/align0', 'static/align1', 'static/align3', 'dyn/lock-behind/align1',
                'dyn/lock-behind/align2', 'dyn/lock-behind/align3', 'dyn/rsvd-inside/align1', 'dyn/lock+rsvd',
                'dyn/std/align0', 'dyn/std/align5', 'dyn/std/align6', 'dyn/rsvd-inside')
        out = [x for x in out if x[3] in keep]
    return out


def lengths(cap, tier):
    new = sorted(set(x for x in (0, 1, 2, 253, 254, 255, 256, 257, cap - 1, cap) if 0 <= x <= cap))
    old = sorted(set(x for x in (0, 7, 254, 255, 300, cap) if 0 <= x <= cap))
    if tier == 'quick':
        old = [x for x in old if x in (0, 7, 255, 300, cap)][:4]
    return old, new


def real_capacity(kind, mem):
    """octets a message can really occupy in this layout (independent reading): free octets from the NDEF TLV to
    the end of the data area minus tag and length field"""
    seen, info = fresh_view(kind, mem)
    if info is None:
        return 0
    off, addrs, skip, end = info
    free = len([a for a in range(off, end) if a not in skip])
    return max(0, free - 2) if free - 2 <= 254 else max(254, free - 4)


# ---------------------------------------------------------------- the three contracts on one case
def run_case(case):
    """case: kind,size,prefix,name,oldlen,newlen,cut (None = uninterrupted).  -> list of (obligation, ok, detail)"""
    kind, size, prefix = case['kind'], case['size'], case['prefix']
    mem0 = build(kind, size, prefix, case['oldlen'])
    old = rnd(case['oldlen'], 1)
    new = rnd(case['newlen'], 2)
    res = []
    seen0, info0 = fresh_view(kind, mem0)
    if seen0 != old:
        return [('bounded/layout', False, 'layout builder and independent reader disagree: %r' % (seen0,))]
    off, addrs0, skip, end = info0
    sim = Sim(kind, mem0, case.get('cut'))
    tag = make_tag(sim)
    try:
        nd = tag.ndef
    except Exception as e:   # noqa
        return [('C01/%s.bounded/read' % kind, False, 'tag.ndef raised %s: %s' % (type(e).__name__, e))]
    if nd is None or nd.octets != old:
        return [('C01/%s.bounded/read' % kind, False, 'tag.ndef reads %r, the tag holds %d octets'
                 % (None if nd is None else nd.octets[:8], len(old)))]
    # capacity is what the layout really holds
    real = real_capacity(kind, mem0)
    res.append(('C01/%s.bounded/capacity' % kind, nd.capacity <= real, 'capacity %d, layout holds %d'
                % (nd.capacity, real)))
    if case['newlen'] > nd.capacity:
        n0 = sim.commands
        try:
            nd.octets = new
            okr = False
        except ValueError:
            okr = sim.commands == n0 and not sim.writes
        res.append(('C01/%s.bounded/too-long' % kind, okr, 'data longer than capacity'))
        return res
    done, err = True, None
    try:
        nd.octets = new
    except nfc.tag.TagCommandError:
        done = False
    except Exception as e:           # noqa
        done, err = False, '%s: %s' % (type(e).__name__, e)
    seen, info = fresh_view(kind, sim.mem)
    if case.get('cut') is None:
        res.append(('C01/%s.bounded/write' % kind, done and seen == new,
                    err or ('fresh reader finds %s' % (None if seen is None else '%d octets' % len(seen)))))
        fresh = make_tag(Sim(kind, sim.mem))
        fo = fresh.ndef.octets if fresh.ndef is not None else None
        res.append(('C01/%s.bounded/read-back' % kind, fo == new, 'fresh activation reads %s'
                    % (None if fo is None else '%d octets' % len(fo))))
    else:
        okc = err is None and (seen is None or seen in (old, new, b''))
        res.append(('C02/%s.bounded/cut' % kind, okc, err or 'after %d write commands a fresh reader finds %s'
                    % (len(sim.writes), None if seen is None else '%d octets %s..' % (len(seen), seen[:4].hex()))))
    # C03: frame
    area = set(a for a in range(off, end) if a not in skip)
    changed = [a for a in range(len(sim.mem)) if sim.mem[a] != mem0[a]]
    bad = [a for a in changed if a not in area]
    res.append(('C03/%s.bounded/frame' % kind, not bad, 'octets changed outside the NDEF area: %s' % bad[:6]))
    outside = [(a, n) for a, n in sim.writes if not any(x in area for x in range(a, a + n))]
    res.append(('C03/%s.bounded/commands' % kind, not outside, 'write commands wholly outside the area: %s'
                % outside[:4]))
    return res


def cases_for(layout, tier):
    kind, size, prefix, name = layout
    mem = build(kind, size, prefix, 0)
    tag = make_tag(Sim(kind, mem))
    cap = tag.ndef.capacity if tag.ndef is not None else 0       # what the library accepts
    real = real_capacity(kind, mem)                              # what the layout holds
    olds, news = lengths(min(cap, real) if cap > 0 else real, tier)
    olds = [x for x in olds if x <= real]
    news = sorted(set(news + [x for x in (real - 1, real, cap - 1, cap) if x >= 0]))
    out = []
    for o in olds:
        for n in news + [max(cap, real) + 1]:
            out.append(dict(kind=kind, size=size, prefix=prefix, name=name, oldlen=o, newlen=n, cut=None))
    return out


def work(layout_tier):
    try:
        return work_(layout_tier)
    except BaseException as e:      # noqa  (custom exception classes do not survive the trip through the pool)
        import traceback
        return {'bounded/harness-error': {'n': 1, 'failed': 1, 'fails': [
            {'case': {'layout': layout_tier[0][3]}, 'detail': traceback.format_exc()[-600:]}]}}


def work_(layout_tier):
    layout, tier, prop = layout_tier
    agg = {}
    for case in cases_for(layout, tier):
        rs = run_case(case)
        nwrites = None
        for nm, ok, det in rs:
            e = agg.setdefault(nm, {'n': 0, 'failed': 0, 'fails': []})
            e['n'] += 1
            if not ok:
                e['failed'] += 1
                if len(e['fails']) < 40:
                    e['fails'].append({'case': case, 'detail': det})
        if prop == 'C01' or case['newlen'] > 10 ** 9:
            continue
        # every cut point: the uninterrupted run tells how many write commands there are
        sim = Sim(case['kind'], build(case['kind'], case['size'], case['prefix'], case['oldlen']))
        tag = make_tag(sim)
        try:
            if tag.ndef is not None and case['newlen'] <= tag.ndef.capacity:
                tag.ndef.octets = rnd(case['newlen'], 2)
            nwrites = len(sim.writes)
        except Exception:   # noqa
            nwrites = len(sim.writes)
        for k in range(0, nwrites):
            c2 = dict(case, cut=k)
            for nm, ok, det in run_case(c2):
                e = agg.setdefault(nm, {'n': 0, 'failed': 0, 'fails': []})
                e['n'] += 1
                if not ok:
                    e['failed'] += 1
                    if len(e['fails']) < 40:
                        e['fails'].append({'case': c2, 'detail': det})
    return agg


def main(argv):
    if argv and argv[0] == '--case':
        case = json.loads(argv[1])
        print(json.dumps([{'obligation': nm, 'ok': ok, 'detail': det} for nm, ok, det in run_case(case)]))
        return 0
    prop = argv[0]
    tier = argv[argv.index('--tier') + 1] if '--tier' in argv else 'quick'
    jobs = int(argv[argv.index('--jobs') + 1]) if '--jobs' in argv else 16
    lay = LAYOUTS(tier)
    with multiprocessing.get_context('fork').Pool(min(jobs, len(lay))) as pool:
        aggs = pool.map(work, [(l, tier, prop) for l in lay])
    tot = {}
    for a in aggs:
        for nm, e in a.items():
            if not nm.startswith(prop + '/') and not nm.startswith('bounded/'):
                continue
            t = tot.setdefault(nm, {'n': 0, 'failed': 0, 'fails': []})
            t['n'] += e['n']
            t['failed'] += e['failed']
            t['fails'].extend(e['fails'])
    print(json.dumps({'bound': '%d layouts (%s) x old/new lengths at the 0, 1, 254/255/256 and capacity boundaries x '
                               'every cut point; fixed pseudo-random contents' % (len(lay), tier),
                      'layouts': [l[0] + ':' + l[3] for l in lay], 'obligations': tot}))
    return 0


if __name__ == '__main__':
    sys.exit(main(sys.argv[1:]))
