"""Run-time side of the nondeterminism primitives used by environment models
(/verif/models).  Under pyvc they create fresh symbolic values; natively they
replay the values the solver model chose, in call order."""
_script = []
_pos = 0
_builder = None


class ScriptExhausted(Exception):
    pass


def load_script(script, builder):
    global _script, _pos, _builder
    _script, _pos, _builder = list(script), 0, builder


def _next(kind):
    global _pos
    if _pos >= len(_script):
        raise ScriptExhausted('oracle script exhausted at %s #%d' % (kind, _pos))
    k, v = _script[_pos]
    _pos += 1
    if k != kind:
        raise ScriptExhausted('oracle script mismatch: wanted %s, recorded %s' % (kind, k))
    return _builder.build(v)


def nondet_int(lo=None, hi=None):
    return _next('int')


def nondet_bool():
    return _next('bool')


def nondet_bytes(minlen=0, maxlen=None):
    return _next('bytes')


def nondet_bytearray(minlen=0, maxlen=None):
    return bytearray(_next('bytes'))


def ghost(name, value=None):
    return None


def assume(cond):
    if not cond:
        raise ScriptExhausted('assume(False) reached in native replay')


def require(cond, name):
    """interface precondition: an obligation under pyvc, a plain check natively"""
    if not cond:
        raise AssertionError('interface precondition violated: %s' % name)


def next_call(target):
    """scripted result of a callee replaced by its contract"""
    return _next('call:' + target)


def same_entries(new, old, skip):
    """frame condition on a table: every entry except index `skip` keeps its None-ness"""
    return len(new) == len(old) and all((new[i] is None) == (old[i] is None)
                                        for i in range(len(new)) if i != skip)


_call_args = {}


def call_arg(contract, name):
    """argument passed at the last call of a stubbed callee (native replay)"""
    return _call_args[contract][name]


def ideal(tag, outlen, *args):
    """native side of the idealised functions: the value the solver model chose"""
    return bytes(_next('bytes'))


_call_rets = {}


def call_ret(contract):
    return _call_rets[contract]


_call_excs = {}


def call_kwarg(contract, key, default):
    raise KeyError('call_kwarg is a ghost of the symbolic executor')


def call_raised(contract):
    """class name of what the last call of the stubbed callee raised (None: it returned / was not called)"""
    e = _call_excs.get(contract)
    return None if e is None else ('IOError' if e[0] == 'OSError' else e[0])


def call_errno(contract):
    return _call_excs[contract][1]


def entries_none_from(table, lo):
    return all(x is None for x in list(table)[max(lo, 0):])


def was_called(contract):
    return contract in _call_args


def urandom_draws():
    """ghost of the symbolic executor only (the values os.urandom returned on this path); contracts that use it are
    not replayed natively (native=False)"""
    raise NotImplementedError('urandom_draws() has no native counterpart')
