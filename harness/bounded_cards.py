"""Bounded stand-in for C08 on the ISO-DEP layer of Type 4 Tags (labelled bounded, never counted as proved).

The proved C08 contracts put the adversary behind IsoDepInitiator.exchange(); the loops inside that function
(waiting-time extension, retransmit-after-ACK, response chaining) have no variant against a card that keeps
answering, so their termination is not proved.  This harness runs the real Type4ATag / IsoDepInitiator code under
/venv/bin/python against scripted adversarial cards and checks the clause of C08 that is at stake: evaluating
tag.ndef terminates after a bounded number of commands (budget below) and yields None or an NDEF object.

Bound: the adversaries listed in ADVERSARIES x command budget 1000.  Usage:
  bounded_cards.py C08 [--tier quick|thorough] [--jobs N]   -> JSON on stdout
  bounded_cards.py --case '<json>'                          -> replays one case
"""
import sys, os, json
sys.path.insert(0, os.path.join(os.environ.get('NFCPY_REPO', os.environ.get('VERIF_REPO', '/repo')), 'src'))
import logging
logging.disable(logging.CRITICAL)
from unittest import mock
import nfc, nfc.clf, nfc.tag, nfc.tag.tt4   # noqa

BUDGET = 1000


class Budget(Exception):
    pass


class Card(object):
    """Type 4A card behind clf.exchange: answers RATS, then behaves per `kind`"""
    def __init__(self, kind):
        self.kind, self.n = kind, 0

    def exchange(self, data, timeout):
        self.n += 1
        if self.n > BUDGET:
            raise Budget()
        data = bytes(data)
        if data[0] == 0xE0:                       # RATS
            return bytearray.fromhex("05 78 80 70 02")
        pcb = data[0]
        bn = pcb & 1
        if self.kind == 'wtx-forever':
            return bytearray([0xF2, 0x01])        # S(WTX) request, again and again
        if self.kind == 'ack-other-block-forever':
            return bytearray([0xA2 | (bn ^ 1)])   # R(ACK) with the other block number: "retransmit"
        if self.kind == 'chaining-forever':
            if pcb & 0xE2 == 0x02:                # I-block: answer with a chained I-block
                self.bn = bn
                return bytearray([0x12 | bn, 0x00])
            if pcb & 0xF6 == 0xA2:                # R(ACK): next chained I-block, toggled number
                return bytearray([0x12 | bn, 0x00])
            return bytearray([0x12 | bn, 0x00])
        if self.kind == 'mute':
            raise nfc.clf.TimeoutError
        if self.kind == 'garbage':
            return bytearray([0x02 | bn, 0x6A, 0x82])
        raise nfc.clf.TimeoutError


ADVERSARIES = ('mute', 'garbage', 'wtx-forever', 'ack-other-block-forever', 'chaining-forever')


def run_case(case):
    card = Card(case['adversary'])
    clf = mock.Mock(spec=nfc.ContactlessFrontend)
    clf.exchange.side_effect = card.exchange
    clf.max_recv_data_size = 256
    clf.max_send_data_size = 256
    target = nfc.clf.RemoteTarget("106A")
    target.sens_res = bytearray.fromhex("4403")
    target.sel_res = bytearray([0x20])
    target.sdd_res = bytearray.fromhex("04010203040506")
    res = []
    try:
        tag = nfc.tag.tt4.Type4ATag(clf, target)
        nd = tag.ndef
        ok, det = True, 'tag.ndef = %r after %d commands' % (nd, card.n)
    except Budget:
        ok, det = False, 'more than %d commands sent, the reader keeps going (%s)' % (BUDGET, case['adversary'])
    except Exception as e:   # noqa
        ok, det = False, 'tag.ndef raised %s: %s' % (type(e).__name__, e)
    res.append(('C08/tt4.bounded/terminates', ok, det))
    return res


def main(argv):
    if argv and argv[0] == '--case':
        case = json.loads(argv[1])
        print(json.dumps([{'obligation': nm, 'ok': ok, 'detail': det} for nm, ok, det in run_case(case)]))
        return 0
    tot = {}
    for adv in ADVERSARIES:
        case = {'adversary': adv}
        for nm, ok, det in run_case(case):
            t = tot.setdefault(nm, {'n': 0, 'failed': 0, 'fails': []})
            t['n'] += 1
            if not ok:
                t['failed'] += 1
                t['fails'].append({'case': case, 'detail': det})
    print(json.dumps({'bound': '%d scripted adversarial Type 4A cards behind clf.exchange (%s), command budget %d'
                               % (len(ADVERSARIES), ', '.join(ADVERSARIES), BUDGET),
                      'obligations': tot}))
    return 0


if __name__ == '__main__':
    sys.exit(main(sys.argv[1:]))
