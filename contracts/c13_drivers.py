"""C13 - drivers report RF and host-link failures only as documented errors.

Modular over C14: Chipset.command() returns the payload of a valid response or
raises IOError / Chipset.Error with an arbitrary status (its raises-clause is
proved in C14). The payload of a well-framed response may be EMPTY (no status
octet) since session 4 - nothing in the frame format forbids it, and assuming
"at least one octet" hid the IndexError repaired by the fix of session 4;
still assumed: register reads return one octet per requested register."""
from .common import *   # noqa

X = 'nfc.clf.pn53x:'
CE = X + 'Chipset.Error'
DOC = {'nfc.clf:TimeoutError': [], 'nfc.clf:TransmissionError': [], 'nfc.clf:BrokenLinkError': [],
       'nfc.clf:ProtocolError': [], 'IOError': []}

contract('nfc.clf.pn53x:Chipset.command', 'C13', dict(self=Any(), cmd_code=Any(), cmd_data=Any(), timeout=Any()),
         name='C13/pn53x.command', assumed=True, note='raises-clause proved as C14/pn53x.command',
         raises={'IOError': [], CE: ['exc.errno >= 1 and exc.errno <= 255']}, returns=Bytes(0, 264, mutable=True))
contract('nfc.clf.pn532:Chipset._read_register', 'C13', dict(self=Any(), data=Any()),
         name='C13/pn532._read_register', assumed=True,
         note='a valid ReadRegister response holds one octet per requested register',
         raises={'IOError': [], CE: ['exc.errno >= 1 and exc.errno <= 255']},
         returns='nondet_bytearray(len(data) // 2, len(data) // 2)')
contract('nfc.clf.device:Device.check_crc_a', 'C13', dict(data=Any()), name='C13/check_crc_a', assumed=True,
         note='CRC check is a total boolean function (C14)', raises={}, returns=Bool())
contract('nfc.clf.pn532:Device._tt1_send_cmd_recv_rsp', 'C13', dict(self=Any(), data=Any(), timeout=Any()),
         name='C13/pn532._tt1_send_cmd_recv_rsp', assumed=True,
         note='out of reach (string based bit reversal); assumed to raise only what Chipset.command raises',
         raises={'IOError': [], CE: ['exc.errno >= 1 and exc.errno <= 255']}, returns=Bytes(0, 264, mutable=True))
USE = ['C13/pn53x.command', 'C13/pn532._read_register', 'C13/check_crc_a', 'C13/pn532._tt1_send_cmd_recv_rsp']
CHIP = lambda: Obj('nfc.clf.pn532:Chipset', transport=None, log=Log())   # noqa
DEV = lambda: Obj('nfc.clf.pn532:Device', chipset=CHIP(), log=Log())     # noqa
RTGT = lambda: OneOf(   # noqa
    Obj('nfc.clf:RemoteTarget', _partial=False, _brty_send='106A', _brty_recv='106A',
        sens_res=Bytes(2, 2, mutable=True), sel_res=Bytes(1, 1, mutable=True), sdd_res=Bytes(4, 10, mutable=True)),
    Obj('nfc.clf:RemoteTarget', _partial=False, _brty_send='106A', _brty_recv='106A',
        sens_res=Bytes(2, 2, mutable=True), rid_res=Bytes(6, 6, mutable=True)),
    Obj('nfc.clf:RemoteTarget', _partial=False, _brty_send='212F', _brty_recv='212F',
        sensf_res=Bytes(17, 19, mutable=True)),
    Obj('nfc.clf:RemoteTarget', _partial=False, _brty_send='106B', _brty_recv='106B',
        sensb_res=Bytes(12, 13, mutable=True)),
    Obj('nfc.clf:RemoteTarget', _partial=False, _brty_send='424F', _brty_recv='424F',
        atr_res=Bytes(17, 64, mutable=True)))
# which documented error: a host link failure other than a read timeout (any errno: EIO, ENODEV, ...) leaves as
# IOError, never dressed up as an RF error
def host_doc(cmd):
    d = dict(DOC)
    for k in ('nfc.clf:TimeoutError', 'nfc.clf:TransmissionError', 'nfc.clf:BrokenLinkError', 'nfc.clf:ProtocolError'):
        d[k] = ['call_raised("%s") != "IOError" or call_errno("%s") == 110' % (cmd, cmd)]
    # "timeout as TimeoutError, ... other RF errors as TransmissionError": the chip's status 01h is the timeout,
    # every other status of the exchange is a transmission error (NFC-DEP and the tag layers retry on exactly
    # these two); a chip status is never dressed up as a protocol error
    d['nfc.clf:TimeoutError'].append('call_raised("%s") != "Chipset.Error" or call_errno("%s") == 1' % (cmd, cmd))
    d['nfc.clf:TransmissionError'].append('call_raised("%s") != "Chipset.Error" or call_errno("%s") != 1' % (cmd, cmd))
    d['nfc.clf:ProtocolError'].append('False')
    # (field loss may be reported as BrokenLinkError - the property says so - but only for a chip status, not a timeout)
    d['nfc.clf:BrokenLinkError'].append('call_raised("%s") == "Chipset.Error" and call_errno("%s") != 1' % (cmd, cmd))
    return d


contract('nfc.clf.pn53x:Device.send_cmd_recv_rsp', 'C13',
         dict(self=DEV(), target=RTGT(), data=Bytes(0, 262, mutable=True), timeout=Const(0.1)),
         name='C13/pn532.send_cmd_recv_rsp', raises=host_doc('C13/pn53x.command'), use=USE)
LTGT = lambda: OneOf(   # noqa
    Obj('nfc.clf:LocalTarget', _partial=False, _brty_send='106A', _brty_recv='106A'),
    Obj('nfc.clf:LocalTarget', _partial=False, _brty_send='424F', _brty_recv='424F',
        atr_req=Bytes(16, 64, mutable=True)))
contract('nfc.clf.pn53x:Device.send_rsp_recv_cmd', 'C13',
         dict(self=DEV(), target=LTGT(), data=Opt(Bytes(0, 262, mutable=True)), timeout=Const(0.1)),
         name='C13/pn532.send_rsp_recv_cmd', raises=DOC, use=USE)

# ---------------------------------------------------------------- RC-S380
R = 'nfc.clf.rcs380:'
contract(R + 'Chipset.send_command', 'C13', dict(self=Any(), cmd_code=Any(), cmd_data=Any()),
         name='C13/rcs380.send_command', assumed=True,
         note='returns the response payload, or None when the host frames are not as expected; the transport may '
              'raise IOError (both proved on the real function as C13/rcs380.send_command.real); ASSUMED chip behaviour: a '
              'complete frame with the matching response code carries the payload its command defines (at least 8 octets here)', raises={'IOError': []}, returns=Opt(Bytes(8, 300, mutable=True)))
RDEV = lambda: Obj(R + 'Device', chipset=Obj(R + 'Chipset', transport=Const(1)), log=Log())   # noqa
RUSE = ['C13/rcs380.send_command', 'C13/check_crc_a']
contract(R + 'Device.send_cmd_recv_rsp', 'C13',
         dict(self=RDEV(), target=RTGT(), data=Bytes(0, 262, mutable=True), timeout=OneOf(Const(0.1), None)),
         name='C13/rcs380.send_cmd_recv_rsp', raises=DOC, use=RUSE,
         # data is returned only when the 32-bit status word of the chip's InCommRF response is zero - every status
         # bit (not only those of the first octet) is an error
         ensures=[('O-status.ok', 'call_ret("C13/rcs380.send_command") is None or '
                                  'call_ret("C13/rcs380.send_command")[0:4] == bytes(4)')])
# which documented error: the status word of the chip's TgCommRF response (octets 3..6, little endian) is a
# bit set; field loss (RF_OFF 0400h) is BrokenLinkError whatever else is set, else a receive timeout (0080h) is
# TimeoutError, anything else TransmissionError
ST = 'call_ret("C13/rcs380.send_command")'
RDOC = dict(DOC)
RDOC['nfc.clf:BrokenLinkError'] = ['(%s[4] // 4) %% 2 == 1' % ST]
RDOC['nfc.clf:TimeoutError'] = ['(%s[4] // 4) %% 2 == 0 and %s[3] >= 128' % (ST, ST)]
RDOC['nfc.clf:TransmissionError'] = ['(%s[4] // 4) %% 2 == 0 and %s[3] < 128' % (ST, ST)]
contract(R + 'Device.send_rsp_recv_cmd', 'C13',
         dict(self=RDEV(), target=LTGT(), data=Opt(Bytes(0, 262, mutable=True)), timeout=OneOf(Const(0.1), None)),
         name='C13/rcs380.send_rsp_recv_cmd', raises=RDOC, use=RUSE)

# ---------------------------------------------------------------- frontend
DM = lambda: Obj('models.clf_models:FaultyDevice', _partial=False)   # noqa
contract('nfc.clf:ContactlessFrontend.exchange', 'C13',
         dict(self=Obj('nfc.clf:ContactlessFrontend', lock=Lock(reentrant=False), device=Opt(DM()),
                       target=OneOf(None, Obj('nfc.clf:RemoteTarget', _partial=False, _brty_send='106A',
                                              _brty_recv='106A'),
                                    Obj('nfc.clf:LocalTarget', _partial=False, _brty_send='106A', _brty_recv='106A'))),
              send_data=Bytes(0, None, mutable=True), timeout=Const(0.1)),
         name='C13/clf.exchange', raises=DOC,
         ensures=[('post.lock_released', 'not self.lock.locked()')])

# InDataExchange is the one PN53x command whose status octet is a bit field (NAD, MI, 6-bit error code): the
# error raised carries the error code alone, so that the drivers' "errno == 1 is a timeout" classification holds
# whatever the other bits are
contract('nfc.clf.pn53x:Chipset.command', 'C13', dict(self=Any(), cmd_code=Any(), cmd_data=Any(), timeout=Any()),
         name='C13/pn53x.command.answered', assumed=True,
         note='the case of C13/pn53x.command in which the chip answers with a payload (or the host link fails)',
         raises={'IOError': []}, returns=Bytes(0, 264, mutable=True))
contract(X + 'Chipset.in_data_exchange', 'C13',
         dict(self=CHIP(), data=Bytes(0, 262, mutable=True), timeout=Const(0.1), more=Bool()),
         name='C13/pn53x.in_data_exchange', use=['C13/pn53x.command.answered'],
         ensures=[('O-status.ok', 'len(call_ret("C13/pn53x.command.answered")) >= 1 and '
                                  'call_ret("C13/pn53x.command.answered")[0] % 64 == 0')],
         raises={'IOError': [], CE: ['(len(call_ret("C13/pn53x.command.answered")) == 0 and exc.errno == 255) or '
                                     '(len(call_ret("C13/pn53x.command.answered")) >= 1 and '
                                     'exc.errno == call_ret("C13/pn53x.command.answered")[0] % 64)',
                                     'exc.errno != 0']})

# ---------------------------------------------------------------- RC-S380 host frames (verified, not assumed)
# the real send_command over a host link that may deliver anything (truncated reads included) or fail: only
# IOError leaves it, whatever the octets read - the response payload, when one is returned, comes from a frame
# that carries the response code D7h, cmd_code + 1
RTR = lambda: Obj('models.hostlink:UsbTransport', written=Fixed([]), last=None)   # noqa
contract(R + 'Chipset.send_command', 'C13',
         dict(self=Obj(R + 'Chipset', transport=RTR()), cmd_code=OneOf(Const(0x00), Const(0x02), Const(0x04),
                                                                      Const(0x06), Const(0x40), Const(0x42),
                                                                      Const(0x48)),
              cmd_data=Bytes(0, 300, mutable=True)),
         name='C13/rcs380.send_command.real', raises={'IOError': []},
         ensures=[('O-rsp.code', 'result is None or (len(self.transport.last) >= 10 and '
                                 'self.transport.last[8] == 0xD7 and self.transport.last[9] == cmd_code + 1)')])

# ---------------------------------------------------------------- other PN53x family drivers
# PN533 and RC-S956 override the Type 1 Tag command path; the firmware-supported commands and the PN533 RSEG
# emulation (16 READ8 exchanges) are under contract, the register-level bit banging of READ8/WRITE8 is out of
# reach like the PN532 one (string based bit reversal)
contract(X + 'Chipset.in_data_exchange', 'C13', dict(self=Any(), data=Any(), timeout=Any(), more=Any()),
         name='C13/pn53x.in_data_exchange.summary', assumed=True,
         note='summary of C13/pn53x.in_data_exchange (proved above): response data and the more flag, IOError or '
              'Chipset.Error with a non-zero 6-bit error code (FFh when the response has no status octet)',
         raises={'IOError': [], CE: ['(exc.errno >= 1 and exc.errno <= 63) or exc.errno == 255']},
         returns='(nondet_bytearray(0, 262), nondet_bool())')
for mod, what in (('nfc.clf.rcs956:', 'rcs956'), ('nfc.clf.pn533:', 'pn533')):
    contract(mod + 'Device._tt1_send_cmd_recv_rsp', 'C13',
             dict(self=Obj(mod + 'Device', chipset=Obj(mod + 'Chipset', transport=None, log=Log()), log=Log()),
                  data=Bytes(1, 16, mutable=True), timeout=Const(0.1)),
             name='C13/%s._tt1_send_cmd_recv_rsp' % what,
             requires=['data[0] in (0x00, 0x01, 0x1A, 0x53, 0x72)'] if what == 'pn533' else [],
             raises={'IOError': [], CE: [], 'nfc.clf:TransmissionError': []},
             use=['C13/pn53x.in_data_exchange.summary'])

# the exchange paths of the other family members: the same two functions run on the subclass (what differs is
# what the subclass overrides - _tt1_send_cmd_recv_rsp, register names, the command table); RC-S956 runs its real
# Type 1 Tag path, the others keep the assumed one
for mod, what, tt1 in (('nfc.clf.pn531:', 'pn531', 'nfc.clf.pn53x:'), ('nfc.clf.pn533:', 'pn533', 'nfc.clf.pn533:'),
                       ('nfc.clf.rcs956:', 'rcs956', None), ('nfc.clf.acr122:', 'acr122', 'nfc.clf.pn532:')):
    use = ['C13/check_crc_a']
    if what == 'acr122':
        contract(mod + 'Chipset.command', 'C13', dict(self=Any(), cmd_code=Any(), cmd_data=Any(), timeout=Any()),
                 name='C13/acr122.command', assumed=True, note='raises-clause proved as C14/acr122.command',
                 raises={'IOError': [], CE: ['exc.errno >= 1 and exc.errno <= 255']},
                 returns=Bytes(1, 264, mutable=True))
        use += ['C13/acr122.command', 'C13/pn532._read_register']
    else:
        contract(mod + 'Chipset._read_register', 'C13', dict(self=Any(), data=Any()),
                 name='C13/%s._read_register' % what, assumed=True,
                 note='chip behaviour: a valid ReadRegister response holds one octet per requested register',
                 raises={'IOError': [], CE: ['exc.errno >= 1 and exc.errno <= 255']},
                 returns='nondet_bytearray(len(data) // 2, len(data) // 2)')
        use += ['C13/pn53x.command', 'C13/%s._read_register' % what]
    if tt1 is not None:
        contract(tt1 + 'Device._tt1_send_cmd_recv_rsp', 'C13', dict(self=Any(), data=Any(), timeout=Any()),
                 name='C13/%s._tt1.assumed' % what, assumed=True,
                 note='register-level Type 1 Tag command emulation out of reach (string based bit reversal); assumed '
                      'to raise only what Chipset.command raises (pn531: NotImplementedError is what the base '
                      'class raises - see C13/pn531.tt1 below)',
                 raises={'IOError': [], CE: ['exc.errno >= 1 and exc.errno <= 255']},
                 returns=Bytes(0, 264, mutable=True))
        use.append('C13/%s._tt1.assumed' % what)
    else:
        use.append('C13/pn53x.in_data_exchange.summary')
    dev = lambda mod=mod: Obj(mod + 'Device', chipset=Obj(mod + 'Chipset', transport=None, log=Log()), log=Log())  # noqa
    contract('nfc.clf.pn53x:Device.send_cmd_recv_rsp', 'C13',
             dict(self=dev(), target=RTGT(), data=Bytes(0, 262, mutable=True), timeout=Const(0.1)),
             name='C13/%s.send_cmd_recv_rsp' % what, use=use,
             raises=host_doc('C13/acr122.command' if what == 'acr122' else 'C13/pn53x.command'),
             # a Type 1 Tag command has at least its command code (the real RC-S956 path reads data[0])
             requires=['target.rid_res is None or len(data) >= 1'])
    contract('nfc.clf.pn53x:Device.send_rsp_recv_cmd', 'C13',
             dict(self=dev(), target=LTGT(), data=Opt(Bytes(0, 262, mutable=True)), timeout=Const(0.1)),
             name='C13/%s.send_rsp_recv_cmd' % what, raises=DOC, use=use)

# ---------------------------------------------------------------- the USB transport itself
# "whatever the host link does": every libusb error of every bulk transfer (the zero-length packet after a frame
# that fills whole packets included) leaves nfc.clf.transport.USB as IOError, nothing else does
TU = 'nfc.clf.transport:USB'
USBT = lambda: Obj(TU, usb_dev=Obj('models.hostlink:UsbHandle', _partial=False, transfers=0),   # noqa
                   usb_out=Opt(Obj('models.hostlink:UsbEndpoint', _partial=False, addr=Int(1, 15), size=OneOf(Const(8), Const(64), Const(512)))),
                   usb_inp=Opt(Obj('models.hostlink:UsbEndpoint', _partial=False, addr=Int(129, 143), size=Const(64))))
contract(TU + '.write', 'C13', dict(self=USBT(), frame=Bytes(0, 600, mutable=True), timeout=Int(0, 1000)),
         name='C13/usb.write', raises={'IOError': []},
         ensures=[('O-zlp', 'self.usb_out is None or self.usb_dev.transfers == '
                            '(2 if len(frame) % self.usb_out.size == 0 else 1)')])
contract(TU + '.read', 'C13', dict(self=USBT(), timeout=Int(0, 1000)),
         name='C13/usb.read', raises={'IOError': []},
         ensures=[('O-nonempty', 'result is None or (len(result) >= 1 and len(result) <= 300)')])

# ---------------------------------------------------------------- C14: who checks CRC_A for Type 2 style targets
# sense_tta() switches the chip's own receive CRC check off for every Type A target that is neither ISO-DEP nor
# NFC-DEP (SEL_RES bits 6 and 7 clear: Type 2 Tags, MIFARE Classic/Plus), because their ACK/NAK answers carry none.
# For those targets the driver itself must verify CRC_A on every longer response - data that nobody checked is
# never returned.
T2LIKE = ('target.rid_res is None and target.atr_res is None and target.sel_res is not None and '
          '(target.sel_res[0] // 32) % 4 == 0')
for _mod, _what, _use in (('nfc.clf.pn532:', 'pn532', USE),):
    contract('nfc.clf.pn53x:Device.send_cmd_recv_rsp', 'C14',
             dict(self=DEV(), target=RTGT(), data=Bytes(1, 262, mutable=True), timeout=Const(0.1)),
             name='C14/%s.send_cmd_recv_rsp.crc' % _what, raises=DOC, use=_use,
             ensures=[('O-crc.checked', 'implies(%s and len(result) > 2, was_called("C13/check_crc_a") and '
                                        'call_ret("C13/check_crc_a") != False)' % T2LIKE)])
# RC-S380: the driver switches the chip's CRC check off (check_crc = 0) for exactly those targets and verifies itself
contract(R + 'Device.send_cmd_recv_rsp', 'C14',
         dict(self=RDEV(), target=RTGT(), data=Bytes(1, 262, mutable=True), timeout=Const(0.1)),
         name='C14/rcs380.send_cmd_recv_rsp.crc', raises=DOC, use=RUSE,
         ensures=[('O-crc.checked', 'implies(%s and result is not None and len(result) > 2, '
                                    'was_called("C13/check_crc_a") and call_ret("C13/check_crc_a") != False)' % T2LIKE)])

# ---------------------------------------------------------------- udp driver (the RF link is a datagram socket)
# whatever datagram arrives - any octets, not only "<brty> <hex>" - the two exchange functions return data or
# raise a CommunicationError / IOError.  BOUNDED: datagrams of at most 8 octets (split()/unhexlify()/decode() are
# decided exactly by forking per octet); one pass through the receive loop and the next.
U = 'nfc.clf.udp:'
UDEV = lambda: Obj(U + 'Device', socket=Obj('models.hostlink:UdpSocket', _partial=False, sent=0),   # noqa
                   addr=Const(('127.0.0.1', 54321)), sent_data=0, rcvd_data=0)
UTGT = lambda cls: Obj('nfc.clf:' + cls, _partial=False, _brty_send='106A', _brty_recv='106A',   # noqa
                       _addr=Const(('127.0.0.1', 54321)))
for _fn, _cls in (('send_cmd_recv_rsp', 'RemoteTarget'), ('send_rsp_recv_cmd', 'LocalTarget')):
    contract(U + 'Device.' + _fn, 'C13',
             dict(self=UDEV(), target=UTGT(_cls), data=Opt(Bytes(0, 4, mutable=True)), timeout=Const(0.1)),
             name='C13/udp.' + _fn, bounded='bounded: datagrams of at most 8 octets',
             raises=DOC, loops={('nfc.clf.udp.Device._recv_data', 'While', 0): LoopSpec(invariant=['True'], havoc={'self.rcvd_data': Int(0, None)})})

# NFC-DEP (C04) and ISO-DEP (C12) recover a lost or corrupted frame by NAK/ATN only when the driver reports it as
# TimeoutError or TransmissionError: the initiator-side exchange contracts of the drivers are obligations of those
# properties too
import copy as _copy
from pyvc.contracts import REGISTRY as _REG
for _c in list(_REG):
    if _c.prop == 'C13' and not _c.expect_fail and _c.name.endswith('.send_cmd_recv_rsp'):
        # (C16: the tag layers retry and map CommunicationError only - whatever a driver lets escape instead reaches
        # the application; the bounded udp contract is included there)
        for _prop in (('C16',) if _c.bounded else ('C04', 'C12', 'C16')):
            _c2 = _copy.copy(_c)
            _c2.prop = _prop
            _c2.name = _prop + '/driver.' + _c.name.split('/', 1)[1]
            _REG.append(_c2)

# ... and for every Type A bit rate: whenever the driver has switched the chip's receive CRC check off (check_crc = 0
# in the last InSetProtocol of the exchange) it verifies CRC_A itself - the two sites must agree at 212A/424A too
contract(R + 'Chipset.in_set_protocol', 'C14', dict(self=Any(), data=Any()), name='C14/rcs380.in_set_protocol',
         assumed=True, note='InSetProtocol: accepted, refused with a status, or the host link fails',
         raises={'IOError': [], R + 'StatusError': []})
ATGT = lambda: OneOf(*[Obj('nfc.clf:RemoteTarget', _partial=False, _brty_send=b, _brty_recv=b,   # noqa
                           sens_res=Bytes(2, 2, mutable=True), sel_res=Bytes(1, 1, mutable=True),
                           sdd_res=Bytes(4, 10, mutable=True)) for b in ('106A', '212A', '424A')])
contract(R + 'Device.send_cmd_recv_rsp', 'C14',
         dict(self=RDEV(), target=ATGT(), data=Bytes(1, 262, mutable=True), timeout=Const(0.1)),
         name='C14/rcs380.send_cmd_recv_rsp.crc-any-rate', raises=DOC, use=RUSE + ['C14/rcs380.in_set_protocol'],
         ensures=[('O-crc.checked', 'implies(result is not None and len(result) > 2 and '
                                    'call_kwarg("C14/rcs380.in_set_protocol", "check_crc", 1) == 0, '
                                    'was_called("C13/check_crc_a") and call_ret("C13/check_crc_a") != False)')])
