"""C15 - the frontend never lets two threads drive the device at once.

Every method of the driver interface (models/clf_models.DeviceModel) carries
the precondition "clf.lock is held by the caller and the device is open"; it
is an obligation at every call into self.device.  Whenever the lock is
acquired, self.device is havocked (another thread may have closed the
frontend while the lock was free)."""
from .common import *   # noqa

C = 'nfc.clf:'
DEV = lambda: Obj('models.clf_models:DeviceModel', _partial=False, lock=Ref('self.lock'),   # noqa
                  closed=False)


def on_acquire(ex, lock):
    """another thread may have closed the device while the lock was free"""
    clf = ex.ghost.get('clf')
    if clf is None or lock is not clf.fields.get('lock'):
        return
    dev = clf.fields.get('device')
    if dev is not None and ex.choose(2) == 1:
        # ... by close(): the driver object is closed and the reference dropped
        if isinstance(dev, SObj) and 'closed' in dev.fields:
            dev.fields['closed'] = True
        clf.fields['device'] = None


def setup(ex, env):
    ex.ghost['clf'] = env['self']


def clf(**kw):
    f = dict(lock=Lock(reentrant=False), device=Opt(DEV()), target=None)
    f.update(kw)
    return Obj(C + 'ContactlessFrontend', **f)


RT = lambda: OneOf(Obj(C + 'RemoteTarget', _partial=False, _brty_send='106A', _brty_recv='106A'),     # noqa
                   Obj(C + 'RemoteTarget', _partial=False, _brty_send='106B', _brty_recv='106B'),
                   Obj(C + 'RemoteTarget', _partial=False, _brty_send='212F', _brty_recv='212F'),
                   Obj(C + 'RemoteTarget', _partial=False, _brty_send='106A', _brty_recv='106A',
                       atr_req=Bytes(0, 70)),
                   Obj(C + 'RemoteTarget', _partial=False, _brty_send='106X', _brty_recv='106X'))
LT = lambda: OneOf(Obj(C + 'LocalTarget', _partial=False, _brty_send='106A', _brty_recv='106A'),      # noqa
                   Obj(C + 'LocalTarget', _partial=False, _brty_send='106B', _brty_recv='106B'),
                   Obj(C + 'LocalTarget', _partial=False, _brty_send='212F', _brty_recv='212F'),
                   Obj(C + 'LocalTarget', _partial=False, _brty_send='106A', _brty_recv='106A',
                       atr_res=Bytes(0, 70)),
                   Obj(C + 'LocalTarget', _partial=False, _brty_send='999Z', _brty_recv='999Z'))
H = dict(hooks={'on_acquire': on_acquire}, setup=setup)
ANYERR = {'IOError': [], 'ValueError': [], C + 'Error': []}

contract(C + 'ContactlessFrontend.close', 'C15', dict(self=clf()), name='C15/close',
         ensures=[('post.closed', 'self.device is None')], raises={}, **H)
contract(C + 'ContactlessFrontend.sense', 'C15', dict(self=clf(), targets=Fixed([RT()])),
         name='C15/sense[1]', raises=ANYERR, call='varargs', **H)
contract(C + 'ContactlessFrontend.listen', 'C15', dict(self=clf(), target=LT(), timeout=Int(0, 10)),
         name='C15/listen', raises=ANYERR, **H)
contract(C + 'ContactlessFrontend.exchange', 'C15',
         dict(self=clf(target=OneOf(None, RT(), LT())), send_data=Bytes(0, None, mutable=True), timeout=Int(0, 10)),
         name='C15/exchange', raises=ANYERR, **H)
contract(C + 'ContactlessFrontend.max_send_data_size', 'C15', dict(self=clf(target=OneOf(None, RT()))),
         name='C15/max_send_data_size', raises=ANYERR, **H)
contract(C + 'ContactlessFrontend.max_recv_data_size', 'C15', dict(self=clf(target=OneOf(None, RT()))),
         name='C15/max_recv_data_size', raises=ANYERR, **H)


def on_deadlock(ex, lock):
    ex.oblige('C15/no-self-deadlock', False, detail='a frontend method acquires clf.lock while it is already held')


H2 = dict(hooks={'on_acquire': on_acquire, 'on_deadlock': on_deadlock}, setup=setup)
TAG = Obj('models.clf_models:TagModel', _partial=False, clf=Ref('self'))
contract('nfc.tag:activate', 'C15', dict(clf=Any(), target=Any()), name='C15/nfc.tag.activate', assumed=True,
         note='tag activation returns a tag object or None (subject of C08/C16)',
         raises={}, returns=Opt(TAG))
CB = lambda src: Func(src)   # noqa
RDWR = DictOf({'targets': Fixed([RT()]), 'iterations': 1, 'interval': 0,
               'on-discover': CB('lambda target: nondet_bool()'),
               'on-connect': CB('lambda tag: nondet_bool()'),
               'on-release': CB('lambda tag: nondet_bool()'),
               'beep-on-connect': Bool()})
contract(C + 'ContactlessFrontend._rdwr_connect', 'C15',
         dict(self=clf(), options=RDWR, terminate=CB('lambda: nondet_bool()')),
         name='C15/_rdwr_connect', raises=ANYERR, use=['C15/nfc.tag.activate'],
         loops={('nfc.clf.ContactlessFrontend._rdwr_connect', 'While', 0): LoopSpec(invariant=['True'])},
         **H2)
contract('nfc.clf.device:connect', 'C15', dict(path=Any()), name='C15/device.connect', assumed=True,
         note='driver discovery returns a Device or None', raises={'IOError': []},
         returns=Opt(Obj('models.clf_models:DeviceModel', _partial=False, lock=Ref('self.lock'), closed=False)))
contract(C + 'ContactlessFrontend.open', 'C15', dict(self=clf(), path=Const('usb')),
         name='C15/open', raises=ANYERR, use=['C15/device.connect'], **H2)
contract(C + 'ContactlessFrontend.__exit__', 'C15',
         dict(self=clf(), exc_type=None, exc_value=None, traceback=None),
         name='C15/__exit__', ensures=[('post.closed', 'self.device is None')], raises={}, **H2)

EMU = Obj('models.clf_models:TagEmuModel', _partial=False, clf=Ref('self'), cmd=Const(b'\x00'))
contract('nfc.tag:emulate', 'C15', dict(clf=Any(), target=Any()), name='C15/nfc.tag.emulate', assumed=True,
         note='tag emulation returns a TagEmulation object or None (subject of C07)',
         raises={}, returns=Opt(EMU))
CARD = DictOf({'target': LT(), 'timeout': 1,
               'on-discover': CB('lambda target: nondet_bool()'),
               'on-connect': CB('lambda tag: nondet_bool()'),
               'on-release': CB('lambda tag: nondet_bool()')})
contract(C + 'ContactlessFrontend._card_connect', 'C15',
         dict(self=clf(), options=CARD, terminate=CB('lambda: nondet_bool()')),
         name='C15/_card_connect', raises=ANYERR, use=['C15/nfc.tag.emulate'],
         loops={('nfc.clf.ContactlessFrontend._card_connect', 'While', 0): LoopSpec(
             invariant=['True'], havoc={'tag_rsp': Opt(Bytes(0, 64, mutable=True)),
                                 # whichever of the two the loop carries over (command or response)
                                 'tag_cmd': Opt(Bytes(0, 64, mutable=True))})},
         **H2)
LLCP = DictOf({'llc': Obj('models.clf_models:LlcModel', _partial=False, clf=Ref('self')),
               'role': OneOf(None, 'target', 'initiator'),
               'on-connect': CB('lambda llc: nondet_bool()'),
               'on-release': CB('lambda llc: nondet_bool()')})
contract(C + 'ContactlessFrontend._llcp_connect', 'C15',
         dict(self=clf(), options=LLCP, terminate=CB('lambda: nondet_bool()')),
         name='C15/_llcp_connect', raises=ANYERR,
         loops={('models.clf_models.LlcModel.run', 'While', 0): LoopSpec(invariant=['True'])},
         **H2)
contract(C + 'ContactlessFrontend.sense', 'C15', dict(self=clf(), targets=Fixed([RT(), RT()]),
                                                       options=DictOf({'iterations': Int(1, 2), 'interval': 0})),
         name='C15/sense[2]', raises=ANYERR, **H)
# the whole of connect(), once with reader/writer and once with card-emulation options
RT1 = lambda: Obj(C + 'RemoteTarget', _partial=False, _brty_send='106A', _brty_recv='106A')   # noqa
LT1 = lambda: Obj(C + 'LocalTarget', _partial=False, _brty_send='106A', _brty_recv='106A')    # noqa
CONNECT_LOOPS = {
    ('nfc.clf.ContactlessFrontend._rdwr_connect', 'While', 0): LoopSpec(invariant=['True']),
    ('nfc.clf.ContactlessFrontend._card_connect', 'While', 0): LoopSpec(
        invariant=['True'], havoc={'tag_rsp': Opt(Bytes(0, 64, mutable=True)),
                                 # whichever of the two the loop carries over (command or response)
                                 'tag_cmd': Opt(Bytes(0, 64, mutable=True))}),
    ('nfc.clf.ContactlessFrontend.connect', 'While', 0): LoopSpec(
        invariant=['True'], havoc={'self.device': Opt(DEV()), 'self.target': OneOf(None, RT1(), LT1())})}
for nm, opts in (('rdwr', {'rdwr': DictOf({'targets': Const(['106A']), 'iterations': 1, 'interval': 0,
                                           'on-connect': CB('lambda tag: nondet_bool()'),
                                           'beep-on-connect': Bool()})}),
                 ('card', {'card': DictOf({'on-startup': CB('lambda target: target'),
                                           'on-connect': CB('lambda tag: nondet_bool()')})})):
    o = {'terminate': CB('lambda: nondet_bool()')}
    o.update(opts)
    contract(C + 'ContactlessFrontend.connect', 'C15', dict(self=clf(), options=DictOf(o)),
             name='C15/connect[%s]' % nm, raises={'TypeError': [], 'IOError': ['old(self.device) is None']},
             use=['C15/nfc.tag.activate', 'C15/nfc.tag.emulate'], loops=CONNECT_LOOPS, **H2)
# sentinel: a driver call outside the lock must be reported
contract('drivers.c15:unlocked_mute', 'C15', dict(clf=Obj(C + 'ContactlessFrontend', lock=Lock(reentrant=False),
                                                           device=Obj('models.clf_models:DeviceModel', _partial=False,
                                                                      lock=Ref('clf.lock'), closed=False), target=None)),
         name='C15/sentinel.unlocked-call', expect_fail=True, raises={})


# The lock argument above ("one lock is held at every driver call, so driver calls of different threads do not
# overlap") also needs the driver side: a driver method runs in its caller's thread and starts none of its own -
# a thread (or timer) started by the driver would talk to the device without the frontend's lock, or after close().
# Obligation `starts-no-thread` on the driver methods the frontend calls for LED/buzzer, mute and close (chipset
# calls abstracted: any method of the chipset object returns or raises IOError), and - same obligation - on the
# data exchange paths of the pn53x and rcs380 drivers that C13 has under contract.
for _mod, _cls, _meths in (('nfc.clf.acr122', 'Device', ('turn_on_led_and_buzzer', 'turn_off_led_and_buzzer')),
                           ('nfc.clf.device', 'Device', ('turn_on_led_and_buzzer', 'turn_off_led_and_buzzer')),
                           ('nfc.clf.pn53x', 'Device', ('mute', 'close')),
                           ('nfc.clf.rcs380', 'Device', ('mute', 'close')),
                           ('nfc.clf.rcs956', 'Device', ('mute', 'close')),
                           ('nfc.clf.acr122', 'Device', ('mute', 'close'))):
    for _m in _meths:
        contract('%s:%s.%s' % (_mod, _cls, _m), 'C15',
                 dict(self=Obj('%s:%s' % (_mod, _cls),
                               chipset=Obj('models.clf_models:AnyChipset', _partial=False))),
                 name='C15/driver.%s.%s' % (_mod.split('.')[-1], _m), hooks={'no_threads': True},
                 ensures=[('post.none', 'result is None')], raises={'IOError': []})
import copy as _copy
from . import c13_drivers as _c13   # noqa
from pyvc.contracts import REGISTRY as _REG
for _c in list(_REG):
    if _c.prop == 'C13' and not _c.assumed and not _c.expect_fail and (
            _c.name.startswith('C13/pn532.send_') or _c.name.startswith('C13/rcs380.send_')):
        _c2 = _copy.copy(_c)
        _c2.prop = 'C15'
        _c2.name = 'C15/driver.' + _c.name.split('/', 1)[1]
        _c2.hooks = dict(_c.hooks, no_threads=True)
        _REG.append(_c2)
