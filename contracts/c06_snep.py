"""C06 - SNEP and handover carry NDEF messages intact through fragmentation
(fragmentation layer over an assumed FIFO socket)."""
from .common import *   # noqa

SC = 'nfc.snep.client:'
SOCK = lambda **kw: Obj('models.snep_models:Socket', _partial=False, stream=Const(b''), nsent=0, maxlen=0,   # noqa
                        pos=0, first_reply=None, **kw)
# client: the fragments handed to the socket are the request, in order, none longer than send_miu, the
# second and later ones only after the server's Continue response was read
contract(SC + 'send_request', 'C06',
         dict(socket=SOCK(inp=OneOf(Const(b"\x10\x80\x00\x00\x00\x00"), Bytes(0, 12))),
              snep_request=Bytes(6, None), send_miu=Int(1, 2175)),
         name='C06/send_request',
         ensures=[('O-frag.all', 'implies(result, socket.stream == snep_request)'),
                  ('O-frag.miu', 'socket.maxlen <= send_miu'),
                  ('O-frag.continue', 'implies(socket.nsent > 1, socket.pos == 6 and '
                                      'socket.inp[0:6] == b"\\x10\\x80\\x00\\x00\\x00\\x00")'),
                  ('O-frag.prefix', 'socket.stream == snep_request[0:len(socket.stream)]')],
         raises={},
         loops={('nfc.snep.client.send_request', 'For', 0): LoopSpec(
             invariant=['socket.stream == snep_request[0:send_miu * (1 + _k)]', 'socket.maxlen <= send_miu',
                        'socket.nsent == 1 + _k', 'len(snep_request) > send_miu'],
             havoc={'socket.stream': 'bytes(snep_request[0:send_miu * (1 + _k)])', 'socket.maxlen': Int(0, None),
                    'socket.nsent': Int(0, None)})})

# client: the response is reassembled from as many fragments as it takes, or refused
contract(SC + 'recv_response', 'C06',
         dict(socket=SOCK(inp=Bytes(0, None)), acceptable_length=Int(0, None), timeout=Const(1.0)),
         name='C06/recv_response',
         ensures=[('O-reasm.prefix', 'result is None or result == socket.inp[0:len(result)]'),
                  ('O-reasm.complete', 'result is None or (len(result) >= 6 and '
                                       'len(result) - 6 >= be32(socket.inp[2:6]))'),
                  ('O-reasm.limit', 'result is None or be32(socket.inp[2:6]) <= acceptable_length'),
                  ('O-reasm.continue', 'implies(socket.nsent > 0, socket.stream == b"\\x10\\x00\\x00\\x00\\x00\\x00")')],
         raises={'TypeError': ['socket.pos >= len(socket.inp)']},
         loops={('nfc.snep.client.recv_response', 'While', 0): LoopSpec(
             invariant=['snep_response == socket.inp[0:socket.pos]', 'socket.pos <= len(socket.inp)',
                        'length == be32(socket.inp[2:6])', 'socket.pos >= 6'],
             decreases='len(socket.inp) - socket.pos',
             havoc={'socket.pos': Int(0, None), 'snep_response': 'bytearray(socket.inp[0:socket.pos])'})})

# server: process_snep_request is only ever called with a complete message within the acceptable length
SS = 'nfc.snep.server:'
contract(SS + 'SnepServer.process_snep_request', 'C06', dict(self=Any(), request_data=Any()),
         name='C06/process_snep_request.complete', assumed=True,
         note='interface precondition for the application upcall: the request is complete and acceptable',
         requires=['len(request_data) >= 6', 'len(request_data) - 6 >= be32(request_data[2:6])',
                   'be32(request_data[2:6]) <= self.max_acceptable_length'],
         raises={}, returns=Bytes(6, None))
contract(SS + 'SnepServer._serve', 'C06',
         dict(self=Obj(SS + 'SnepServer', max_acceptable_length=Int(0, None)),
              client_socket=SOCK(inp=Bytes(0, None))),
         name='C06/SnepServer._serve', use=['C06/process_snep_request.complete'],
         raises={},
         loops={('nfc.snep.server.SnepServer._serve', 'While', 0): LoopSpec(
                    invariant=['client_socket.pos <= len(client_socket.inp)'],
                    havoc={'client_socket.pos': Int(0, None), 'client_socket.stream': Bytes(),
                           'client_socket.nsent': Int(0, None), 'client_socket.maxlen': Int(0, None)}),
                ('nfc.snep.server.SnepServer._serve', 'While', 1): LoopSpec(
                    invariant=['client_socket.pos <= len(client_socket.inp)', 'len(data) >= 6',
                               'length == be32(data[2:6])', 'length <= self.max_acceptable_length'],
                    decreases='len(client_socket.inp) - client_socket.pos',
                    havoc={'client_socket.pos': Int(0, None), 'data': Bytes(6, None, mutable=True)}),
                ('nfc.snep.server.SnepServer._serve', 'For', 0): LoopSpec(
                    invariant=['True'], havoc={'client_socket.stream': Bytes(), 'client_socket.nsent': Int(0, None),
                                                'client_socket.maxlen': Int(0, None)})})
# the octets handed to the application are exactly the information field of the request
contract(SS + 'SnepServer.process_put_request', 'C06', dict(self=Any(), ndef_message=Any()),
         name='C06/process_put_request', assumed=True, note='application upcall', raises={}, returns=Int(0, 255))
contract('ndef:message_decoder', 'C06', dict(octets=Any()), name='C06/ndef.message_decoder', assumed=True,
         note='ndeflib: decodes the octets or raises ndef.DecodeError', raises={}, returns=Fixed([]))

# ---------------------------------------------------------------- handover server
# serve(): the request handed to the application is everything received since the previous request, and it is
# handed over only once the completeness probe has accepted exactly those octets.  ndeflib is outside the
# verified code; its assumed contract: message_decoder(octets, 'strict', ...) raises ndef.DecodeError unless the
# octets are one complete NDEF message (MB..ME); with 'relax' any prefix that ends on a record boundary decodes
# without error - therefore the probe must decode strictly (interface precondition at the call site).
HS = 'nfc.handover.server:'
contract('ndef:message_decoder', 'C06', dict(octets=Any(), errors=Any(), known_types=Any()),
         name='C06/ndef.completeness-probe', assumed=True,
         note='ndeflib: strict decoding fails unless the octets are one complete message',
         requires=[('strict', 'errors == "strict"')],
         raises={'ndef:DecodeError': [], 'ValueError': []}, returns=Fixed([]))
contract(HS + 'HandoverServer._process_request_data', 'C06', dict(self=Any(), octets=Any()),
         name='C06/handover.process_request_data', assumed=True,
         note='application upcall (decodes relaxed, answers with a select message); ghost: the octets up to the '
              'current read position are consumed',
         requires=[('probed', 'was_called("C06/ndef.completeness-probe") and '
                              'call_arg("C06/ndef.completeness-probe", "octets") is octets'),
                   ('whole-once', 'bytes(octets) == self._g_sock.inp[self._g_sock.mark:self._g_sock.pos]')],
         modifies={'self._g_sock.mark': Int(0, None)}, ensures=['self._g_sock.mark == self._g_sock.pos'],
         raises={}, returns=Bytes(0, None))
HQ = 'nfc.handover.server.HandoverServer.serve'
PSOCK = lambda: Obj('models.snep_models:PolledSocket', _partial=False, stream=Const(b''), nsent=0, maxlen=0,   # noqa
                    pos=0, first_reply=None, inp=Bytes(0, None), mark=0)
contract(HS + 'HandoverServer.serve', 'C06',
         dict(self=Obj(HS + 'HandoverServer', _g_sock=Ref('socket')), socket=PSOCK()),
         name='C06/HandoverServer.serve',
         use=['C06/ndef.completeness-probe', 'C06/handover.process_request_data'],
         raises={},
         loops={(HQ, 'While', 0): LoopSpec(
                    invariant=['socket.mark == socket.pos or socket.pos >= len(socket.inp)',
                               'socket.pos <= len(socket.inp) and socket.mark <= socket.pos'],
                    decreases='len(socket.inp) - socket.pos',
                    havoc={'socket.pos': Int(0, None), 'socket.mark': Int(0, None), 'socket.stream': Bytes(),
                           'socket.nsent': Int(0, None), 'socket.maxlen': Int(0, None)}),
                (HQ, 'While', 1): LoopSpec(
                    invariant=['bytes(request) == socket.inp[socket.mark:socket.pos]',
                               'socket.pos <= len(socket.inp) and socket.mark <= socket.pos'],
                    decreases='len(socket.inp) - socket.pos',
                    havoc={'socket.pos': Int(0, None), 'request': 'bytearray(socket.inp[socket.mark:socket.pos])',
                           'socket.stream': Bytes(), 'socket.nsent': Int(0, None), 'socket.maxlen': Int(0, None)}),
                (HQ, 'For', 0): LoopSpec(
                    invariant=['True'], havoc={'socket.stream': Bytes(), 'socket.nsent': Int(0, None),
                                                'socket.maxlen': Int(0, None)})})

# ---------------------------------------------------------------- handover client
HC = 'nfc.handover.client:'
HCS = 'nfc.handover.client.HandoverClient.send_octets'
contract(HC + 'HandoverClient.send_octets', 'C06',
         dict(self=Obj(HC + 'HandoverClient',
                       socket=Obj('models.snep_models:MiuSocket', _partial=False, stream=Const(b''), nsent=0, maxlen=0,
                                  pos=0, first_reply=None, inp=Const(b''), miu=Int(1, 2175))),
              octets=Bytes(0, None)),
         name='C06/HandoverClient.send_octets',
         ensures=[('O-frag.all', 'implies(result, self.socket.stream == old(octets))'),
                  ('O-frag.prefix', 'self.socket.stream == old(octets)[0:len(self.socket.stream)]'),
                  ('O-frag.miu', 'self.socket.maxlen <= self.socket.miu')],
         raises={},
         loops={(HCS, 'While', 0): LoopSpec(
             invariant=['len(self.socket.stream) <= len(old(octets))',
                        'self.socket.stream == old(octets)[0:len(self.socket.stream)]',
                        'octets == old(octets)[len(self.socket.stream):]', 'self.socket.maxlen <= miu'],
             decreases='len(octets)',
             havoc={'_n': Int(0, None), 'self.socket.stream': 'bytes(old(octets)[0:_n])',
                    'octets': 'old(octets)[_n:]', 'self.socket.nsent': Int(0, None),
                    'self.socket.maxlen': Int(0, None)})})
HCR = 'nfc.handover.client.HandoverClient.recv_octets'
contract(HC + 'HandoverClient.recv_octets', 'C06',
         dict(self=Obj(HC + 'HandoverClient', socket=PSOCK()), timeout=OneOf(None, Const(1.0))),
         name='C06/HandoverClient.recv_octets', use=['C06/ndef.completeness-probe'],
         ensures=[('O-reasm.whole', 'result is None or len(result) == 0 or '
                                    'bytes(result) == self.socket.inp[0:self.socket.pos]'),
                  ('O-reasm.probed', 'result is None or len(result) == 0 or '
                                     'was_called("C06/ndef.completeness-probe")')],
         raises={},
         loops={(HCR, 'While', 0): LoopSpec(
             invariant=['bytes(octets) == self.socket.inp[0:self.socket.pos]',
                        'self.socket.pos <= len(self.socket.inp)'],
             decreases='len(self.socket.inp) - self.socket.pos',
             havoc={'self.socket.pos': Int(0, None), 'octets': 'bytearray(self.socket.inp[0:self.socket.pos])',
                    'timeout': OneOf(None, Int(-100, 100)), 'started': Int(0, None)})})

# Fragments are sized by the connection's send MIU (the MiuSocket/PolledSocket models above assume the link then
# carries every fragment it accepted).  What makes that true is the link layer collecting outbound PDUs against the
# *send* MIU - the peer's receive limit - and every dequeue on the way down handing over an accepted I PDU that
# fits; these C10 contracts are therefore obligations of C06 as well.
from . import c10_miu as _c10   # noqa
import copy as _copy
from pyvc.contracts import REGISTRY as _REG
for _c in list(_REG):
    if _c.prop == 'C10' and not _c.expect_fail and (
            _c.name in ('C10/collect', 'C10/DataLinkConnection.send', 'C10/llc.connect')
            or _c.name.startswith('C10/ServiceAccessPoint.dequeue')):
        _c2 = _copy.copy(_c)
        _c2.prop = 'C06'
        _c2.name = 'C06/link.' + _c.name.split('/', 1)[1]
        _REG.append(_c2)
