"""C06 - SNEP and handover carry NDEF messages intact through fragmentation
(fragmentation layer over an assumed FIFO socket)."""
from .common import *   # noqa

SC = 'nfc.snep.client:'
SOCK = lambda **kw: Obj('models.snep_models:Socket', _partial=False, stream=Const(b''), nsent=0, maxlen=0,   # noqa
                        pos=0, first_reply=None, **kw)
# client: the fragments handed to the socket are the request, in order, none longer than send_miu, the
# second and later ones only after the server's Continue response was read
contract(SC + 'send_request', 'C06',
         dict(socket=SOCK(inp=OneOf(Const(b"\x10\x80\x00\x00\x00\x00"), Bytes(0, 12))),
              snep_request=Bytes(6, None), send_miu=Int(1, 2175)),
         name='C06/send_request',
         ensures=[('O-frag.all', 'implies(result, socket.stream == snep_request)'),
                  ('O-frag.miu', 'socket.maxlen <= send_miu'),
                  ('O-frag.continue', 'implies(socket.nsent > 1, socket.pos == 6 and '
                                      'socket.inp[0:6] == b"\\x10\\x80\\x00\\x00\\x00\\x00")'),
                  ('O-frag.prefix', 'socket.stream == snep_request[0:len(socket.stream)]')],
         raises={},
         loops={('nfc.snep.client.send_request', 'For', 0): LoopSpec(
             invariant=['socket.stream == snep_request[0:send_miu * (1 + _k)]', 'socket.maxlen <= send_miu',
                        'socket.nsent == 1 + _k', 'len(snep_request) > send_miu'],
             havoc={'socket.stream': 'bytes(snep_request[0:send_miu * (1 + _k)])', 'socket.maxlen': Int(0, None),
                    'socket.nsent': Int(0, None)})})

# client: the response is reassembled from as many fragments as it takes, or refused
contract(SC + 'recv_response', 'C06',
         dict(socket=SOCK(inp=Bytes(0, None)), acceptable_length=Int(0, None), timeout=Const(1.0)),
         name='C06/recv_response',
         ensures=[('O-reasm.prefix', 'result is None or result == socket.inp[0:len(result)]'),
                  ('O-reasm.complete', 'result is None or (len(result) >= 6 and '
                                       'len(result) - 6 >= be32(socket.inp[2:6]))'),
                  ('O-reasm.limit', 'result is None or be32(socket.inp[2:6]) <= acceptable_length'),
                  ('O-reasm.continue', 'implies(socket.nsent > 0, socket.stream == b"\\x10\\x00\\x00\\x00\\x00\\x00")')],
         raises={'TypeError': ['socket.pos >= len(socket.inp)']},
         loops={('nfc.snep.client.recv_response', 'While', 0): LoopSpec(
             invariant=['snep_response == socket.inp[0:socket.pos]', 'socket.pos <= len(socket.inp)',
                        'length == be32(socket.inp[2:6])', 'socket.pos >= 6'],
             decreases='len(socket.inp) - socket.pos',
             havoc={'socket.pos': Int(0, None), 'snep_response': 'bytearray(socket.inp[0:socket.pos])'})})

# server: process_snep_request is only ever called with a complete message within the acceptable length
SS = 'nfc.snep.server:'
contract(SS + 'SnepServer.process_snep_request', 'C06', dict(self=Any(), request_data=Any()),
         name='C06/process_snep_request.complete', assumed=True,
         note='interface precondition for the application upcall: the request is complete and acceptable',
         requires=['len(request_data) >= 6', 'len(request_data) - 6 >= be32(request_data[2:6])',
                   'be32(request_data[2:6]) <= self.max_acceptable_length'],
         raises={}, returns=Bytes(6, None))
contract(SS + 'SnepServer._serve', 'C06',
         dict(self=Obj(SS + 'SnepServer', max_acceptable_length=Int(0, None)),
              client_socket=SOCK(inp=Bytes(0, None))),
         name='C06/SnepServer._serve', use=['C06/process_snep_request.complete'],
         raises={},
         loops={('nfc.snep.server.SnepServer._serve', 'While', 0): LoopSpec(
                    invariant=['client_socket.pos <= len(client_socket.inp)'],
                    havoc={'client_socket.pos': Int(0, None), 'client_socket.stream': Bytes(),
                           'client_socket.nsent': Int(0, None), 'client_socket.maxlen': Int(0, None)}),
                ('nfc.snep.server.SnepServer._serve', 'While', 1): LoopSpec(
                    invariant=['client_socket.pos <= len(client_socket.inp)', 'len(data) >= 6',
                               'length == be32(data[2:6])', 'length <= self.max_acceptable_length'],
                    decreases='len(client_socket.inp) - client_socket.pos',
                    havoc={'client_socket.pos': Int(0, None), 'data': Bytes(6, None, mutable=True)}),
                ('nfc.snep.server.SnepServer._serve', 'For', 0): LoopSpec(
                    invariant=['True'], havoc={'client_socket.stream': Bytes(), 'client_socket.nsent': Int(0, None),
                                                'client_socket.maxlen': Int(0, None)})})
# the octets handed to the application are exactly the information field of the request
contract(SS + 'SnepServer.process_put_request', 'C06', dict(self=Any(), ndef_message=Any()),
         name='C06/process_put_request', assumed=True, note='application upcall', raises={}, returns=Int(0, 255))
contract('ndef:message_decoder', 'C06', dict(octets=Any()), name='C06/ndef.message_decoder', assumed=True,
         note='ndeflib: decodes the octets or raises ndef.DecodeError', raises={}, returns=Fixed([]))
