"""C08 - activating and reading arbitrary tags terminates safely."""
from .common import *   # noqa

T3 = 'nfc.tag.tt3:'
NDEF3 = lambda: Obj(T3 + 'Type3Tag.NDEF', _partial=False, _data=None, _capacity=0, _readable=False,   # noqa
                    _writeable=False,
                    _tag=Obj('models.tag_models:T3TagAdversary', _partial=False, sys=OneOf(0x12FC, 0xFFFF),
                             idm=None, pmm=None, commands=0, unverified=False))
contract(T3 + 'Type3Tag.NDEF._read_attribute_data', 'C08', dict(self=NDEF3()), name='C08/tt3._read_attribute_data',
         ensures=[('post.shape', 'result is None or (self._capacity == result["nmaxb"] * 16 and '
                                 '0 <= result["nbr"] and result["nbr"] <= 255 and 0 <= result["ln"])')],
         raises={})
contract(T3 + 'Type3Tag.NDEF._read_ndef_data', 'C08', dict(self=NDEF3()), name='C08/tt3._read_ndef_data',
         ensures=[('post.within-capacity', 'result is None or len(result) <= self._capacity'),
                  ('post.commands', 'self._tag.commands <= 2 + 65536'),
                  # C20: if a MAC protected read did not verify, no NDEF data comes out
                  ('post.verified-only', 'implies(self._tag.unverified, result is None)')],
         raises={},
         loops={('nfc.tag.tt3.Type3Tag.NDEF._read_ndef_data', 'For', 0): LoopSpec(
             invariant=['len(data) <= 16 * (_k * nbr)', 'self._tag.commands <= 2 + _k',
                        # reading goes on only while every chunk so far verified
                        'not self._tag.unverified'],
             havoc={'data': Bytes(0, None, mutable=True), 'self._tag.commands': Int(0, None),
                    'self._tag.unverified': Bool()})})

T4 = 'nfc.tag.tt4:'
NDEF4 = lambda _capacity=0, **kw: Obj(T4 + 'Type4Tag.NDEF', _partial=False, _data=None, _capacity=_capacity,   # noqa
                         _readable=False,
                         _writeable=False,
                         _tag=Obj(T4 + 'Type4Tag', _partial=False, _extended_length_support=False,
                                  _dep=Obj('models.tag_models:T4CardAdversary', _partial=False, commands=0)), **kw)
# the adversary sits behind ISO-DEP (IsoDepInitiator.exchange is under contract in C12): send_apdu and
# transceive are the real code.  Object invariant of a discovered NDEF: short-APDU limits (MLe <= 256, MLc <= 255)
contract(T4 + 'Type4Tag.NDEF._discover_ndef', 'C08', dict(self=NDEF4()), name='C08/tt4._discover_ndef',
         ensures=[('post.bool', 'result == True or result == False'),
                  ('post.sane', 'implies(result == True, self._nlen_size == 2 or self._nlen_size == 4)'),
                  ('post.short-apdu', 'implies(result == True, self._max_le <= 256 and self._max_lc <= 255)'),
                  ('post.addressable', 'implies(result == True, self._nlen_size + self._capacity <= 65536)'),
                  ('post.commands', 'self._tag._dep.commands <= 5')],
         raises={T4 + 'Type4TagCommandError': ['self._tag._dep.commands <= 5']})
contract(T4 + 'Type4Tag.NDEF._read_ndef_data', 'C08',
         dict(self=NDEF4(_capacity=Int(0, None), _ndef_file=Bytes(2, 2), _nlen_size=OneOf(2, 4), _max_le=Int(0, 256),
                         _max_lc=Int(0, 255), _aid=Bytes(7, 7))),
         name='C08/tt4._read_ndef_data', requires=['self._capacity >= 0'],
         ensures=[('post.within-capacity', 'result is None or len(result) <= self._capacity')],
         raises={},
         loops={('nfc.tag.tt4.Type4Tag.NDEF._read_ndef_data', 'While', 0): LoopSpec(
             invariant=['len(data) <= nlen', 'nlen <= self._capacity'], decreases='nlen - len(data)',
             havoc={'data': Bytes(0, None, mutable=True), 'self._tag._dep.commands': Int(0, None)})})

# ---------------------------------------------------------------- Type 2: TLV walk over arbitrary memory
# The tag answers every READ with arbitrary octets (or fails); the memory image, the control TLVs and the skip set
# they create are therefore arbitrary.  Sets of byte addresses are interval sets (2.2 of DESIGN): membership is a
# term, len() is abstracted to its bounds (same set expression, same size).
T2 = 'nfc.tag.tt2:'
T2R = 'nfc.tag.tt2.Type2Tag.NDEF._read_ndef_data'
MEMINV = ['len(%s._data_in_cache) == len(%s._data_from_tag)', 'len(%s._data_from_tag) % 16 == 0']
contract(T2 + 'Type2Tag.NDEF._read_ndef_data', 'C08',
         dict(self=Obj(T2 + 'Type2Tag.NDEF', _partial=False, _data=None, _capacity=0, _readable=False,
                       _writeable=False,
                       _tag=Obj('models.tag_models:T2TagAdversary', _partial=False, commands=0))),
         name='C08/tt2._read_ndef_data',
         ensures=[('post.within-capacity', 'result is None or len(result) <= self._capacity')],
         raises={},
         loops={
             (T2R, 'While', 0): LoopSpec(
                 invariant=['offset >= 16', 'ndef is None', 'data_area_size == raw_capacity',
                            'raw_capacity >= 0 and raw_capacity <= 2040', 'set_within(skip_bytes, 0, 0x80000)',
                            'offset <= 0x90004'] + [x.replace('%s', 'tag_memory') for x in MEMINV],
                 decreases='data_area_size + 16 - offset',
                 havoc={'offset': Int(16, None), 'ndef': Const(None), 'skip_bytes': IntSet(0, 0x80000),
                        'tag_memory._data_from_tag': Bytes(16, None, mutable=True),
                        'tag_memory._data_in_cache': Bytes(16, None, mutable=True),
                        'self._tag.commands': Int(0, None)}),
             (T2R, 'While', 1): LoopSpec(
                 entry={'_o0': 'offset'},
                 invariant=['offset >= _o0', 'offset <= max(_o0, 0x80000)'], decreases='0x80000 - offset',
                 havoc={'offset': Int(16, None)}),
             ('nfc.tag.tt2.read_tlv', 'For', 0): LoopSpec(
                 entry={'_o1': 'offset'},
                 invariant=['offset >= _o1', 'offset <= max(_o1, 0x80000)', 'len(tlv_v) == tlv_l'] + [x.replace('%s', 'memory') for x in MEMINV],
                 havoc={'offset': Int(0, None), 'tlv_v': Bytes(0, None, mutable=True),
                        'memory._data_from_tag': Bytes(16, None, mutable=True),
                        'memory._data_in_cache': Bytes(16, None, mutable=True),
                        'memory._tag.commands': Int(0, None)}),
             ('nfc.tag.tt2.read_tlv', 'While', 0): LoopSpec(
                 entry={'_o2': 'offset'},
                 invariant=['offset >= _o2', 'offset <= max(_o2, 0x80000)'],
                 decreases='0x80000 - (offset + i)', havoc={'offset': Int(0, None)}),
             ('nfc.tag.tt2.Type2TagMemoryReader._read_from_tag', 'While', 0): LoopSpec(
                 invariant=['index % 16 == 0', 'len(self._data_from_tag) == index',
                            'len(self._data_in_cache) == index'],
                 decreases='stop - index',
                 havoc={'index': Int(0, None), 'self._data_from_tag': Bytes(0, None, mutable=True),
                        'self._data_in_cache': Bytes(0, None, mutable=True), 'self._tag.commands': Int(0, None)})})

# ---------------------------------------------------------------- Type 1: the same walk over segment reads
T1 = 'nfc.tag.tt1:'
T1R = 'nfc.tag.tt1.Type1Tag.NDEF._read_ndef_data'
M1 = 'len(%s._data_in_cache) == len(%s._data_from_tag)'
# memory[key] of the Type 1 memory reader as a summary (proved here, used by the TLV walk): reads what is
# missing from the tag, keeps the two images the same length, returns one octet or the addressed slice, raises
# only the tag's command error (also for addresses beyond segment 15)
T1E = T1 + 'Type1TagCommandError'
RDR1 = lambda: Obj(T1 + 'Type1TagMemoryReader', _partial=False, _data_from_tag=Bytes(0, None, mutable=True),   # noqa
                   _data_in_cache=Bytes(0, None, mutable=True), _header_rom=Bytes(0, 2, mutable=True),
                   _tag=Obj('models.tag_models:T1TagAdversary', _partial=False, commands=0))
contract(T1 + 'Type1TagMemoryReader.__getitem__', 'C08',
         dict(self=RDR1(), key=OneOf(Int(0, None), SliceOf(Int(0, None), Int(0, None)))),
         name='C08/tt1.memory.getitem',
         requires=[M1 % ('self', 'self'), 'not isinstance(key, slice) or (key.start <= key.stop and key.stop <= 0x100000)'],
         modifies={'self._data_from_tag': Bytes(0, None, mutable=True),
                   'self._data_in_cache': Bytes(0, None, mutable=True),
                   'self._header_rom': Bytes(0, 2, mutable=True), 'self._tag.commands': Int(0, None)},
         ensures=[('post.lengths', M1 % ('self', 'self')),
                  ('post.result', '(isinstance(key, slice) and len(result) == key.stop - key.start) or '
                                  '(not isinstance(key, slice) and result >= 0 and result <= 255)')],
         raises={T1E: [M1 % ('self', 'self')]},
         returns='nondet_bytearray(key.stop - key.start, key.stop - key.start) if isinstance(key, slice) '
                 'else nondet_int(0, 255)',
         loops={('nfc.tag.tt1.Type1TagMemoryReader._read_from_tag', 'While', 0): LoopSpec(
                 invariant=[M1 % ('self', 'self'), 'stop <= 2048'],
                 decreases='stop - len(self._data_from_tag)',
                 havoc={'self._data_from_tag': Bytes(0, None, mutable=True),
                        'self._data_in_cache': Bytes(0, None, mutable=True), 'self._tag.commands': Int(0, None)})})
contract(T1 + 'Type1Tag.NDEF._read_ndef_data', 'C08',
         dict(self=Obj(T1 + 'Type1Tag.NDEF', _partial=False, _data=None, _capacity=0, _readable=False,
                       _writeable=False, _ndef_tlv_offset=0,
                       _tag=Obj('models.tag_models:T1TagAdversary', _partial=False, commands=0))),
         name='C08/tt1._read_ndef_data', use=['C08/tt1.memory.getitem'],
         ensures=[('post.within-capacity', 'result is None or len(result) <= self._capacity')],
         raises={},
         loops={
             (T1R, 'While', 0): LoopSpec(
                 invariant=['offset >= 12', 'ndef is None', 'tag_memory_size >= 8 and tag_memory_size <= 2048',
                            'set_within(skip_bytes, 0, 0x800)', 'offset <= 0x800 + 0x10004',
                            M1 % ('tag_memory', 'tag_memory')],
                 decreases='tag_memory_size - offset',
                 havoc={'offset': Int(12, None), 'ndef': Const(None), 'skip_bytes': IntSet(0, 0x800),
                        'tag_memory._data_from_tag': Bytes(0, None, mutable=True),
                        'tag_memory._data_in_cache': Bytes(0, None, mutable=True),
                        'tag_memory._header_rom': Bytes(2, 2, mutable=True),
                        'self._tag.commands': Int(0, None)}),
             ('nfc.tag.tt1.read_tlv', 'For', 0): LoopSpec(
                 entry={'_o1': 'offset'},
                 invariant=['offset >= _o1', 'offset <= max(_o1, 0x800)', 'len(tlv_v) == tlv_l',
                            M1 % ('memory', 'memory')],
                 havoc={'offset': Int(0, None), 'tlv_v': Bytes(0, None, mutable=True),
                        'memory._data_from_tag': Bytes(0, None, mutable=True),
                        'memory._data_in_cache': Bytes(0, None, mutable=True),
                        'memory._header_rom': Bytes(2, 2, mutable=True),
                        'memory._tag.commands': Int(0, None)}),
             ('nfc.tag.tt1.read_tlv', 'While', 0): LoopSpec(
                 entry={'_o2': 'offset'},
                 invariant=['offset >= _o2', 'offset <= max(_o2, 0x800)'],
                 decreases='0x800 - (offset + i)', havoc={'offset': Int(0, None)}),
             ('nfc.tag.tt1.Type1TagMemoryReader._read_from_tag', 'While', 0): LoopSpec(
                 invariant=[M1 % ('self', 'self'), 'stop <= 2048'],
                 decreases='stop - len(self._data_from_tag)',
                 havoc={'self._data_from_tag': Bytes(0, None, mutable=True),
                        'self._data_in_cache': Bytes(0, None, mutable=True), 'self._tag.commands': Int(0, None)})})

# the wrappers the application actually calls: tag.ndef and ndef.has_changed put nothing between the type specific
# reader and the application - given a reader that returns None or the message and raises nothing (the contracts
# above, one per tag type) they return None resp. a bool, and the NDEF object only survives with data
for _cls, _rd in (('nfc.tag.tt3:Type3Tag', 'nfc.tag.tt3:Type3Tag.NDEF._read_ndef_data'),):
    contract(_rd, 'C08', dict(self=Any()), name='C08/reader.summary', assumed=True,
             note='proved per tag type above: None or the message, nothing raised', raises={},
             returns=Opt(Bytes(0, None, mutable=True)))
    contract('nfc.tag:Tag.NDEF.has_changed', 'C08',
             dict(self=Obj('nfc.tag.tt3:Type3Tag.NDEF', _partial=False, _data=Opt(Bytes(0, None, mutable=True)),
                           _capacity=Int(0, None), _readable=Bool(), _writeable=Bool(),
                           _tag=Obj('nfc.tag.tt3:Type3Tag', _ndef=Ref('self')))),
             name='C08/ndef.has_changed', call='getter', use=['C08/reader.summary'],
             ensures=[('post.bool', 'result == True or result == False'),
                      ('post.dropped', 'implies(self._data is None, self._tag._ndef is None)')],
             raises={})
    contract('nfc.tag:Tag.ndef', 'C08',
             dict(self=Obj('nfc.tag.tt3:Type3Tag', _ndef=None)),
             name='C08/tag.ndef', call='getter', use=['C08/reader.summary'],
             ensures=[('post.none-or-data', 'result is None or result._data is not None')],
             raises={})

# ---------------------------------------------------------------- Type 1/2: the capacity the reader reports
# "length does not exceed capacity" means something only if the capacity is what the layout holds: the usable
# octets from the NDEF TLV to the end of the data area (reserved ranges excluded) must hold the tag octet, the
# length field (1 octet below 255, else 3) and `capacity` value octets.  len() of the interval set difference is
# an uninterpreted size (same expression, same size) - the contract is about the arithmetic on top of it.
for _p in ('C08', 'C01'):
    contract(T2 + 'get_capacity', _p, dict(capacity=Int(0, 2040), offset=Int(0, None), skip_bytes=IntSet(0, 0x80000)),
             name='%s/tt2.get_capacity' % _p, raises={},
             ensures=[('O-capacity.fits', 'result < 0 or result + (2 if result < 255 else 4) <= '
                                          'len(set(range(offset, capacity + 16)) - skip_bytes)')])
    contract(T1 + 'get_capacity', _p, dict(tag_memory_size=Int(0, 2048), offset=Int(0, None),
                                           skip_bytes=IntSet(0, 0x800)),
             name='%s/tt1.get_capacity' % _p, raises={},
             ensures=[('O-capacity.fits', 'result < 0 or result + (2 if result < 255 else 4) <= '
                                          'len(set(range(offset, tag_memory_size)) - skip_bytes)')])

# C20 ("data read with message authentication is returned only if its MAC verifies") and C16 rest on the two
# Type 3 readers above when the tag is an authenticated FeliCa Lite: obligations there too
import copy as _copy
from pyvc.contracts import REGISTRY as _REG
for _c in list(_REG):
    if _c.name in ('C08/tt3._read_attribute_data', 'C08/tt3._read_ndef_data'):
        for _prop in ('C20', 'C16'):
            _c2 = _copy.copy(_c)
            _c2.prop = _prop
            _c2.name = _prop + '/' + _c.name.split('/', 1)[1]
            _REG.append(_c2)
