"""C08 - activating and reading arbitrary tags terminates safely."""
from .common import *   # noqa

T3 = 'nfc.tag.tt3:'
NDEF3 = lambda: Obj(T3 + 'Type3Tag.NDEF', _partial=False, _data=None, _capacity=0, _readable=False,   # noqa
                    _writeable=False,
                    _tag=Obj('models.tag_models:T3TagAdversary', _partial=False, sys=OneOf(0x12FC, 0xFFFF),
                             idm=None, pmm=None, commands=0))
contract(T3 + 'Type3Tag.NDEF._read_attribute_data', 'C08', dict(self=NDEF3()), name='C08/tt3._read_attribute_data',
         ensures=[('post.shape', 'result is None or (self._capacity == result["nmaxb"] * 16 and '
                                 '0 <= result["nbr"] and result["nbr"] <= 255 and 0 <= result["ln"])')],
         raises={})
contract(T3 + 'Type3Tag.NDEF._read_ndef_data', 'C08', dict(self=NDEF3()), name='C08/tt3._read_ndef_data',
         ensures=[('post.within-capacity', 'result is None or len(result) <= self._capacity'),
                  ('post.commands', 'self._tag.commands <= 2 + 65536')],
         raises={},
         loops={('nfc.tag.tt3.Type3Tag.NDEF._read_ndef_data', 'For', 0): LoopSpec(
             invariant=['len(data) <= 16 * (_k * attributes["nbr"])', 'self._tag.commands <= 2 + _k'],
             havoc={'data': Bytes(0, None, mutable=True), 'self._tag.commands': Int(0, None)})})

T4 = 'nfc.tag.tt4:'
NDEF4 = lambda _capacity=0, **kw: Obj(T4 + 'Type4Tag.NDEF', _partial=False, _data=None, _capacity=_capacity,   # noqa
                         _readable=False,
                         _writeable=False,
                         _tag=Obj(T4 + 'Type4Tag', _partial=False, _extended_length_support=False,
                                  _dep=Obj('models.tag_models:T4CardAdversary', _partial=False, commands=0)), **kw)
# the adversary sits behind ISO-DEP (IsoDepInitiator.exchange is under contract in C12): send_apdu and
# transceive are the real code.  Object invariant of a discovered NDEF: short-APDU limits (MLe <= 256, MLc <= 255)
contract(T4 + 'Type4Tag.NDEF._discover_ndef', 'C08', dict(self=NDEF4()), name='C08/tt4._discover_ndef',
         ensures=[('post.bool', 'result == True or result == False'),
                  ('post.sane', 'implies(result == True, self._nlen_size == 2 or self._nlen_size == 4)'),
                  ('post.short-apdu', 'implies(result == True, self._max_le <= 256 and self._max_lc <= 255)'),
                  ('post.addressable', 'implies(result == True, self._nlen_size + self._capacity <= 65536)'),
                  ('post.commands', 'self._tag._dep.commands <= 5')],
         raises={T4 + 'Type4TagCommandError': ['self._tag._dep.commands <= 5']})
contract(T4 + 'Type4Tag.NDEF._read_ndef_data', 'C08',
         dict(self=NDEF4(_capacity=Int(0, None), _ndef_file=Bytes(2, 2), _nlen_size=OneOf(2, 4), _max_le=Int(0, 256),
                         _max_lc=Int(0, 255), _aid=Bytes(7, 7))),
         name='C08/tt4._read_ndef_data', requires=['self._capacity >= 0'],
         ensures=[('post.within-capacity', 'result is None or len(result) <= self._capacity')],
         raises={},
         loops={('nfc.tag.tt4.Type4Tag.NDEF._read_ndef_data', 'While', 0): LoopSpec(
             invariant=['len(data) <= nlen', 'nlen <= self._capacity'], decreases='nlen - len(data)',
             havoc={'data': Bytes(0, None, mutable=True), 'self._tag._dep.commands': Int(0, None)})})
