"""C20 - tag authentication and MAC-protected reads cannot be fooled."""
from .common import *   # noqa

NX = 'nfc.tag.tt2_nxp:'
T2 = 'nfc.tag.tt2:'
# The tag side: an environment model holding the secret; the Type 2 Tag command methods are replaced
# by it (their own behaviour is the subject of C16).
NT = lambda: Obj(NX + 'NTAG213', model=Obj('models.tag_models:Ntag21xModel', _partial=False, cfgpage=41,   # noqa
                                           mem=Bytes(180, 180, mutable=True)),
                 _cfgpage=41, _authenticated=False,
                 _clf=Obj('models.clf_models:PresentClf', _partial=False),
                 _target=Obj('nfc.clf:RemoteTarget', _partial=False, _brty_send='106A', _brty_recv='106A'))
T2E = T2 + 'Type2TagCommandError'
contract(T2 + 'Type2Tag.transceive', 'C20', dict(self=Any(), data=Any()), name='C20/tag.transceive', assumed=True,
         note='the tag (environment model Ntag21xModel) answers the command', raises={},
         returns='self.model.transceive(data)')
contract(T2 + 'Type2Tag.read', 'C20', dict(self=Any(), page=Any()), name='C20/tag.read', assumed=True,
         note='the tag (environment model) answers READ', raises={}, returns='self.model.read(page)')
contract(T2 + 'Type2Tag.write', 'C20', dict(self=Any(), page=Any(), data=Any()), name='C20/tag.write', assumed=True,
         note='the tag (environment model) executes WRITE', raises={}, returns='self.model.write(page, data)')
USE = ['C20/tag.transceive', 'C20/tag.read', 'C20/tag.write']
KEY = 'ntag_key(password)'
contract(NX + 'NTAG21x._authenticate', 'C20', dict(self=NT(), password=Bytes(0, 20)),
         name='C20/NTAG21x._authenticate', requires=['len(password) == 0 or len(password) >= 6'], use=USE,
         ensures=[('O-auth.iff', 'result == (ntag_key(password)[0:4] == self.model.mem[172:176] and '
                                 'ntag_key(password)[4:6] == self.model.mem[176:178])')],
         raises={})
contract(NX + 'NTAG21x._authenticate', 'C20', dict(self=NT(), password=Bytes(1, 5)),
         name='C20/NTAG21x._authenticate.short', use=USE, ensures=[('post', 'False')],
         raises={'ValueError': []})
# protect(password) followed by authenticate(password2): true exactly for the same derived key
contract('drivers.c20:ntag_protect_then_auth', 'C20',
         dict(tag=NT(), password=Bytes(0, 20), password2=Bytes(0, 20), read_protect=Bool(), protect_from=Int(0, 300)),
         name='C20/NTAG21x.protect-then-authenticate',
         requires=['len(password) == 0 or len(password) >= 6', 'len(password2) == 0 or len(password2) >= 6'],
         use=USE,
         ensures=[('O-protect.first', 'result[0] == True'),
                  ('O-protect.iff', 'result[1] == (ntag_key(password2) == ntag_key(password))'),
                  ('O-protect.stored', 'tag.model.mem[172:178] == ntag_key(password)')],
         raises={})

# ---------------------------------------------------------------- FeliCa Lite
FS = 'nfc.tag.tt3_sony:'
contract(FS + 'FelicaLite.generate_mac', 'C20', dict(data=Any(), key=Any(), iv=Any(), flip_key=Any()),
         name='C20/felica.generate_mac', assumed=True,
         note='idealised MAC (collision free, otherwise uninterpreted); its body (8-octet regrouping idiom, pyDes) is '
              'out of reach', raises={}, returns='bytearray(ideal("mac", 8, bytes(data), bytes(key), bytes(iv), flip_key))')
contract(FS + 'FelicaLite.write_without_mac', 'C20', dict(self=Any(), data=Any(), block=Any()),
         name='C20/felica.write_without_mac', assumed=True, note='the tag (environment model) stores the block',
         raises={}, returns='self.model.write(data, block)')
contract(FS + 'FelicaLite.read_without_mac', 'C20', dict(self=Any(), blocks=Any()),
         name='C20/felica.read_without_mac', assumed=True,
         note='the tag (environment model) answers the read of ID and MAC blocks', raises={},
         returns='self.model.read_id_and_mac()')
FL = lambda **kw: Obj(FS + 'FelicaLite', _partial=False,    # noqa
                      model=Obj('models.tag_models:FelicaLiteModel', _partial=False, ck=Bytes(16, 16),
                                idblock=Bytes(16, 16), rcblock=Const(bytes(16))),
                      _sk=None, _iv=None, _authenticated=False, **kw)   # (other attributes: AttributeError)
FUSE = ['C20/felica.generate_mac', 'C20/felica.write_without_mac', 'C20/felica.read_without_mac']
contract(FS + 'FelicaLite._authenticate', 'C20', dict(self=FL(), password=Bytes(0, 20)),
         name='C20/FelicaLite._authenticate', requires=['len(password) == 0 or len(password) >= 16'], use=FUSE,
         native=False,
         ensures=[('O-auth.iff', 'result == (felica_key(password) == self.model.ck)'),
                  ('O-auth.session', 'implies(result, self._sk is not None and self._iv is not None and '
                                     'self._authenticated == True)'),
                  ('O-auth.no-session', 'implies(not result, self._sk is None and self._authenticated == False)'),
                  # the challenge the tag's answer is checked against was drawn from the random source during THIS
                  # call (a challenge kept from an earlier authentication lets recorded frames be replayed)
                  ('O-auth.fresh-challenge', 'len(urandom_draws()) >= 1 and '
                                             'felica_rc(self.model.rcblock) == bytes(urandom_draws()[-1])')],
         raises={})
contract(FS + 'FelicaLite._authenticate', 'C20', dict(self=FL(), password=Bytes(1, 15)),
         name='C20/FelicaLite._authenticate.short', use=FUSE, ensures=[('post', 'False')],
         raises={'ValueError': []})
# MAC protected read: the response is attacker controlled
contract('nfc.tag.tt3:Type3Tag.read_without_encryption', 'C20', dict(self=Any(), service_list=Any(), block_list=Any()),
         name='C20/felica.read_without_encryption', assumed=True,
         note='whatever arrives over the air: 16 octets per requested block, arbitrary contents', raises={},
         returns='nondet_bytearray(16 * len(block_list), 16 * len(block_list))')
contract(FS + 'FelicaLite.read_with_mac', 'C20',
         dict(self=FL(_sk=Bytes(16, 16), _iv=Bytes(8, 8)) if False else Obj(
             FS + 'FelicaLite', _partial=False, _sk=Bytes(16, 16), _iv=Bytes(8, 8), _authenticated=True),
              blocks=Fixed([Int(0, 0x92)])),
         name='C20/FelicaLite.read_with_mac', use=['C20/felica.generate_mac', 'C20/felica.read_without_encryption'],
         native=False,
         ensures=[('O-mac.verified',
                   'result is None or (result == call_ret("C20/felica.read_without_encryption")[0:16] and '
                   'ideal("mac", 8, bytes(result), bytes(self._sk), bytes(self._iv), False) == '
                   'call_ret("C20/felica.read_without_encryption")[16:24])'),
                  ('O-mac.rejects', 'implies(ideal("mac", 8, bytes(call_ret("C20/felica.read_without_encryption")[0:16]), '
                                    'bytes(self._sk), bytes(self._iv), False) != '
                                    'call_ret("C20/felica.read_without_encryption")[16:24], result is None)')],
         raises={})
# sentinels
contract(NX + 'NTAG21x._authenticate', 'C20', dict(self=NT(), password=Bytes(6, 20)),
         name='C20/sentinel.pack-ignored', use=USE, expect_fail=True,
         ensures=[('post', 'result == (ntag_key(password)[0:4] == self.model.mem[172:176])')], raises={})
contract(FS + 'FelicaLite._authenticate', 'C20', dict(self=FL(), password=Bytes(16, 20)),
         name='C20/sentinel.felica-always-true', use=FUSE, native=False, expect_fail=True,
         ensures=[('post', 'result == True')], raises={})

# the assumed contract C20/felica.read_without_encryption ("16 octets per requested block") proved on the real
# command: the MAC code slices the response from its end and relies on the exact size - a response carrying fewer
# (e.g. zero) blocks than requested must be refused, for the block list sizes the authentication and MAC reads use
from .c16_tagcmd import T3 as _T3, T3E as _T3E   # noqa
_SC = lambda: Obj('nfc.tag.tt3:ServiceCode', _partial=False, number=Int(0, 1023), attribute=Int(0, 63))   # noqa
_BC = lambda: Obj('nfc.tag.tt3:BlockCode', _partial=False, number=Int(0, 255), access=Int(0, 7), service=0)   # noqa
for _n in (1, 2, 4):
    contract('nfc.tag.tt3:Type3Tag.read_without_encryption', 'C20',
             dict(self=_T3(), service_list=Fixed([_SC()]), block_list=Fixed([_BC() for _ in range(_n)])),
             name='C20/tt3.read_without_encryption[%d]' % _n,
             ensures=[('O-read.size', 'len(result) == 16 * %d' % _n)], raises={_T3E: []})

# ---------------------------------------------------------------- FeliCa Lite / Lite-S protect(password)
# "protect(password) followed by authenticate with the same password succeeds": when protect() reports success for
# a password (the empty password stands for the factory key of sixteen zero octets) the card key block holds the
# key authenticate(password) derives - so authenticate(password) succeeds and, the MAC being ideal, no other does.
# password None leaves the key alone.  Lite-S passwords are text: checked for the empty one and None.
contract(FS + 'FelicaLite.write_without_mac', 'C20', dict(self=Any(), data=Any(), block=Any()),
         name='C20/felica.key.write', assumed=True, note='the tag (environment model) stores the block',
         raises={}, returns='self.model.write(data, block)')
contract(FS + 'FelicaLite.read_without_mac', 'C20', dict(self=Any(), blocks=Any()),
         name='C20/felica.key.read', assumed=True, note='the tag (environment model) answers system block reads',
         raises={}, returns='self.model.read(blocks)')
contract(FS + 'FelicaLiteS.authenticate', 'C20', dict(self=Any(), password=Any()),
         name='C20/felica.key.authenticate', assumed=True,
         note='authenticate() with the key just written: succeeds or not (C20/FelicaLite._authenticate)',
         raises={}, returns=Bool())
KT = lambda: Obj('models.tag_models:FelicaKeyTag', _partial=False, ck=Bytes(16, 16), mc=Bytes(16, 16),   # noqa
                 ckv=Bytes(16, 16), key_writes=0)
KUSE = ['C20/felica.key.write', 'C20/felica.key.read', 'C20/felica.key.authenticate']
for _cls, _pw in (('FelicaLite', OneOf(Bytes(16, 20), Const(b''), Const(None))),
                  ('FelicaLiteS', OneOf(Const(''), Const(None)))):
    contract(FS + _cls + '._protect', 'C20',
             dict(self=Obj(FS + _cls, _partial=False, model=KT(), _authenticated=Bool(), _sk=None, _iv=None),
                  password=_pw, read_protect=Bool(), protect_from=Int(1, 20)),
             name='C20/%s._protect' % _cls, use=KUSE,
             ensures=[('O-protect.key', 'implies(result == True and password is not None, '
                                        'self.model.ck == felica_key(b"" if password == "" else password) and '
                                        'self.model.key_writes == 1)'),
                      ('O-protect.no-key', 'implies(password is None, self.model.ck == old(self.model.ck))')],
             raises={})
