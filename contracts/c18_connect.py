"""C18 - connect() and sense() honour their documented contract."""
from .common import *   # noqa
from .c15_lock import clf, RT, LT, TAG, EMU, CB, C, on_acquire, setup as c15_setup

SDEV = lambda: Obj('models.clf_models:SenseDevice', _partial=False, clf=Ref('self'))   # noqa


def reset_events(ex, env):
    ev = ex.world.spec_globals(ex)['EVENTS']
    ev.left, ev.mid, ev.right = [], None, []


def sclf(**kw):
    f = dict(lock=Lock(reentrant=False), device=SDEV(), target=OneOf(None, RT()))
    f.update(kw)
    return Obj(C + 'ContactlessFrontend', **f)


RT1 = lambda brty, **kw: Obj(C + 'RemoteTarget', _partial=False, _brty_send=brty, _brty_recv=brty, **kw)   # noqa
ANYT = lambda: OneOf(RT1('106A'), RT1('212F'), RT1('106A', atr_req=Bytes(0, 70, mutable=True)),   # noqa
                     RT1('106A', sel_req=Bytes(0, 12, mutable=True)), RT1('848Z'))
# one target: errors may be raised; several targets: unsupported/invalid ones are skipped silently
contract(C + 'ContactlessFrontend.sense', 'C18', dict(self=sclf(), targets=Fixed([ANYT(), ANYT()])),
         name='C18/sense[2]', setup=reset_events, max_paths=12000,
         ensures=[('post.first-found', 'result is None or (self.target is result and '
                                       'count(EVENTS, "mute") == 1 and EVENTS[0] == "mute")'),
                  ('post.field-off', 'implies(result is None, self.target is None and EVENTS[-1] == "mute")'),
                  ('post.order', 'result is None or result.found_by == EVENTS[-1]'),
                  ('post.dep-asked', 'implies(getattr(targets[0], "atr_req", None) is not None and len(targets[0].atr_req) >= 16 and len(targets[0].atr_req) <= 64, EVENTS[1] == "sense_dep")')],
         raises={})
contract(C + 'ContactlessFrontend.sense', 'C18', dict(self=sclf(), targets=Fixed([ANYT()])),
         name='C18/sense[1]', setup=reset_events,
         ensures=[('post.target', 'self.target is result'),
                  ('post.field-off', 'implies(result is None, EVENTS[-1] == "mute")'),
                  ('post.dep-asked', 'implies(getattr(targets[0], "atr_req", None) is not None and len(targets[0].atr_req) >= 16 and len(targets[0].atr_req) <= 64, count(EVENTS, "sense_dep") >= 1)')],
         # a target whose attributes are valid as documented (ATR_REQ of 16..64 octets) is handed to the driver;
         # ValueError for it can only be the driver's own
         raises={C + 'UnsupportedTargetError': [], 'ValueError': ['implies(getattr(targets[0], "atr_req", None) is not None and len(targets[0].atr_req) >= 16 and len(targets[0].atr_req) <= 64, count(EVENTS, "sense_dep") >= 1)']})
contract(C + 'ContactlessFrontend.sense', 'C18',
         dict(self=sclf(), targets=Fixed([OneOf(Const(None), Const('106A'), Const(b'106A'))])),
         name='C18/sense.bad-argument', setup=reset_events, ensures=[('post', 'False')],
         raises={'ValueError': ['len(EVENTS) == 0']})

# one activation: callbacks in order, on-release exactly once per true on-connect, documented return value
EV = lambda what, ret: CB('lambda x: (EVENTS.append("%s"), %s)[1]' % (what, ret))   # noqa
for nm, target_fn, use, extra, loops in (
        ('_rdwr_connect', None, ['C15/nfc.tag.activate'],
         {'targets': Fixed([RT1('106A')]), 'iterations': 1, 'interval': 0, 'beep-on-connect': Bool()},
         {('nfc.clf.ContactlessFrontend._rdwr_connect', 'While', 0): LoopSpec(invariant=['True'])}),
        ('_card_connect', None, ['C15/nfc.tag.emulate'], {'target': LT(), 'timeout': 1},
         {('nfc.clf.ContactlessFrontend._card_connect', 'While', 0): LoopSpec(
             invariant=['True'], havoc={'tag_rsp': Opt(Bytes(0, 64, mutable=True))})})):
    o = {'on-discover': EV('discover', 'nondet_bool()'), 'on-connect': EV('connect', 'nondet_bool()'),
         'on-release': EV('release', 'nondet_int(0, 1)')}
    o.update(extra)
    contract(C + 'ContactlessFrontend.' + nm, 'C18',
             dict(self=clf(), options=DictOf(o), terminate=CB('lambda: nondet_bool()')),
             name='C18/' + nm, use=use, loops=loops,
             # the application may close the frontend from its terminate()/callbacks or another thread: as in
             # C15 the device reference may be gone whenever the lock is re-acquired
             setup=lambda ex, env: (c15_setup(ex, env), reset_events(ex, env)), hooks={'on_acquire': on_acquire},
             ensures=[('post.order', 'is_prefix_of_activation(only_callbacks(EVENTS))'),
                      ('post.release-once', 'count(EVENTS, "release") <= 1 and '
                                            '(count(EVENTS, "release") == 1) == (result == 0 or result == 1)'),
                      ('post.result', 'result is None or result == 0 or result == 1 or '
                                      '(count(EVENTS, "connect") == 1 and count(EVENTS, "release") == 0)')],
             raises={'IOError': [], 'ValueError': [], C + 'Error': []})

# listen(): the captured target is exactly what this call returned (never one from an earlier sense/listen)
contract(C + 'ContactlessFrontend.listen', 'C18',
         dict(self=Obj(C + 'ContactlessFrontend', lock=Lock(reentrant=False),
                       device=Obj('models.clf_models:DeviceModel', _partial=False, lock=Ref('self.lock'), closed=False),
                       target=OneOf(None, RT())), target=LT(), timeout=Int(0, 10)),
         name='C18/listen', ensures=[('post.target', 'self.target is result')],
         raises={'ValueError': ['self.target is None'], 'IOError': []})
# exchange(): the direction follows the kind of the target captured last
contract(C + 'ContactlessFrontend.exchange', 'C18',
         dict(self=Obj(C + 'ContactlessFrontend', lock=Lock(reentrant=False),
                       device=Obj('models.clf_models:DirDevice', _partial=False, used=None),
                       target=OneOf(None, RT(), LT())),
              send_data=Bytes(0, None, mutable=True), timeout=Int(0, 10)),
         name='C18/exchange.direction',
         ensures=[('post.dir', '(self.device.used == "cmd") == (type(self.target).__name__ == "RemoteTarget") and '
                               '(self.device.used == "rsp") == (type(self.target).__name__ == "LocalTarget") and '
                               '(self.device.used is None) == (self.target is None)'),
                  ('post.none', 'implies(self.target is None, result is None)')],
         raises={})
# connect(): argument checking and start-up filtering
contract(C + 'ContactlessFrontend.connect', 'C18',
         dict(self=clf(), options=DictOf({'rdwr': OneOf(None, Const(5), Const('x')),
                                          'llcp': OneOf(None, Const([1])), 'card': OneOf(None, Const((1, 2)))})),
         name='C18/connect.bad-options',
         requires=['options["rdwr"] is not None or options["llcp"] is not None or options["card"] is not None',
                   'self.device is not None'],
         ensures=[('post', 'False')], raises={'TypeError': []})
contract(C + 'ContactlessFrontend.connect', 'C18',
         dict(self=clf(), options=DictOf({
             'rdwr': OneOf(None, DictOf({'on-startup': CB('lambda targets: (None, [], ["106A"])[nondet_int(0, 2)]')})),
             'card': OneOf(None, DictOf({'on-startup': CB('lambda target: None if nondet_bool() else 7')}))})),
         name='C18/connect.nothing-survives-startup', requires=['self.device is not None'],
         ensures=[('post.none', 'result is None')], raises={})

# peer-to-peer activation: on-connect once for the first successful activation (target role tried first, then
# initiator), the link loop runs only after a true on-connect, on-release exactly once after it, documented results
contract(C + 'ContactlessFrontend._llcp_connect', 'C18',
         dict(self=clf(),
              options=DictOf({'llc': Obj('models.clf_models:LlcEvModel', _partial=False, clf=Ref('self')),
                              'role': OneOf(None, 'target', 'initiator'),
                              'on-connect': EV('connect', 'nondet_bool()'), 'on-release': EV('release', 'nondet_int(0, 1)')}),
              terminate=CB('lambda: nondet_bool()')),
         name='C18/_llcp_connect',
         setup=lambda ex, env: (c15_setup(ex, env), reset_events(ex, env)), hooks={'on_acquire': on_acquire},
         ensures=[('post.connect-once', 'count(EVENTS, "connect") <= 1 and count(EVENTS, "release") <= 1 and '
                                        'count(EVENTS, "activate") <= 2'),
                  ('post.order', 'count(EVENTS, "release") == 0 or (EVENTS[-1] == "release" and EVENTS[-2] == "run" '
                                 'and EVENTS[-3] == "connect" and EVENTS[-4] == "activate")'),
                  ('post.release-once', '(count(EVENTS, "release") == 1) == (count(EVENTS, "run") == 1) and '
                                        '(count(EVENTS, "release") == 1) == (result == 0 or result == 1)'),
                  ('post.result', 'result is None or result == 0 or result == 1 or '
                                  '(result is options["llc"] and count(EVENTS, "connect") == 1 and '
                                  'count(EVENTS, "release") == 0)'),
                  ('post.none', 'implies(result is None, count(EVENTS, "connect") == 0)')],
         raises={'IOError': []})
