"""C18 - connect() and sense() honour their documented contract."""
from .common import *   # noqa
from .c15_lock import clf, RT, LT, TAG, EMU, CB, C, on_acquire, setup as c15_setup

SDEV = lambda: Obj('models.clf_models:SenseDevice', _partial=False, clf=Ref('self'))   # noqa


def reset_events(ex, env):
    ev = ex.world.spec_globals(ex)['EVENTS']
    ev.left, ev.mid, ev.right = [], None, []


def sclf(**kw):
    f = dict(lock=Lock(reentrant=False), device=SDEV(), target=OneOf(None, RT()))
    f.update(kw)
    return Obj(C + 'ContactlessFrontend', **f)


RT1 = lambda brty, **kw: Obj(C + 'RemoteTarget', _partial=False, _brty_send=brty, _brty_recv=brty, **kw)   # noqa
ANYT = lambda: OneOf(RT1('106A'), RT1('212F'), RT1('106A', atr_req=Bytes(0, 70, mutable=True)),   # noqa
                     RT1('106A', sel_req=Bytes(0, 12, mutable=True)), RT1('848Z'))
# one target: errors may be raised; several targets: unsupported/invalid ones are skipped silently
contract(C + 'ContactlessFrontend.sense', 'C18', dict(self=sclf(), targets=Fixed([ANYT(), ANYT()])),
         name='C18/sense[2]', setup=reset_events, max_paths=12000,
         ensures=[('post.first-found', 'result is None or (self.target is result and '
                                       'count(EVENTS, "mute") == 1 and EVENTS[0] == "mute")'),
                  ('post.field-off', 'implies(result is None, self.target is None and EVENTS[-1] == "mute")'),
                  ('post.order', 'result is None or result.found_by == EVENTS[-1]'),
                  ('post.dep-asked', 'implies(getattr(targets[0], "atr_req", None) is not None and len(targets[0].atr_req) >= 16 and len(targets[0].atr_req) <= 64, EVENTS[1] == "sense_dep")')],
         # a host link failure is the only thing that may come out, and it never leaves the target of an earlier
         # sense behind ("exchange() never uses a target from an earlier sense")
         raises={'IOError': ['self.target is None']})
contract(C + 'ContactlessFrontend.sense', 'C18', dict(self=sclf(), targets=Fixed([ANYT()])),
         name='C18/sense[1]', setup=reset_events,
         ensures=[('post.target', 'self.target is result'),
                  ('post.field-off', 'implies(result is None, EVENTS[-1] == "mute")'),
                  ('post.dep-asked', 'implies(getattr(targets[0], "atr_req", None) is not None and len(targets[0].atr_req) >= 16 and len(targets[0].atr_req) <= 64, count(EVENTS, "sense_dep") >= 1)')],
         # a target whose attributes are valid as documented (ATR_REQ of 16..64 octets) is handed to the driver;
         # ValueError for it can only be the driver's own
         raises={'IOError': ['self.target is None'], C + 'UnsupportedTargetError': ['self.target is None'],
                 'ValueError': ['self.target is None', 'implies(getattr(targets[0], "atr_req", None) is not None and len(targets[0].atr_req) >= 16 and len(targets[0].atr_req) <= 64, count(EVENTS, "sense_dep") >= 1)']})
contract(C + 'ContactlessFrontend.sense', 'C18',
         dict(self=sclf(), targets=Fixed([OneOf(Const(None), Const('106A'), Const(b'106A'))])),
         name='C18/sense.bad-argument', setup=reset_events, ensures=[('post', 'False')],
         raises={'ValueError': ['len(EVENTS) == 0']})

# one activation: callbacks in order, on-release exactly once per true on-connect, documented return value
EV = lambda what, ret: CB('lambda x: (EVENTS.append("%s"), %s)[1]' % (what, ret))   # noqa
for nm, target_fn, use, extra, loops in (
        ('_rdwr_connect', None, ['C15/nfc.tag.activate'],
         {'targets': Fixed([RT1('106A')]), 'iterations': 1, 'interval': 0, 'beep-on-connect': Bool()},
         {('nfc.clf.ContactlessFrontend._rdwr_connect', 'While', 0): LoopSpec(invariant=['True'])}),
        ('_card_connect', None, ['C15/nfc.tag.emulate'], {'target': LT(), 'timeout': 1},
         {('nfc.clf.ContactlessFrontend._card_connect', 'While', 0): LoopSpec(
             invariant=['True'], havoc={'tag_rsp': Opt(Bytes(0, 64, mutable=True)),
                                 # whichever of the two the loop carries over (command or response)
                                 'tag_cmd': Opt(Bytes(0, 64, mutable=True))})})):
    o = {'on-discover': EV('discover', 'nondet_bool()'), 'on-connect': EV('connect', 'nondet_bool()'),
         'on-release': EV('release', 'nondet_int(0, 1)')}
    o.update(extra)
    contract(C + 'ContactlessFrontend.' + nm, 'C18',
             dict(self=clf(), options=DictOf(o), terminate=CB('lambda: nondet_bool()')),
             name='C18/' + nm, use=use, loops=loops,
             # the application may close the frontend from its terminate()/callbacks or another thread: as in
             # C15 the device reference may be gone whenever the lock is re-acquired
             setup=lambda ex, env: (c15_setup(ex, env), reset_events(ex, env)), hooks={'on_acquire': on_acquire},
             ensures=[('post.order', 'is_prefix_of_activation(only_callbacks(EVENTS))'),
                      ('post.release-once', 'count(EVENTS, "release") <= 1 and '
                                            '(count(EVENTS, "release") == 1) == (result == 0 or result == 1)'),
                      ('post.result', 'result is None or result == 0 or result == 1 or '
                                      '(count(EVENTS, "connect") == 1 and count(EVENTS, "release") == 0)')],
             raises={'IOError': [], 'ValueError': [], C + 'Error': []})

# listen(): the captured target is exactly what this call returned (never one from an earlier sense/listen)
contract(C + 'ContactlessFrontend.listen', 'C18',
         dict(self=Obj(C + 'ContactlessFrontend', lock=Lock(reentrant=False),
                       device=Obj('models.clf_models:DeviceModel', _partial=False, lock=Ref('self.lock'), closed=False),
                       target=OneOf(None, RT())), target=LT(), timeout=Int(0, 10)),
         name='C18/listen', ensures=[('post.target', 'self.target is result')],
         raises={'ValueError': ['self.target is None'], 'IOError': []})
# exchange(): the direction follows the kind of the target captured last
contract(C + 'ContactlessFrontend.exchange', 'C18',
         dict(self=Obj(C + 'ContactlessFrontend', lock=Lock(reentrant=False),
                       device=Obj('models.clf_models:DirDevice', _partial=False, used=None),
                       target=OneOf(None, RT(), LT())),
              send_data=Bytes(0, None, mutable=True), timeout=Int(0, 10)),
         name='C18/exchange.direction',
         ensures=[('post.dir', '(self.device.used == "cmd") == (type(self.target).__name__ == "RemoteTarget") and '
                               '(self.device.used == "rsp") == (type(self.target).__name__ == "LocalTarget") and '
                               '(self.device.used is None) == (self.target is None)'),
                  ('post.none', 'implies(self.target is None, result is None)')],
         raises={})
# connect(): argument checking and start-up filtering
contract(C + 'ContactlessFrontend.connect', 'C18',
         dict(self=clf(), options=DictOf({'rdwr': OneOf(None, Const(5), Const('x')),
                                          'llcp': OneOf(None, Const([1])), 'card': OneOf(None, Const((1, 2)))})),
         name='C18/connect.bad-options',
         requires=['options["rdwr"] is not None or options["llcp"] is not None or options["card"] is not None',
                   'self.device is not None'],
         ensures=[('post', 'False')], raises={'TypeError': []})
contract(C + 'ContactlessFrontend.connect', 'C18',
         dict(self=clf(), options=DictOf({
             'rdwr': OneOf(None, DictOf({'on-startup': CB('lambda targets: (None, [], ["106A"])[nondet_int(0, 2)]')})),
             'card': OneOf(None, DictOf({'on-startup': CB('lambda target: None if nondet_bool() else 7')}))})),
         name='C18/connect.nothing-survives-startup', requires=['self.device is not None'],
         ensures=[('post.none', 'result is None')], raises={},
         # "returns None if no options left after on-startup": the discovery loop is not even entered
         loops={('nfc.clf.ContactlessFrontend.connect', 'While', 0): LoopSpec(
             invariant=[('discovery-loop-not-entered', 'False')] if False else ['False'])})

# peer-to-peer activation: on-connect once for the first successful activation (target role tried first, then
# initiator), the link loop runs only after a true on-connect, on-release exactly once after it, documented results
contract(C + 'ContactlessFrontend._llcp_connect', 'C18',
         dict(self=clf(),
              options=DictOf({'llc': Obj('models.clf_models:LlcEvModel', _partial=False, clf=Ref('self')),
                              'role': OneOf(None, 'target', 'initiator'),
                              'on-connect': EV('connect', 'nondet_bool()'), 'on-release': EV('release', 'nondet_int(0, 1)')}),
              terminate=CB('lambda: nondet_bool()')),
         name='C18/_llcp_connect',
         setup=lambda ex, env: (c15_setup(ex, env), reset_events(ex, env)), hooks={'on_acquire': on_acquire},
         ensures=[('post.connect-once', 'count(EVENTS, "connect") <= 1 and count(EVENTS, "release") <= 1 and '
                                        'count(EVENTS, "activate") <= 2'),
                  ('post.order', 'count(EVENTS, "release") == 0 or (EVENTS[-1] == "release" and EVENTS[-2] == "run" '
                                 'and EVENTS[-3] == "connect" and EVENTS[-4] == "activate")'),
                  ('post.release-once', '(count(EVENTS, "release") == 1) == (count(EVENTS, "run") == 1) and '
                                        '(count(EVENTS, "release") == 1) == (result == 0 or result == 1)'),
                  ('post.result', 'result is None or result == 0 or result == 1 or '
                                  '(result is options["llc"] and count(EVENTS, "connect") == 1 and '
                                  'count(EVENTS, "release") == 0)'),
                  ('post.none', 'implies(result is None, count(EVENTS, "connect") == 0)')],
         raises={'IOError': []})

# "on-release exactly once ... returns as documented" for a peer-to-peer link rests on llc.run() coming back with a
# bool or IOError (the LlcEvModel above).  Its last step, whatever ended the link, is the NFC-DEP release/deselect
# handshake in mac.deactivate(): with any answer of the peer - any octets, none, a transmission error - it must
# return (None) and raise nothing, or connect() raises instead of calling on-release.  The log calls on this path
# have their argument expressions evaluated (hook eval_log_args): a format spec that the value's type refuses
# raises there like anywhere else.
from .c19_negotiate import PCNT, DEP   # noqa
_XCLF = lambda: Obj('models.clf_models:ExchangeClf', _partial=False, sent=Fixed([]), outcomes=Fixed([]),   # noqa
                    answers=Fixed([]))
_RTG = lambda: OneOf(Obj('nfc.clf:RemoteTarget', _partial=False, _brty_send='106A', _brty_recv='106A'),   # noqa
                     Obj('nfc.clf:RemoteTarget', _partial=False, _brty_send='424F', _brty_recv='424F'))
contract(DEP + 'Initiator.deactivate', 'C18',
         dict(self=Obj(DEP + 'Initiator', _partial=False, pcnt=PCNT(), clf=_XCLF(), target=_RTG(),
                       did=Opt(Int(0, 14)), nad=Opt(Byte()), miu=Int(1, 251), pni=Int(0, 3), rwt=Const(0.01),
                       _acm=Bool(), gbi=Bytes(0, 48), gbt=Bytes(0, 48), brs=Int(0, 2), lri=Int(0, 3)),
              release=Bool()),
         name='C18/dep.Initiator.deactivate', hooks={'eval_log_args': True, 'opaque_str': False},
         ensures=[('post.none', 'result is None'),
                  ('post.one-request', 'len(self.clf.sent) == 1 and self.clf.sent[0][-2 - (0 if self.did is None else 1)] '
                                       '== 0xD4 and self.clf.sent[0][-1 - (0 if self.did is None else 1)] == '
                                       '(0x0A if release else 0x08)')],
         raises={})

# the Target's side of the same clean-up: Target.deactivate() over the frame exchange replaced by a contract
# (any request PDU, none, or a communication error): returns None, raises nothing, answers DSL/RLS with the
# matching response
_TREQ = lambda: Obj(DEP + 'DEP_REQ', _partial=False,   # noqa
                    pfb=Obj(DEP + 'DEP_REQ.PFB', _partial=False, fmt=Int(0, 15), nad=Bool(), did=Bool(), pni=Int(0, 3)),
                    did=Opt(Int(0, 14)), nad=None, data=Bytes(0, 255, mutable=True))
contract(DEP + 'Target.send_res_recv_req', 'C18', dict(self=Any(), res=Any(), deadline=Any()),
         name='C18/dep.Target.frame-exchange', assumed=True,
         note='encode_frame + clf.exchange + decode_frame on the Target (C04/C07 contracts): the next request or None',
         raises={'nfc.clf:TimeoutError': [], 'nfc.clf:TransmissionError': [], 'nfc.clf:ProtocolError': [],
                 'nfc.clf:BrokenLinkError': []},
         returns=OneOf(None, _TREQ(), Obj(DEP + 'DSL_REQ', _partial=False, did=Opt(Int(0, 14))),
                       Obj(DEP + 'RLS_REQ', _partial=False, did=Opt(Int(0, 14))),
                       Obj(DEP + 'ATR_REQ', _partial=True, did=Opt(Int(0, 14)))))
contract(DEP + 'Target.deactivate', 'C18',
         dict(self=Obj(DEP + 'Target', _partial=False, pcnt=PCNT(), clf=None, target=None, did=Opt(Int(0, 14)),
                       nad=Opt(Byte()), miu=Int(1, 251), pni=Int(0, 3), rwt=Const(0.01), cmd=None,
                       gbi=Bytes(0, 48), gbt=Bytes(0, 48)),
              data=Bytes(0, 2, mutable=True)),
         name='C18/dep.Target.deactivate', use=['C18/dep.Target.frame-exchange'], hooks={'eval_log_args': True},
         ensures=[('post.none', 'result is None')],
         raises={},
         loops={('nfc.dep.Target._deactivate', 'While', 0): LoopSpec(
             invariant=['True'], havoc={'res': Opt(Obj(DEP + 'DEP_RES')), 'req': Opt(_TREQ())})})
