"""C05 - LLCP connections deliver in order, exactly once, within the window
(per-endpoint representation invariant; see DESIGN.md for what is not decided)."""
from .common import *   # noqa
from .c10_miu import tco, DLC_EXTRA, state, mode

P = 'nfc.llcp.pdu:'
T = 'nfc.llcp.tco:'
ERR = 'nfc.llcp.err:Error'
IPDU = lambda: Obj(P + 'Information', ptype=12, dsap=SAP(), ssap=SAP(), ns=SEQ(), nr=SEQ(), data=Bytes())   # noqa


def dlc(**kw):
    f = dict(DLC_EXTRA)
    f.update(dict(state=state(4), addr=SAP(), peer=SAP(), send_queue=ListOf(IPDU(), kind='deque'),
                  recv_queue=ListOf(IPDU(), kind='deque')))
    f.update(kw)
    return tco('DataLinkConnection', **f)


contract(T + 'DataLinkConnection.send', 'C05', dict(self=dlc(), message=Bytes(), flags=1),
         name='C05/send', requires=['dlc_inv(self)'],
         ensures=[('post.inv', 'dlc_inv(self)'),
                  ('post.fits', 'len(message) <= self.send_miu'),
                  ('post.window', 'outstanding(old(self)) < self.send_win'),
                  ('post.seq', 'self.send_cnt == (old(self.send_cnt) + 1) % 16'),
                  ('post.queued', 'len(self.send_queue) == old(len(self.send_queue)) + 1 and '
                                  'self.send_queue[-1].ns == old(self.send_cnt) and '
                                  'self.send_queue[-1].data == message and self.send_queue[-1].dsap == self.peer'),
                  ('post.window_kept', 'outstanding(self) <= self.send_win')],
         raises={ERR: ['dlc_inv(self)', 'len(self.send_queue) == old(len(self.send_queue))',
                       'self.send_cnt == old(self.send_cnt)',
                       'implies(len(message) > self.send_miu, exc.errno == EMSGSIZE)',
                       'implies(len(message) <= self.send_miu, exc.errno == EWOULDBLOCK and '
                       'outstanding(self) == self.send_win)']})
# receiving an I PDU in sequence (the peer respects RW(L): its N(S) lies inside the receive window)
contract(T + 'DataLinkConnection._enqueue_state_established', 'C05', dict(self=dlc(), rcvd_pdu=IPDU()),
         name='C05/enqueue.I',
         requires=['dlc_inv(self)',
                   '(rcvd_pdu.ns - self.recv_ack) % 16 < self.recv_win',            # peer conformance (window)
                   '(rcvd_pdu.nr - self.send_ack) % 16 <= outstanding(self)'],     # peer conformance (N(R))
         ensures=[('post.inv', 'dlc_inv(self) or len(self.send_queue) == 1'),
                  ('post.accept',
                   'implies(rcvd_pdu.ns == old(self.recv_cnt) and len(rcvd_pdu.data) <= self.recv_miu, '
                   'self.recv_cnt == (old(self.recv_cnt) + 1) % 16 and '
                   'len(self.recv_queue) == old(len(self.recv_queue)) + 1 and self.recv_queue[-1] is rcvd_pdu)'),
                  ('post.reject',
                   'implies(rcvd_pdu.ns != old(self.recv_cnt) or len(rcvd_pdu.data) > self.recv_miu, '
                   'self.recv_cnt == old(self.recv_cnt) and len(self.recv_queue) == old(len(self.recv_queue)) and '
                   'len(self.send_queue) == 1 and self.send_queue[0].name == "FRMR")'),
                  ('post.ack', 'implies(rcvd_pdu.ns == old(self.recv_cnt) and len(rcvd_pdu.data) <= self.recv_miu, '
                               'self.send_ack == rcvd_pdu.nr and '
                               'self.acks_recvd == old(self.acks_recvd) + (rcvd_pdu.nr - old(self.send_ack)) % 16)')],
         raises={})
contract(T + 'DataLinkConnection.recv', 'C05', dict(self=dlc()), name='C05/recv', requires=['dlc_inv(self)'],
         ensures=[('post.inv', 'dlc_inv(self)'),
                  ('post.head', 'implies(old(len(self.recv_queue)) > 0, result == old(self.recv_queue[0].data) and '
                                'len(self.recv_queue) == old(len(self.recv_queue)) - 1 and '
                                'self.recv_confs == old(self.recv_confs) + 1)'),
                  ('post.empty', 'implies(old(len(self.recv_queue)) == 0, result is None)')],
         raises={})
contract(T + 'DataLinkConnection.sendack', 'C05', dict(self=dlc()), name='C05/sendack', requires=['dlc_inv(self)'],
         ensures=[('post.inv', 'dlc_inv(self)'),
                  ('post.ack', 'implies(result is not None, result.nr == self.recv_ack and self.recv_confs == 0 and '
                               'self.recv_ack == (old(self.recv_ack) + old(self.recv_confs)) % 16 and '
                               'result.dsap == self.peer and result.ssap == self.addr)'),
                  ('post.kind', 'implies(result is not None, '
                                '(result.name == "RNR") == bool(self.mode.RECV_BUSY))')],
         raises={})
contract(T + 'DataLinkConnection.dequeue', 'C05',
         dict(self=dlc(send_queue=OneOf(Fixed([], 'deque'), HeadTail([IPDU()], ListOf(IPDU()), 'deque'))),
              miu_size=Int(0, None), icv_size=Int(0, None)),
         name='C05/dequeue', requires=['dlc_inv(self)'],
         ensures=[('post.inv', 'dlc_inv(self)'),
                  ('post.piggyback', 'implies(result is not None and result.name == "I", '
                                     'result.nr == self.recv_ack and result.ns == old(self.send_queue)[0].ns and '
                                     'result.data == old(self.send_queue)[0].data)'),
                  ('post.order', 'implies(result is not None and result.name == "I", '
                                 'len(self.send_queue) == old(len(self.send_queue)) - 1)'),
                  # an RR/RNR carries N(R) = V(RA), advanced at most by the receptions the application has confirmed
                  # (acknowledging V(R) would reopen the peer's window over a full receive queue)
                  ('post.ack-nr', 'implies(result is not None and (result.name == "RR" or result.name == "RNR"), '
                                  'result.nr == self.recv_ack and '
                                  '(self.recv_ack == old(self.recv_ack) or '
                                  'self.recv_ack == (old(self.recv_ack) + old(self.recv_confs)) % 16) and '
                                  'len(self.send_queue) == old(len(self.send_queue)))'),
                  # a PDU that does not fit now stays at the head of the queue (order on the wire = order queued)
                  ('post.requeue', 'implies(result is None and old(len(self.send_queue)) > 0, '
                                   'len(self.send_queue) == old(len(self.send_queue)) and '
                                   'self.send_queue[0].ns == old(self.send_queue)[0].ns and '
                                   'self.send_queue[0].data == old(self.send_queue)[0].data)')],
         raises={})
contract(T + 'DataLinkConnection.send', 'C05', dict(self=dlc(), message=Bytes(), flags=1),
         name='C05/sentinel.window-off-by-one', requires=['dlc_inv(self)'], expect_fail=True,
         ensures=[('post', 'outstanding(self) < self.send_win')], raises={ERR: []})

COUNTERS = ('send_cnt', 'send_ack', 'recv_cnt', 'recv_ack', 'recv_confs', 'acks_recvd')


def on_setattr(ex, obj, name, v):
    """sequence state is only written with the connection's lock held (each
    method is then one atomic step with respect to the other methods)"""
    if name in COUNTERS and getattr(obj, 'symname', None) == 'self':
        lk = obj.fields.get('lock')
        ex.oblige('lock-held-on-write:%s' % name, bool(lk is not None and lk.held > 0),
                  detail='self.%s is written with self.lock held' % name)


LOCKED = dict(hooks={'on_setattr': on_setattr})
RR = lambda: Obj(P + 'ReceiveReady', ptype=13, dsap=SAP(), ssap=SAP(), ns=0, nr=SEQ())       # noqa
RNR = lambda: Obj(P + 'ReceiveNotReady', ptype=14, dsap=SAP(), ssap=SAP(), ns=0, nr=SEQ())   # noqa
for nm, shp in (('RR', RR()), ('RNR', RNR())):
    contract(T + 'DataLinkConnection._enqueue_state_established', 'C05', dict(self=dlc(), rcvd_pdu=shp),
             name='C05/enqueue.' + nm,
             requires=['dlc_inv(self)', '(rcvd_pdu.nr - self.send_ack) % 16 <= outstanding(self)'],
             ensures=[('post.inv', 'dlc_inv(self)'),
                      ('post.ack', 'self.send_ack == rcvd_pdu.nr and '
                                   'self.acks_recvd == old(self.acks_recvd) + (rcvd_pdu.nr - old(self.send_ack)) % 16'),
                      ('post.busy', 'bool(self.mode.SEND_BUSY) == %s' % (nm == 'RNR')),
                      ('post.frame', 'self.recv_cnt == old(self.recv_cnt) and self.send_cnt == old(self.send_cnt) and '
                                     'len(self.recv_queue) == old(len(self.recv_queue))')],
             raises={}, **LOCKED)
# the same functions again with the write-under-lock obligation
contract(T + 'DataLinkConnection.send', 'C05', dict(self=dlc(), message=Bytes(), flags=1),
         name='C05/send.locked', requires=['dlc_inv(self)'], raises={ERR: []}, **LOCKED)
contract(T + 'DataLinkConnection.recv', 'C05', dict(self=dlc()), name='C05/recv.locked',
         requires=['dlc_inv(self)'], raises={}, **LOCKED)
contract(T + 'DataLinkConnection.sendack', 'C05', dict(self=dlc()), name='C05/sendack.locked',
         requires=['dlc_inv(self)'], raises={}, **LOCKED)
contract(T + 'DataLinkConnection._enqueue_state_established', 'C05', dict(self=dlc(), rcvd_pdu=IPDU()),
         name='C05/enqueue.I.locked', requires=['dlc_inv(self)'], raises={}, **LOCKED)
# connection set-up adopts the peer's announced MIU and receive window
CC = Obj(P + 'ConnectionComplete', ptype=6, dsap=SAP(), ssap=SAP(), miu=Int(128, 2175), rw=Int(0, 15))
contract(T + 'DataLinkConnection.connect', 'C05',
         dict(self=dlc(state=state(1), send_queue=Fixed([], 'deque'), recv_queue=Fixed([CC], 'deque'),
                       recv_miu=Int(128, 2175), recv_win=Int(0, 15)), dest=Int(0, 63)),
         name='C05/connect',
         ensures=[('post.peer_limits', 'self.send_miu == old(self.recv_queue[0].miu) and '
                                       'self.send_win == old(self.recv_queue[0].rw) and '
                                       'self.peer == old(self.recv_queue[0].ssap)'),
                  ('post.announced', 'self.send_queue[0].name == "CONNECT" and self.send_queue[0].miu == self.recv_miu '
                                     'and self.send_queue[0].rw == self.recv_win'),
                  ('post.state', 'self.state.value == 4'),
                  ('post.buffer', 'self.recv_buf == self.recv_win')],
         raises={ERR: []})
CONN = Obj(P + 'Connect', ptype=4, dsap=SAP(), ssap=SAP(), miu=Int(128, 2175), rw=Int(0, 15), sn=None)
contract(T + 'DataLinkConnection.accept', 'C05',
         dict(self=dlc(state=state(2), send_queue=Fixed([], 'deque'), recv_queue=Fixed([CONN], 'deque'),
                       recv_miu=Int(128, 2175), recv_win=Int(0, 15), recv_buf=Int(0, 16))),
         name='C05/accept',
         ensures=[('post.peer_limits', 'result.send_miu == old(self.recv_queue[0].miu) and '
                                       'result.send_win == old(self.recv_queue[0].rw) and '
                                       'result.peer == old(self.recv_queue[0].ssap) and result.addr == self.addr'),
                  ('post.announced', 'self.send_queue[0].name == "CC" and self.send_queue[0].miu == result.recv_miu '
                                     'and self.send_queue[0].rw == result.recv_win'),
                  ('post.fresh', 'result.send_cnt == 0 and result.send_ack == 0 and result.recv_cnt == 0 and '
                                 'result.recv_ack == 0 and result.recv_confs == 0 and result.state.value == 4'),
                  # the accepted endpoint starts inside the representation invariant every other contract assumes
                  # (in particular its receive buffer holds a full receive window)
                  ('post.inv', 'dlc_inv(result) and len(result.recv_queue) == 0 and len(result.send_queue) == 0')],
         raises={ERR: []})

# C06 rests on "the data link connection is a FIFO": its SNEP/handover contracts are proved over an assumed socket
# model.  The per-operation contracts above are what justifies that model on each endpoint, so they are also
# obligations of C06 (a change in tco.py that breaks sequencing or acknowledgement handling breaks C06 there).
import copy as _copy
from pyvc.contracts import REGISTRY as _REG
for _c in list(_REG):
    if _c.prop == 'C05' and not _c.expect_fail:
        _c2 = _copy.copy(_c)
        _c2.prop = 'C06'
        _c2.name = 'C06/dlc.' + _c.name.split('/', 1)[1]
        _REG.append(_c2)

# what the application calls: Socket.send() -> llc.send()/sendto().  For a connection socket the link layer adds
# nothing to DataLinkConnection.send: the connection MIU the peer announced at CONNECT/CC stays what it is (it is
# NOT the link MIU), a message longer than it is refused with EMSGSIZE, an accepted one is queued unchanged.
L5 = 'nfc.llcp.llc:'
for _p5 in ('C05', 'C10'):
  for _fn, _args in (('send', {}), ('sendto', dict(dest=Opt(SAP())))):
    contract(L5 + 'LogicalLinkController.' + _fn, _p5,
             dict(self=Obj(L5 + 'LogicalLinkController', lock=Lock(), cfg=DictOf({'send-miu': Int(128, 2175)})),
                  socket=dlc(), message=Bytes(), flags=1, **_args),
             name=_p5 + '/llc.' + _fn, requires=['dlc_inv(socket)'],
             ensures=[('post.conn-miu', 'socket.send_miu == old(socket.send_miu)'),
                      ('post.fits', 'len(message) <= old(socket.send_miu)'),
                      ('post.queued', 'len(socket.send_queue) == old(len(socket.send_queue)) + 1 and '
                                      'socket.send_queue[-1].data == message')],
             raises={ERR: ['socket.send_miu == old(socket.send_miu)',
                           'len(socket.send_queue) == old(len(socket.send_queue))',
                           'implies(len(message) > old(socket.send_miu), exc.errno == EMSGSIZE)']})
