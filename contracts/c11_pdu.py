"""C11 - LLCP PDU encoding and decoding are mutually consistent.

Functions under contract: nfc/llcp/pdu.py encode/decode/__len__ of all PDU
types, Parameter.encode/decode, decode_header/encode_header (inlined), module
decode/encode.  Oracle: specs/llcp_frames.py.
"""
from .common import *   # noqa

P = 'nfc.llcp.pdu:'
DE = 'nfc.llcp.pdu:DecodeError'
EE = 'nfc.llcp.pdu:EncodeError'


def pdu_obj(cls, ptype, **f):
    return Obj(P + cls, ptype=ptype, dsap=f.pop('dsap', SAP()), ssap=f.pop('ssap', SAP()), **f)


# ------------------------------------------------------------------ O-enc/O-len
def enc(cls, ptype, fields, spec_call, extra_requires=(), name=None):
    contract(P + cls + '.encode', 'C11', dict(self=pdu_obj(cls, ptype, **fields)),
             name=name or ('C11/%s.encode' % cls),
             requires=list(extra_requires),
             ensures=[('O-enc', 'result == ' + spec_call),
                      ('O-len', 'len(self) == len(result)')],
             raises={})


enc('Symmetry', 0, dict(dsap=0, ssap=0), 'enc_symm()')
enc('ParameterExchange', 1,
    dict(dsap=0, ssap=0, _version=Opt(Byte()), _miux=Opt(Int(0, 0x7FF)), _wks=Opt(Int(0, 0xFFFF)),
         _lto=Opt(Byte()), _opt=Opt(Int(0, 7))),
    'enc_pax(self._version, self._miux, self._wks, self._lto, self._opt)')
enc('UnnumberedInformation', 3, dict(data=Bytes()), 'enc_ui(self.dsap, self.ssap, self.data)')
enc('Connect', 4, dict(miu=Int(128, 2175), rw=Int(0, 15), sn=Opt(Bytes(1, 255))),
    'enc_connect(self.dsap, self.ssap, self.miu, self.rw, self.sn)')
enc('Disconnect', 5, {}, 'enc_disc(self.dsap, self.ssap)')
enc('ConnectionComplete', 6, dict(miu=Int(128, 2175), rw=Int(0, 15)),
    'enc_cc(self.dsap, self.ssap, self.miu, self.rw)')
enc('DisconnectedMode', 7, dict(reason=Byte()), 'enc_dm(self.dsap, self.ssap, self.reason)')
enc('FrameReject', 8, dict(rej_flags=SEQ(), rej_ptype=SEQ(), ns=SEQ(), nr=SEQ(), vs=SEQ(), vr=SEQ(),
                           vsa=SEQ(), vra=SEQ()),
    'enc_frmr(self.dsap, self.ssap, self.rej_flags, self.rej_ptype, self.ns, self.nr, self.vs, self.vr,'
    ' self.vsa, self.vra)')
enc('DataProtectionSetup', 10, dict(dsap=0, ssap=0, ecpk=Opt(Bytes(1, 255)), rn=Opt(Bytes(1, 255))),
    'enc_dps(self.ecpk, self.rn)')
enc('Information', 12, dict(ns=SEQ(), nr=SEQ(), data=Bytes()),
    'enc_i(self.dsap, self.ssap, self.ns, self.nr, self.data)')
enc('ReceiveReady', 13, dict(ns=0, nr=SEQ()), 'enc_rr(self.dsap, self.ssap, self.nr)')
enc('ReceiveNotReady', 14, dict(ns=0, nr=SEQ()), 'enc_rnr(self.dsap, self.ssap, self.nr)')

# ------------------------------------------------------------------ O-rt
# decode(spec encoding of valid fields) gives back the type and the fields
contract('drivers.c11:rt_connect', 'C11',
         dict(dsap=SAP(), ssap=SAP(), miu=Int(128, 2175), rw=Int(0, 15), sn=Opt(Bytes(1, 255))),
         name='C11/Connect.roundtrip',
         ensures=[('O-rt.type', 'type(result).__name__ == "Connect"'),
                  ('O-rt.addr', 'result.dsap == dsap and result.ssap == ssap'),
                  ('O-rt.miu', 'result.miu == miu'),
                  ('O-rt.rw', 'result.rw == rw'),
                  ('O-rt.sn', 'result.sn == sn')],
         raises={})

contract('drivers.c11:rt_cc', 'C11', dict(dsap=SAP(), ssap=SAP(), miu=Int(128, 2175), rw=Int(0, 15)),
         name='C11/ConnectionComplete.roundtrip',
         ensures=[('O-rt.type', 'type(result).__name__ == "ConnectionComplete"'),
                  ('O-rt.addr', 'result.dsap == dsap and result.ssap == ssap'),
                  ('O-rt.miu', 'result.miu == miu'), ('O-rt.rw', 'result.rw == rw')],
         raises={})
contract('drivers.c11:rt_pax', 'C11',
         dict(version=Opt(Byte()), miux=Opt(Int(0, 0x7FF)), wks=Opt(Int(0, 0xFFFF)), lto=Opt(Byte()),
              opt=Opt(Int(0, 7))),
         name='C11/ParameterExchange.roundtrip',
         ensures=[('O-rt.type', 'type(result).__name__ == "ParameterExchange"'),
                  ('O-rt.fields', 'result._version == version and result._miux == miux and '
                                  'result._wks == wks and result._lto == lto and result._opt == opt')],
         raises={})
contract('drivers.c11:rt_dps', 'C11', dict(ecpk=Opt(Bytes(1, 255)), rn=Opt(Bytes(1, 255))),
         name='C11/DataProtectionSetup.roundtrip',
         ensures=[('O-rt.type', 'type(result).__name__ == "DataProtectionSetup"'),
                  ('O-rt.fields', 'result.ecpk == ecpk and result.rn == rn')],
         raises={})

# real encode followed by real decode, field by field (first sentence of C11)
for cls, ptype, fields, names in [
        ('Connect', 4, dict(miu=Int(128, 2175), rw=Int(0, 15), sn=Opt(Bytes(1, 255))), ['miu', 'rw', 'sn']),
        ('ConnectionComplete', 6, dict(miu=Int(128, 2175), rw=Int(0, 15)), ['miu', 'rw']),
        ('ParameterExchange', 1, dict(dsap=0, ssap=0, _version=Opt(Byte()), _miux=Opt(Int(0, 0x7FF)),
                                      _wks=Opt(Int(0, 0xFFFF)), _lto=Opt(Byte()), _opt=Opt(Int(0, 7))),
         ['_version', '_miux', '_wks', '_lto', '_opt']),
        ('UnnumberedInformation', 3, dict(data=Bytes()), ['data']),
        ('Information', 12, dict(ns=SEQ(), nr=SEQ(), data=Bytes()), ['ns', 'nr', 'data']),
        ('DisconnectedMode', 7, dict(reason=Byte()), ['reason']),
        ('ReceiveReady', 13, dict(ns=0, nr=SEQ()), ['nr']),
        ('ReceiveNotReady', 14, dict(ns=0, nr=SEQ()), ['nr']),
        ('Disconnect', 5, {}, []),
        ('Symmetry', 0, dict(dsap=0, ssap=0), []),
        ('FrameReject', 8, dict(rej_flags=SEQ(), rej_ptype=SEQ(), ns=SEQ(), nr=SEQ(), vs=SEQ(), vr=SEQ(),
                                vsa=SEQ(), vra=SEQ()),
         ['rej_flags', 'rej_ptype', 'ns', 'nr', 'vs', 'vr', 'vsa', 'vra']),
        ('DataProtectionSetup', 10, dict(dsap=0, ssap=0, ecpk=Opt(Bytes(1, 255)), rn=Opt(Bytes(1, 255))),
         ['ecpk', 'rn'])]:
    contract('drivers.c11:encode_decode', 'C11', dict(p=pdu_obj(cls, ptype, **fields)),
             name='C11/%s.encode_decode' % cls,
             ensures=[('O-rt.type', 'type(result).__name__ == "%s"' % cls),
                      ('O-rt.addr', 'result.dsap == p.dsap and result.ssap == p.ssap')] +
                     [('O-rt.' + f, 'result.%s == p.%s' % (f, f)) for f in names],
             raises={})

# ------------------------------------------------------------------ O-dec
TLV_LOOP = dict(invariant=['offset + size == old(offset) + 2 + old_size(old(data), old(offset), old(size)) - 2',
                           'offset >= old(offset) + 2'],
                decreases='size')


def tlv_loop(extra_havoc):
    h = {'offset': Int(), 'size': Int()}
    h.update(extra_havoc)
    return LoopSpec(havoc=h, **TLV_LOOP)


DEC_LOOPS = {
    ('nfc.llcp.pdu.ParameterExchange.decode', 'While', 0): tlv_loop({
        'pax_pdu._version': Any(), 'pax_pdu._miux': Any(), 'pax_pdu._wks': Any(), 'pax_pdu._lto': Any(),
        'pax_pdu._opt': Any()}),
    ('nfc.llcp.pdu.Connect.decode', 'While', 0): tlv_loop({
        'connect_pdu.miu': Any(), 'connect_pdu.rw': Any(), 'connect_pdu.sn': Any()}),
    ('nfc.llcp.pdu.ConnectionComplete.decode', 'While', 0): tlv_loop({'cc_pdu.miu': Any(), 'cc_pdu.rw': Any()}),
    ('nfc.llcp.pdu.ServiceNameLookup.decode', 'While', 0): tlv_loop({
        'snl_pdu.sdreq': ListOf(Any()), 'snl_pdu.sdres': ListOf(Any())}),
    ('nfc.llcp.pdu.DataProtectionSetup.decode', 'While', 0): tlv_loop({'dps_pdu.ecpk': Any(), 'dps_pdu.rn': Any()}),
    ('nfc.llcp.pdu.AggregatedFrame.decode', 'While', 0): tlv_loop({'agf_pdu._aggregate': ListOf(Any())}),
}

PT_NAMES = {0: 'SYMM', 1: 'PAX', 2: 'AGF', 3: 'UI', 4: 'CONNECT', 5: 'DISC', 6: 'CC', 7: 'DM', 8: 'FRMR',
            9: 'SNL', 10: 'DPS', 11: 'rsvd11', 12: 'I', 13: 'RR', 14: 'RNR', 15: 'rsvd15'}
DEC = dict(ensures=[('O-dec.valid', 'valid_frame(pdu_octets(data, offset, size))'),
                    ('O-dec.agrees', 'agrees(result, pdu_octets(data, offset, size))')],
           raises={DE: []},
           reads={'data': ('offset', 'own_end(data, offset, size)', {'data': 'pdu_octets(data, offset, size)', 'offset': '0'})},
           loops=DEC_LOOPS, use=['C11/decode'])
DEC_PARAMS = dict(data=Bytes(), offset=Int(0, None), size=Opt(Int()))
# Summary used at the recursive call site in AggregatedFrame.decode: raises
# and reads only.  It is justified by the case contracts below, whose
# preconditions are proved to cover every (data, offset, size).
contract(P + 'decode', 'C11', DEC_PARAMS, name='C11/decode',
         raises={DE: []}, reads=DEC['reads'], returns=Obj(P + 'ProtocolDataUnit'),
         cases=['C11/decode[short]', 'C11/decode[tiny]'] + ['C11/decode[%s]' % n for n in PT_NAMES.values()])
contract(P + 'decode', 'C11', DEC_PARAMS, name='C11/decode[short]', requires=['len(data) < offset + 2'], **DEC)
contract(P + 'decode', 'C11', DEC_PARAMS, name='C11/decode[tiny]', requires=['size is not None and size < 2'], **DEC)
for pt, nm in PT_NAMES.items():
    contract(P + 'decode', 'C11', DEC_PARAMS, name='C11/decode[%s]' % nm,
             requires=['len(data) >= offset + 2', 'hdr_ptype(data[offset:offset+2]) == %d' % pt], **DEC)

# ------------------------------------------------------------------ list-valued types (bounded)
SDREQ = lambda: Tup(Byte(), Bytes(0, 254))    # noqa
SDRES = lambda: Tup(Byte(), Byte())           # noqa
for nreq in range(3):
    for nres in range(3):
        if nreq + nres == 0 or nreq + nres > 3:
            continue
        b = 'bounded: %d SDREQ and %d SDRES entries, each fully symbolic' % (nreq, nres)
        contract(P + 'ServiceNameLookup.encode', 'C11',
                 dict(self=pdu_obj('ServiceNameLookup', 9, dsap=1, ssap=1,
                                   sdreq=Fixed([SDREQ() for _ in range(nreq)]),
                                   sdres=Fixed([SDRES() for _ in range(nres)]))),
                 name='C11/ServiceNameLookup.encode[%d,%d]' % (nreq, nres), bounded=b,
                 ensures=[('O-len', 'len(self) == len(result)'),
                          ('O-hdr', 'result[0:2] == hdr(1, SNL, 1)')], raises={})
        contract('drivers.c11:rt_snl', 'C11',
                 dict(reqs=Fixed([SDREQ() for _ in range(nreq)]), ress=Fixed([SDRES() for _ in range(nres)])),
                 name='C11/ServiceNameLookup.roundtrip[%d,%d]' % (nreq, nres), bounded=b,
                 ensures=[('O-rt.type', 'type(result).__name__ == "ServiceNameLookup"'),
                          ('O-rt.sdreq', 'result.sdreq == reqs'), ('O-rt.sdres', 'result.sdres == ress')],
                 raises={})

contract('drivers.c11:rt_agf', 'C11',
         dict(frames=Fixed([Bytes(2, 300), Bytes(2, 300)])),
         name='C11/AggregatedFrame.roundtrip[2]', bounded='bounded: 2 aggregated PDUs of symbolic content',
         requires=['valid_frame(frames[0]) and hdr_ptype(frames[0]) == UI',
                   'valid_frame(frames[1]) and hdr_ptype(frames[1]) == I'],
         ensures=[('O-rt.type', 'type(result).__name__ == "AggregatedFrame"'),
                  ('O-rt.count', 'len(result._aggregate) == 2'),
                  ('O-rt.first', 'agrees(result._aggregate[0], frames[0])'),
                  ('O-rt.second', 'agrees(result._aggregate[1], frames[1])')],
         raises={})
contract(P + 'AggregatedFrame.encode', 'C11',
         dict(self=pdu_obj('AggregatedFrame', 2, dsap=0, ssap=0, _aggregate=Fixed([
             pdu_obj('UnnumberedInformation', 3, data=Bytes()),
             pdu_obj('Information', 12, ns=SEQ(), nr=SEQ(), data=Bytes())]))),
         name='C11/AggregatedFrame.encode[2]', bounded='bounded: 2 aggregated PDUs (UI, I) of symbolic content',
         requires=['len(self._aggregate[0].data) + len(self._aggregate[1].data) < 60000'],
         ensures=[('O-len', 'len(self) == len(result)'),
                  ('O-enc', 'result == hdr(0, AGF, 0) + '
                            'enc_agf_entry(enc_ui(self._aggregate[0].dsap, self._aggregate[0].ssap, self._aggregate[0].data)) + '
                            'enc_agf_entry(enc_i(self._aggregate[1].dsap, self._aggregate[1].ssap, self._aggregate[1].ns, '
                            'self._aggregate[1].nr, self._aggregate[1].data))')],
         raises={})

# one aggregated PDU of every type whose octets the independent reading can judge (fixed-format types with any
# content; CONNECT/CC without parameters): the AGF decoder hands over exactly that PDU - in particular the
# "no AGF inside an AGF" guard looks at the PTYPE bits and nothing else (any DSAP/SSAP)
for _pt, _nm in PT_NAMES.items():
    if _nm in ('SYMM', 'PAX', 'AGF', 'SNL', 'DPS'):
        continue
    _extra = ['len(frames[0]) == 2'] if _nm in ('CONNECT', 'CC') else []
    contract('drivers.c11:rt_agf', 'C11', dict(frames=Fixed([Bytes(2, 300)])),
             name='C11/AggregatedFrame.roundtrip[1,%s]' % _nm,
             bounded='bounded: 1 aggregated PDU of symbolic content',
             requires=['valid_frame(frames[0]) and hdr_ptype(frames[0]) == %d' % _pt] + _extra,
             ensures=[('O-rt.type', 'type(result).__name__ == "AggregatedFrame"'),
                      ('O-rt.count', 'len(result._aggregate) == 1'),
                      ('O-rt.first', 'agrees(result._aggregate[0], frames[0])')],
             raises={})

# ------------------------------------------------------------------ sentinels (must fail)
contract(P + 'Connect.encode', 'C11',
         dict(self=pdu_obj('Connect', 4, miu=Int(128, 2175), rw=Int(0, 15), sn=Opt(Bytes(1, 255)))),
         name='C11/sentinel.len-off-by-one', expect_fail=True,
         ensures=[('O-len', 'len(self) + 1 == len(result)')], raises={})
contract(P + 'decode', 'C11', DEC_PARAMS, name='C11/sentinel.reads-too-narrow', expect_fail=True,
         requires=['len(data) >= offset + 2', 'hdr_ptype(data[offset:offset+2]) == 3'],
         reads={'data': ('offset', 'own_end(data, offset, size) - 1')}, raises={DE: []})
contract(P + 'decode', 'C11', DEC_PARAMS, name='C11/sentinel.raises-nothing', expect_fail=True,
         requires=['len(data) >= offset + 2', 'hdr_ptype(data[offset:offset+2]) == 7'], raises={})

# C10 bounds the information field by len(pdu) (what collect()/dequeue() compute with) and calls aggregation
# transparent; both rest on what is proved here: len(pdu) is the length of the encoding, and a PDU decoded at any
# offset of a frame agrees with the independent reading.  Those contracts are therefore obligations of C10 too.
import copy as _copy
from pyvc.contracts import REGISTRY as _REG
for _c in list(_REG):
    _short = _c.name.split('/', 1)[1]
    if _c.prop == 'C11' and not _c.expect_fail and (not _c.bounded or _short.startswith('AggregatedFrame.roundtrip')) \
            and (_short.endswith('.encode') or _short.startswith('decode[') or _short.startswith('AggregatedFrame.')):
        # ... and of every property stated above the PDU layer: C06 (SNEP/handover octets intact through I PDUs,
        # also when the link aggregates them), C05 (I PDU payload and sequence fields), C17 (UI payload and addresses)
        for _prop in ('C10', 'C06', 'C05', 'C17'):
            _c2 = _copy.copy(_c)
            _c2.prop = _prop
            _c2.name = _prop + '/pdu.' + _short
            _REG.append(_c2)

# the numeric TLVs (VERSION, MIUX, WKS, LTO, RW, OPT) as every PDU decoder reads them: the value handed on is the
# independent reading of the value octets - reserved bits never leak into a MIU, a window or an option field.
# Obligation of C11 (decoding agrees with an independent reading), C10/C19 (the peer's MIUX is what the sending
# limits are built from) and C07.
for _prop in ('C11', 'C10', 'C19', 'C07'):
    contract(P + 'Parameter.decode', _prop,
             dict(data=Bytes(0, 64), offset=Int(0, 60), size=Opt(Int(0, 64))),
             name='%s/Parameter.decode.numeric' % _prop,
             requires=['len(data) >= offset + 2', 'data[offset] in (1, 2, 3, 4, 5, 7)'],
             ensures=[('O-tlv.value', 'result[0] == data[offset] and result[1] == data[offset + 1] and '
                                      'result[2] == tlv_numeric(data[offset], data[offset + 2:offset + 2 + data[offset + 1]])'),
                      ('O-tlv.length', 'result[1] == (2 if data[offset] in (2, 3) else 1)')],
             raises={DE: []})
