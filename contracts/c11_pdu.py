"""C11 - LLCP PDU encoding and decoding are mutually consistent.

Functions under contract: nfc/llcp/pdu.py encode/decode/__len__ of all PDU
types, Parameter.encode/decode, decode_header/encode_header (inlined), module
decode/encode.  Oracle: specs/llcp_frames.py.
"""
from .common import *   # noqa

P = 'nfc.llcp.pdu:'
DE = 'nfc.llcp.pdu:DecodeError'
EE = 'nfc.llcp.pdu:EncodeError'


def pdu_obj(cls, ptype, **f):
    return Obj(P + cls, ptype=ptype, dsap=f.pop('dsap', SAP()), ssap=f.pop('ssap', SAP()), **f)


# ------------------------------------------------------------------ O-enc/O-len
def enc(cls, ptype, fields, spec_call, extra_requires=(), name=None):
    contract(P + cls + '.encode', 'C11', dict(self=pdu_obj(cls, ptype, **fields)),
             name=name or ('C11/%s.encode' % cls),
             requires=list(extra_requires),
             ensures=[('O-enc', 'result == ' + spec_call),
                      ('O-len', 'len(self) == len(result)')],
             raises={})


enc('Symmetry', 0, dict(dsap=0, ssap=0), 'enc_symm()')
enc('ParameterExchange', 1,
    dict(dsap=0, ssap=0, _version=Opt(Byte()), _miux=Opt(Int(0, 0x7FF)), _wks=Opt(Int(0, 0xFFFF)),
         _lto=Opt(Byte()), _opt=Opt(Int(0, 7))),
    'enc_pax(self._version, self._miux, self._wks, self._lto, self._opt)')
enc('UnnumberedInformation', 3, dict(data=Bytes()), 'enc_ui(self.dsap, self.ssap, self.data)')
enc('Connect', 4, dict(miu=Int(128, 2175), rw=Int(0, 15), sn=Opt(Bytes(1, 255))),
    'enc_connect(self.dsap, self.ssap, self.miu, self.rw, self.sn)')
enc('Disconnect', 5, {}, 'enc_disc(self.dsap, self.ssap)')
enc('ConnectionComplete', 6, dict(miu=Int(128, 2175), rw=Int(0, 15)),
    'enc_cc(self.dsap, self.ssap, self.miu, self.rw)')
enc('DisconnectedMode', 7, dict(reason=Byte()), 'enc_dm(self.dsap, self.ssap, self.reason)')
enc('FrameReject', 8, dict(rej_flags=SEQ(), rej_ptype=SEQ(), ns=SEQ(), nr=SEQ(), vs=SEQ(), vr=SEQ(),
                           vsa=SEQ(), vra=SEQ()),
    'enc_frmr(self.dsap, self.ssap, self.rej_flags, self.rej_ptype, self.ns, self.nr, self.vs, self.vr,'
    ' self.vsa, self.vra)')
enc('DataProtectionSetup', 10, dict(dsap=0, ssap=0, ecpk=Opt(Bytes(1, 255)), rn=Opt(Bytes(1, 255))),
    'enc_dps(self.ecpk, self.rn)')
enc('Information', 12, dict(ns=SEQ(), nr=SEQ(), data=Bytes()),
    'enc_i(self.dsap, self.ssap, self.ns, self.nr, self.data)')
enc('ReceiveReady', 13, dict(ns=0, nr=SEQ()), 'enc_rr(self.dsap, self.ssap, self.nr)')
enc('ReceiveNotReady', 14, dict(ns=0, nr=SEQ()), 'enc_rnr(self.dsap, self.ssap, self.nr)')

# ------------------------------------------------------------------ O-rt
# decode(spec encoding of valid fields) gives back the type and the fields
contract('drivers.c11:rt_connect', 'C11',
         dict(dsap=SAP(), ssap=SAP(), miu=Int(128, 2175), rw=Int(0, 15), sn=Opt(Bytes(1, 255))),
         name='C11/Connect.roundtrip',
         ensures=[('O-rt.type', 'type(result).__name__ == "Connect"'),
                  ('O-rt.addr', 'result.dsap == dsap and result.ssap == ssap'),
                  ('O-rt.miu', 'result.miu == miu'),
                  ('O-rt.rw', 'result.rw == rw'),
                  ('O-rt.sn', 'result.sn == sn')],
         raises={})
