"""C01 / C02 / C03 - NDEF write/read round trip, interrupted writes, write frame (ghost tag memory)."""
from .common import *   # noqa

T3 = 'nfc.tag.tt3:'
T3Q = 'nfc.tag.tt3.Type3Tag.NDEF._write_ndef_data'


def t3tag():
    return Obj('models.tag_models:T3NdefTag', _partial=False, sys=0x12FC, mem=Bytes(32, None), mem0=Ref('self._tag.mem'),
               nblocks=Int(2, 65536), goal=Ref('data'), writes=0)


WELL_FORMED_T3 = ['t3_attr_valid(self._tag.mem)', 'len(self._tag.mem) == 16 * self._tag.nblocks',
                  'self._tag.mem[2] >= 1 and self._tag.mem[1] >= 1',                 # Nbw >= 1, Nbr >= 1
                  't3_nmaxb(self._tag.mem) + 1 <= self._tag.nblocks',                # the tag has the declared blocks
                  'self._tag.mem[10] != 0',                                          # RWFlag: writeable
                  'self._tag.mem[5:9] == bytes(4)']                                  # RFU octets are zero
W = 'min(_k * nbw, last_block_number - 1)'
for prop, oblig in (('C01', 'O-write'), ('C02', 'O-cut'), ('C03', 'O-frame')):
    ens = {'C01': [('O-write.view', 'view_is(t3_view(self._tag.mem), old(bytes(data)))'),
                   ('O-write.ok', 'result == True')],
           'C02': [('O-cut.final', 'cut_ok(t3_view(self._tag.mem), t3_view(self._tag.mem0), old(bytes(data)))')],
           'C03': [('O-frame.beyond', 'self._tag.mem[16 * (1 + t3_nmaxb(self._tag.mem0)):] == '
                                      'self._tag.mem0[16 * (1 + t3_nmaxb(self._tag.mem0)):]'),
                   ('O-frame.attr', 'self._tag.mem[0:9] == self._tag.mem0[0:9] and '
                                    'self._tag.mem[10] == self._tag.mem0[10]')]}[prop]
    contract(T3 + 'Type3Tag.NDEF._write_ndef_data', prop,
             dict(self=Obj(T3 + 'Type3Tag.NDEF', _partial=False, _data=None, _capacity=0, _readable=False,
                           _writeable=False, _tag=t3tag()),
                  data=Bytes(0, None, mutable=True)),
             name='%s/tt3._write_ndef_data' % prop,
             requires=WELL_FORMED_T3 + ['len(data) <= 16 * t3_nmaxb(self._tag.mem)'],
             ensures=ens, raises={}, budget_s=1800,
             loops={(T3Q, 'For', 0): LoopSpec(
                 invariant=['self._tag.mem == self._tag.mem[0:16] + bytes(data[0:16 * (%s)]) + '
                            'self._tag.mem0[16 * (1 + %s):]' % (W, W),
                            'self._tag.mem[0:9] == self._tag.mem0[0:9] and self._tag.mem[9] == 0x0F and '
                            'self._tag.mem[10:14] == self._tag.mem0[10:14] and t3_attr_valid(self._tag.mem)',
                            'len(data) == 16 * (last_block_number - 1)'],
                 havoc={'self._tag.mem': 'self._tag.mem[0:16] + bytes(data[0:16 * (%s)]) + '
                                         'self._tag.mem0[16 * (1 + %s):]' % (W, W),
                        'self._tag.writes': Int(0, None)})})

# a fresh reader returns exactly the message the independent reading finds in the tag memory
T3R = 'nfc.tag.tt3.Type3Tag.NDEF._read_ndef_data'
WR = 'min(_k * nbr, last_block_number - 1)'
contract(T3 + 'Type3Tag.NDEF._read_ndef_data', 'C01',
         dict(self=Obj(T3 + 'Type3Tag.NDEF', _partial=False, _data=None, _capacity=0, _readable=False,
                       _writeable=False, _tag=Obj('models.tag_models:T3NdefTag', _partial=False, sys=0x12FC,
                                                  mem=Bytes(32, None), mem0=Ref('self._tag.mem'),
                                                  nblocks=Int(2, 65536), goal=None, writes=0))),
         name='C01/tt3._read_ndef_data',
         requires=WELL_FORMED_T3[:4] + ['t3_view(self._tag.mem) != NOT_READABLE', 't3_view(self._tag.mem) != NO_NDEF'],
         ensures=[('O-read.view', 'result == t3_view(self._tag.mem)'),
                  ('O-read.capacity', 'self._capacity == 16 * t3_nmaxb(self._tag.mem) and len(result) <= self._capacity'),
                  ('O-read.no-write', 'self._tag.writes == 0 and self._tag.mem == self._tag.mem0')],
         raises={},
         loops={(T3R, 'For', 0): LoopSpec(
             invariant=['data == self._tag.mem[16:16 * (1 + %s)]' % WR],
             havoc={'data': 'bytearray(self._tag.mem[16:16 * (1 + %s)])' % WR})})
# data longer than the capacity is refused before any command is sent (all tag types share the setter)
contract('nfc.tag:Tag.NDEF.octets', 'C01',
         dict(self=Obj(T3 + 'Type3Tag.NDEF', _partial=False, _data=None, _capacity=Int(0, None), _readable=Bool(),
                       _writeable=Bool(),
                       _tag=Obj('models.tag_models:T3NdefTag', _partial=False, sys=0x12FC, mem=Bytes(32, None),
                                mem0=Ref('self._tag.mem'), nblocks=Int(2, 65536), goal=None, writes=0)),
              data=Bytes(0, None)),
         name='C01/octets.too-long', call='setter', requires=['len(data) > self._capacity'],
         ensures=[('post', 'False')],
         raises={'ValueError': ['self._tag.writes == 0 and self._tag.mem == self._tag.mem0'],
                 'AttributeError': ['self._tag.writes == 0']})

# ---------------------------------------------------------------- Type 4
T4 = 'nfc.tag.tt4:'
T4W = 'nfc.tag.tt4.Type4Tag.NDEF._write_ndef_data'


def t4_self(file_shape, **kw):
    d = dict(_partial=False, _nlen_size=OneOf(2, 4), _max_lc=Int(1, 255), _max_le=Int(1, 256),
             _capacity=Int(0, 65536),
             _tag=Obj(T4 + 'Type4Tag', _partial=False, _extended_length_support=False,
                      _dep=Obj('models.tag_models:T4FileCard', _partial=False, file=file_shape,
                               cc=kw.pop('cc', Bytes(15, 17)), selected=kw.pop('selected', 2),
                               file0=Ref('self._tag._dep.file'), nlen_size=Ref('self._nlen_size'),
                               mlc=Ref('self._max_lc'), mle=Ref('self._max_le'), goal=kw.pop('goal', Ref('data')),
                               writes=0, reads=0, check_cut=kw.pop('check_cut', False))))
    d.update(kw)
    return Obj(T4 + 'Type4Tag.NDEF', **d)


# object invariant of a discovered NDEF (established by _discover_ndef, contract below): short-APDU limits,
# file size = NLEN field + capacity, at most the 65536 octets a 16-bit offset addresses
T4_INV = ['len(self._tag._dep.file) == self._nlen_size + self._capacity',
          'self._nlen_size + self._capacity <= 65536']
F = 'self._tag._dep.file'
F0 = 'self._tag._dep.file0'
for prop in ('C01', 'C02', 'C03'):
    ens = {'C01': [('O-write.view', 'view_is(t4_view(%s, self._nlen_size), old(bytes(data)))' % F)],
           'C02': [('O-cut.final', 'cut_ok(t4_view(%s, self._nlen_size), t4_view(%s, self._nlen_size), '
                                   'old(bytes(data)))' % (F, F0))],
           'C03': [('O-frame.size', 'len(%s) == len(%s)' % (F, F0)),
                   ('O-frame.beyond', '%s[self._nlen_size + old(len(data)):] == '
                                      '%s[self._nlen_size + old(len(data)):]' % (F, F0))]}[prop]
    # C02: a card whose MLc is smaller than the NLEN field cannot commit a length atomically with any command
    # sequence, so the cut-point obligation is stated for MLc >= NLEN size (C01 and C03 keep every MLc >= 1)
    extra = ['self._max_lc >= self._nlen_size'] if prop == 'C02' else []
    contract(T4 + 'Type4Tag.NDEF._write_ndef_data', prop,
             dict(self=t4_self(Bytes(2, 65536), check_cut=(prop == 'C02')), data=Bytes(0, None, mutable=True)),
             name='%s/tt4._write_ndef_data' % prop,
             requires=T4_INV + ['len(data) <= self._capacity',
                                't4_view(%s, self._nlen_size) != NO_NDEF' % F] + extra,
             ensures=ens, raises={}, budget_s=1800,
             loops={(T4W, 'While', 0): LoopSpec(
                 invariant=['%s == bytes(data[0:offset]) + %s[offset:]' % (F, F0),
                            'offset >= 0 and offset <= len(data)',
                            'len(data) == self._nlen_size + old(len(data))'],
                 decreases='len(data) - offset',
                 havoc={'offset': Int(0, None),
                        F: 'bytes(data[0:offset]) + %s[offset:]' % F0,
                        'self._tag._dep.writes': Int(0, None)}),
                 (T4W, 'While', 1): LoopSpec(
                 invariant=['nlen is None or %s == bytes(nlen[0:offset]) + bytes(data[offset:]) + %s[len(data):]'
                            % (F, F0),
                            'nlen is None or (offset >= 0 and offset <= len(nlen))',
                            'nlen is None or self._max_lc < self._nlen_size or offset == 0 or offset == len(nlen)'],
                 decreases='len(nlen) - offset',
                 havoc={'offset': Int(0, None),
                        F: '%s if nlen is None else bytes(nlen[0:offset]) + bytes(data[offset:]) + %s[len(data):]' % (F, F0),
                        'self._tag._dep.writes': Int(0, None)})})

T4R = 'nfc.tag.tt4.Type4Tag.NDEF._read_ndef_data'
contract(T4 + 'Type4Tag.NDEF._read_ndef_data', 'C01',
         dict(self=t4_self(Bytes(2, 65536), _ndef_file=Bytes(2, 2), _aid=Bytes(7, 7), _max_le=Int(15, 256),   # T4T: MLe is 000Fh..FFFFh
                          
                           _data=None, _readable=Bool(), _writeable=Bool(), goal=None, selected=Int(0, 2))),
         name='C01/tt4._read_ndef_data',
         requires=T4_INV + ['t4_view(%s, self._nlen_size) != NO_NDEF' % F, 't4_cc_valid(self._tag._dep.cc)',
                            'self._ndef_file == self._tag._dep.cc[9:11]', 'self._aid == b"\\xD2\\x76\\x00\\x00\\x85\\x01\\x01"'],
         ensures=[('O-read.selected', 'self._tag._dep.selected == 2'),
                  ('O-read.view', 'result == t4_view(%s, self._nlen_size)' % F),
                  ('O-read.capacity', 'len(result) <= self._capacity'),
                  ('O-read.no-write', 'self._tag._dep.writes == 0 and %s == %s' % (F, F0))],
         raises={},
         loops={(T4R, 'While', 0): LoopSpec(
             invariant=['data == %s[self._nlen_size:self._nlen_size + len(data)]' % F, 'len(data) <= nlen',
                        'nlen == t4_nlen(%s, self._nlen_size)' % F],
             decreases='nlen - len(data)',
             havoc={'_n': Int(0, None), 'data': 'bytearray(%s[self._nlen_size:self._nlen_size + _n])' % F,
                    'self._tag._dep.reads': Int(0, None)})})
T4P = 'nfc.tag.tt4.Type4Tag.NDEF._wipe_ndef_data'
contract(T4 + 'Type4Tag.NDEF._wipe_ndef_data', 'C03',
         dict(self=t4_self(Bytes(2, 65536), goal=None), wipe=Int(None, None)),
         name='C03/tt4._wipe_ndef_data', requires=T4_INV,
         ensures=[('O-frame.size', 'len(%s) == len(%s)' % (F, F0)),
                  ('O-frame.empty', 'view_is(t4_view(%s, self._nlen_size), b"")' % F)],
         raises={},
         loops={(T4P, 'While', 0): LoopSpec(
             invariant=['offset >= 0 and offset <= len(nlen)', 'len(%s) == len(%s)' % (F, F0),
                        '%s[0:offset] == bytes(offset)' % F],
             decreases='len(nlen) - offset',
             havoc={'offset': Int(0, None), F: Bytes(0, None), 'self._tag._dep.writes': Int(0, None)}),
                (T4P, 'While', 1): LoopSpec(
             invariant=['offset >= self._nlen_size and offset <= max(self._capacity, self._nlen_size)',
                        'len(data) == self._capacity', 'len(%s) == len(%s)' % (F, F0),
                        '%s[0:self._nlen_size] == bytes(self._nlen_size)' % F],
             decreases='self._capacity - offset',
             havoc={'offset': Int(0, None), F: Bytes(0, None), 'self._tag._dep.writes': Int(0, None)})})

# discovery: on a card with a well-formed CC the NDEF object takes the file's real limits (the object
# invariant T4_INV the read/write contracts start from) and never reports more capacity than the file holds
for _prop in ('C01', 'C02', 'C03'):      # C02/C03: the object invariant their write contracts start from
    contract(T4 + 'Type4Tag.NDEF._discover_ndef', _prop,
             dict(self=Obj(T4 + 'Type4Tag.NDEF', _partial=False, _data=None, _capacity=0, _readable=False,
                           _writeable=False,
                           _tag=Obj(T4 + 'Type4Tag', _partial=False, _extended_length_support=False,
                                    _dep=Obj('models.tag_models:T4FileCard', _partial=False, file=Bytes(0, None),
                                             file0=Ref('self._tag._dep.file'), cc=Bytes(15, 17),
                                             selected=Int(0, 2), nlen_size=Int(2, 4), mlc=Int(1, 65535),
                                             mle=Int(15, 65535), goal=None, writes=0, reads=0, check_cut=False)))),
             name='%s/tt4._discover_ndef' % _prop,
             requires=['t4_cc_valid(self._tag._dep.cc)', 'self._tag._dep.mle == t4_cc_mle(self._tag._dep.cc)',
                       'self._tag._dep.mlc == t4_cc_mlc(self._tag._dep.cc)',
                       'len(%s) == t4_cc_mfs(self._tag._dep.cc)' % F,
                       'self._tag._dep.nlen_size == self._tag._dep.cc[7] - 2',
                       'len(%s) >= self._tag._dep.nlen_size' % F],
             ensures=[('O-discover.ok', 'result == True'),
                      ('O-discover.nlen', 'self._nlen_size == self._tag._dep.nlen_size'),
                      ('O-discover.capacity', 'self._capacity >= 0 and self._nlen_size + self._capacity <= len(%s) '
                                              'and self._nlen_size + self._capacity <= 65536' % F),
                      ('O-discover.capacity-full', 'implies(len(%s) <= 65536, '
                                                   'self._nlen_size + self._capacity == len(%s))' % (F, F)),
                      ('O-discover.limits', '1 <= self._max_lc and self._max_lc <= min(self._tag._dep.mlc, 255) and '
                                            '15 <= self._max_le and self._max_le <= min(self._tag._dep.mle, 256)'),
                      ('O-discover.file', 'self._ndef_file == self._tag._dep.cc[9:11]'),
                      ('O-discover.no-write', 'self._tag._dep.writes == 0')],
             raises={})

# ---------------------------------------------------------------- Type 2 (write path, layouts whose reserved
# range does not touch the NDEF TLV: lock/reserved octets before the TLV or behind the data area)
T2 = 'nfc.tag.tt2:'
T2W = 'nfc.tag.tt2.Type2Tag.NDEF._write_ndef_data'


def t2_setup(ex, env):
    from pyvc.values import SSet
    img = env['self'].fields['_tag_memory']
    st = SSet()
    st.ranges.append((img.fields['a'], img.fields['b']))
    env['self'].fields['_skip_bytes'] = st


IMG = 'self._tag_memory'
for prop in ('C01', 'C03'):      # C02 for Type 2 stays a bounded stand-in: the cut-point queries over
    # img[0:4j] + mem[4j:] with a symbolic j did not discharge within the budget (DESIGN A.4)
    ens = {'C01': [('O-write.view', 'view_is(t12_view(%s.mem, %s.off, %s.end, %s.a, %s.b), old(bytes(data)))'
                                    % ((IMG,) * 5)),
                   ('O-write.flushed', '%s.mem == %s.img' % (IMG, IMG))],
           'C02': [('O-cut.final', 'cut_ok(t12_view(%s.mem, %s.off, %s.end, %s.a, %s.b), '
                                   't12_view(%s.mem0, %s.off, %s.end, %s.a, %s.b), old(bytes(data)))' % ((IMG,) * 10))],
           'C03': [('O-frame.before', '%s.mem[0:%s.off + 1] == %s.mem0[0:%s.off + 1]' % ((IMG,) * 4)),
                   ('O-frame.behind', '%s.mem[%s.end:] == %s.mem0[%s.end:]' % ((IMG,) * 4))]}[prop]
    contract(T2 + 'Type2Tag.NDEF._write_ndef_data', prop,
             dict(self=Obj(T2 + 'Type2Tag.NDEF', _partial=False, _data=None, _capacity=Int(0, None), _readable=True,
                           _writeable=True, _tag=None, _ndef_tlv_offset=Int(16, 2060), _skip_bytes=None,
                           _tag_memory=Obj('models.tag_models:TagImage', _partial=False, img=Bytes(64, None),
                                           mem=Ref('self._tag_memory.img'), mem0=Ref('self._tag_memory.img'),
                                           off=Ref('self._ndef_tlv_offset'), end=Int(16, 2056), a=Int(0, 0x80000),
                                           b=Int(0, 0x80000), unit=4, goal=Ref('data'), syncs=0,
                                           check_cut=(prop == 'C02'), inside=False)),
                  data=Bytes(0, None, mutable=True)),
             name='%s/tt2._write_ndef_data' % prop, setup=t2_setup,
             requires=['%s.end == %s.img[14] * 8 + 16 and %s.end <= len(%s.img)' % ((IMG,) * 4),
                       'len(%s.img) %% 4 == 0' % IMG,
                       't12_view(%s.img, %s.off, %s.end, %s.a, %s.b) != NO_NDEF' % ((IMG,) * 5),
                       # the reserved range does not touch the NDEF TLV
                       '%s.a >= %s.b or %s.b <= %s.off or %s.a >= %s.end' % ((IMG,) * 6),
                       # the message fits: capacity as the reader computed it
                       'len(data) + (2 if len(data) < 255 else 4) <= %s.end - %s.off' % (IMG, IMG)],
             ensures=ens, raises={},
             loops={(T2W, 'For', 0): LoopSpec(
                 entry={'_s': 'offset', '_c': 'bytes(self._tag_memory.img)'},
                 invariant=['offset == _s', '%s.img == _c[0:_s] + bytes(data[0:_k]) + _c[_s + _k:]' % IMG,
                            '%s.mem == _c' % IMG],
                 havoc={'offset': Int(0, None), '%s.img' % IMG: '_c[0:_s] + bytes(data[0:_k]) + _c[_s + _k:]'}),
                    (T2W, 'While', 0): LoopSpec(entry={'_o': 'offset'}, invariant=['offset == _o'],
                                                 decreases='0x80000 - (offset + index)', havoc={'offset': Int(0, None)}),
                    (T2W, 'While', 1): LoopSpec(entry={'_o': 'offset'},
                                                 invariant=['offset == _o or offset > %s.end' % IMG],
                                                 decreases='0x80000 - offset', havoc={'offset': Int(0, None)})},
             # the reserved range does not touch the message area, so the skip jumps inside the data loop never run
             idle_loops=['_write_ndef_data/loop:While0'])

# ---------------------------------------------------------------- the real Type 2 memory reader refines TagImage
# abstraction: img(self) = _data_in_cache + tag.mem[len(_data_in_cache):]; representation invariant RI: both
# arrays have the same length (a multiple of 16), _data_from_tag is the tag memory prefix of that length
RD = 'nfc.tag.tt2.Type2TagMemoryReader'
RI = ['len(self._data_in_cache) == len(self._data_from_tag)', 'len(self._data_from_tag) % 16 == 0',
      'len(self._data_from_tag) <= len(self._tag.mem)', 'len(self._tag.mem) % 16 == 0',
      'self._data_from_tag == self._tag.mem[0:len(self._data_from_tag)]']
IMGX = 'bytes(self._data_in_cache) + self._tag.mem[len(self._data_in_cache):]'
RDR2 = lambda: Obj(T2 + 'Type2TagMemoryReader', _partial=False, _data_from_tag=Bytes(0, None, mutable=True),   # noqa
                   _data_in_cache=Bytes(0, None, mutable=True),
                   _tag=Obj('models.tag_models:T2PageTag', _partial=False, mem=Bytes(64, None), cur=Int(0, 255),
                            writes=0, lossy=False))
RLOOP = {(RD + '._read_from_tag', 'While', 0): LoopSpec(
    entry={'_i0': IMGX, '_m0': 'self._tag.mem'},
    invariant=RI + ['index == len(self._data_from_tag) or index == (len(self._data_from_tag) >> 4) << 4',
                    '%s == _i0' % IMGX, 'self._tag.mem == _m0', 'stop <= len(self._tag.mem)'],
    decreases='stop - index',
    havoc={'index': Int(0, None), 'self._data_from_tag': Bytes(0, None, mutable=True),
           'self._data_in_cache': Bytes(0, None, mutable=True), 'self._tag.cur': Int(0, 255)})}
contract(T2 + 'Type2TagMemoryReader.__getitem__', 'C01', dict(self=RDR2(), key=Int(0, None)),
         name='C01/tt2.reader.getitem', requires=RI + ['key < len(self._tag.mem)'],
         ensures=[('O-refine.ri', ' and '.join('(%s)' % x for x in RI)),
                  ('O-refine.result', 'result == old(%s)[key]' % IMGX),
                  ('O-refine.image', '%s == old(%s)' % (IMGX, IMGX)),
                  ('O-refine.no-write', 'self._tag.writes == 0 and self._tag.mem == old(self._tag.mem)')],
         raises={}, loops=RLOOP)
contract(T2 + 'Type2TagMemoryReader.__setitem__', 'C01', dict(self=RDR2(), key=Int(0, None), value=Byte()),
         name='C01/tt2.reader.setitem', requires=RI + ['key < len(self._tag.mem)'],
         ensures=[('O-refine.ri', ' and '.join('(%s)' % x for x in RI)),
                  ('O-refine.image', '%s == old(%s)[0:key] + bytes([value]) + old(%s)[key + 1:]' % (IMGX, IMGX, IMGX)),
                  ('O-refine.no-write', 'self._tag.writes == 0 and self._tag.mem == old(self._tag.mem)')],
         raises={}, loops=RLOOP)
contract(T2 + 'Type2TagMemoryReader.synchronize', 'C01', dict(self=RDR2()),
         name='C01/tt2.reader.synchronize', requires=RI + ['len(self._tag.mem) <= 0x40000'],   # all 256 sectors
         ensures=[('O-refine.ri', ' and '.join('(%s)' % x for x in RI)),
                  ('O-refine.flushed', 'self._tag.mem == old(%s)' % IMGX),
                  ('O-refine.image', '%s == old(%s)' % (IMGX, IMGX))],
         raises={},
         loops={(RD + '._write_to_tag', 'While', 0): LoopSpec(
             entry={'_S': 'self._tag.mem', '_C': 'bytes(self._data_in_cache)'},
             # every state the tag goes through is cache[0:4j] + S[4j:] - the shape TagImage.synchronize() assumes
             invariant=['index % 4 == 0 and index >= 0 and index <= stop + 3', 'stop == len(_C)',
                        'bytes(self._data_in_cache) == _C', 'len(self._data_from_tag) == len(_C)',
                        'self._tag.mem == _C[0:index] + _S[index:]',
                        'self._data_from_tag == _C[0:index] + _S[index:len(_C)]', 'len(_C) % 16 == 0',
                        'len(_C) <= len(_S)'],
             decreases='stop - index',
             havoc={'index': Int(0, None), 'self._tag.mem': '_C[0:index] + _S[index:]',
                    'self._data_from_tag': 'bytearray(_C[0:index] + _S[index:len(_C)])',
                    'self._tag.cur': Int(0, 255), 'self._tag.writes': Int(0, None)})})
contract(T2 + 'Type2TagMemoryReader.__setitem__', 'C01',
         dict(self=RDR2(), key=SliceOf(Int(0, None), Int(0, None)), value=Bytes(0, 8)),
         name='C01/tt2.reader.setitem.slice',
         requires=RI + ['key.start <= key.stop and key.stop <= len(self._tag.mem)', 'len(value) == key.stop - key.start',
                        'len(self._tag.mem) <= 0x100000'],
         ensures=[('O-refine.ri', ' and '.join('(%s)' % x for x in RI)),
                  ('O-refine.image', '%s == old(%s)[0:key.start] + bytes(value) + old(%s)[key.stop:]'
                                     % (IMGX, IMGX, IMGX)),
                  ('O-refine.no-write', 'self._tag.writes == 0 and self._tag.mem == old(self._tag.mem)')],
         raises={}, loops=RLOOP)

# ---------------------------------------------------------------- control TLV helpers of Type 1 and Type 2
# the address range a lock / memory control TLV reserves, against the independent reading of the TLV value, for
# every value (these ranges become the skip set of reader and writer: C01 capacity, C03 frame, C08 data area)
for _m in ('tt1', 'tt2'):
    for _prop in ('C01', 'C03', 'C08'):
        contract('nfc.tag.%s:get_lock_byte_range' % _m, _prop, dict(data=Bytes(3, 3, mutable=True)),
                 name='%s/%s.get_lock_byte_range' % (_prop, _m),
                 ensures=[('O-ctl.range', 'result.start == ctl_tlv_start(data) and '
                                          'result.stop == ctl_tlv_start(data) + lock_tlv_size(data)')],
                 raises={})
        contract('nfc.tag.%s:get_rsvd_byte_range' % _m, _prop, dict(data=Bytes(3, 3, mutable=True)),
                 name='%s/%s.get_rsvd_byte_range' % (_prop, _m),
                 ensures=[('O-ctl.range', 'result.start == ctl_tlv_start(data) and '
                                          'result.stop == ctl_tlv_start(data) + rsvd_tlv_size(data)')],
                 raises={})

# ---------------------------------------------------------------- Type 1 (write path; the reserved range either does
# not touch the message area or covers its tail - the static memory layout: lock/OTP octets 104..119 of a 120 octet
# tag; dynamic memory tags always have 104..127 inside the area and stay bounded)
T1M = 'nfc.tag.tt1:'
T1W = 'nfc.tag.tt1.Type1Tag.NDEF._write_ndef_data'
for prop in ('C01', 'C03'):
    ens = {'C01': [('O-write.view', 'view_is(t12_view(%s.mem, %s.off, %s.end, %s.a, %s.b), old(bytes(data)))'
                                    % ((IMG,) * 5)),
                   ('O-write.flushed', '%s.mem == %s.img' % (IMG, IMG))],
           'C03': [('O-frame.before', '%s.mem[0:%s.off + 1] == %s.mem0[0:%s.off + 1]' % ((IMG,) * 4)),
                   ('O-frame.behind', '%s.mem[%s.end:] == %s.mem0[%s.end:]' % ((IMG,) * 4))]}[prop]
    contract(T1M + 'Type1Tag.NDEF._write_ndef_data', prop,
             dict(self=Obj(T1M + 'Type1Tag.NDEF', _partial=False, _data=None, _capacity=Int(0, None), _readable=True,
                           _writeable=True, _tag=None, _ndef_tlv_offset=Int(12, 2048), _skip_bytes=None,
                           _tag_memory=Obj('models.tag_models:TagImage', _partial=False, img=Bytes(120, None),
                                           mem=Ref('self._tag_memory.img'), mem0=Ref('self._tag_memory.img'),
                                           off=Ref('self._ndef_tlv_offset'), end=Int(12, 2048), a=Int(0, 0x800),
                                           b=Int(0, 0x800), unit=OneOf(1, 8), goal=Ref('data'), syncs=0,
                                           check_cut=False, inside=False)),
                  data=Bytes(0, None, mutable=True)),
             name='%s/tt1._write_ndef_data' % prop, setup=t2_setup,
             requires=['(%s.img[10] + 1) * 8 <= len(%s.img)' % (IMG, IMG), 'len(%s.img) %% 8 == 0' % IMG,
                       # effective end of the message area: the data area end, or the start of a reserved range
                       # that covers the tail of the data area
                       '%s.end == ((%s.img[10] + 1) * 8 if (%s.a >= %s.b or %s.b <= %s.off or '
                       '%s.a >= (%s.img[10] + 1) * 8) else %s.a)' % ((IMG,) * 9),
                       '%s.a >= %s.b or %s.b <= %s.off or %s.a >= (%s.img[10] + 1) * 8 or '
                       '(%s.b >= (%s.img[10] + 1) * 8 and %s.a > %s.off + 1)' % ((IMG,) * 10),
                       't12_view(%s.img, %s.off, %s.end, %s.a, %s.b) != NO_NDEF' % ((IMG,) * 5),
                       'len(data) + (2 if len(data) < 255 else 4) <= %s.end - %s.off' % (IMG, IMG)],
             ensures=ens, raises={},
             loops={(T1W, 'For', 0): LoopSpec(
                 entry={'_s': 'offset', '_c': 'bytes(self._tag_memory.img)'},
                 invariant=['offset == _s', '%s.img == _c[0:_s] + bytes(data[0:_k]) + _c[_s + _k:]' % IMG,
                            '%s.mem == _c' % IMG],
                 havoc={'offset': Int(0, None), '%s.img' % IMG: '_c[0:_s] + bytes(data[0:_k]) + _c[_s + _k:]'}),
                    (T1W, 'While', 0): LoopSpec(entry={'_o': 'offset'}, invariant=['offset == _o'],
                                                 decreases='0x800 - (offset + i)', havoc={'offset': Int(0, None)}),
                    (T1W, 'While', 1): LoopSpec(entry={'_o': 'offset', '_ci': 'bytes(self._tag_memory.img)'},
                                                 invariant=['offset >= _o', '%s.img == _ci' % IMG],
                                                 decreases='tag_memory_size - offset',
                                                 havoc={'offset': Int(0, None)})},
             idle_loops=['_write_ndef_data/loop:While0'])

# the real Type 1 memory reader's synchronize() refines TagImage.synchronize(): every state the tag goes through
# is cache[0:u*j] + old[u*j:] (u = 8 for dynamic memory tags, 1 for static ones), only differing units are written
RD1 = 'nfc.tag.tt1.Type1TagMemoryReader'
for _mode, _hr0, _u in (('blocks', 0x12, 8), ('bytes', 0x11, 1)):
    contract(T1M + 'Type1TagMemoryReader.synchronize', 'C01',
             dict(self=Obj(T1M + 'Type1TagMemoryReader', _partial=False, _data_from_tag=Bytes(0, None, mutable=True),
                           _data_in_cache=Bytes(0, None, mutable=True), _header_rom=Const(bytearray([_hr0, 0x4C])),
                           _tag=Obj('models.tag_models:T1BlockTag', _partial=False, mem=Bytes(120, None), writes=0))),
             name='C01/tt1.reader.synchronize[%s]' % _mode,
             requires=['len(self._data_in_cache) == len(self._data_from_tag)', 'len(self._data_from_tag) % 8 == 0',
                       'len(self._data_from_tag) <= len(self._tag.mem)', 'len(self._data_from_tag) <= 2048',
                       'self._data_from_tag == self._tag.mem[0:len(self._data_from_tag)]'],
             ensures=[('O-refine.flushed', 'self._tag.mem == old(bytes(self._data_in_cache) + '
                                           'self._tag.mem[len(self._data_in_cache):])'),
                      ('O-refine.ri', 'self._data_from_tag == self._tag.mem[0:len(self._data_from_tag)] and '
                                      'bytes(self._data_in_cache) == old(bytes(self._data_in_cache))')],
             raises={},
             loops={(RD1 + '._write_to_tag', 'For', 0 if _u == 8 else 1): LoopSpec(
                 entry={'_S': 'self._tag.mem', '_C': 'bytes(self._data_in_cache)'},
                 invariant=['bytes(self._data_in_cache) == _C', 'len(self._data_from_tag) == len(_C)',
                            'self._tag.mem == _C[0:%d * _k] + _S[%d * _k:]' % (_u, _u),
                            'self._data_from_tag == _C[0:%d * _k] + _S[%d * _k:len(_C)]' % (_u, _u),
                            'len(_C) % 8 == 0 and len(_C) <= len(_S) and stop == len(_C)'],
                 havoc={'self._tag.mem': '_C[0:%d * _k] + _S[%d * _k:]' % (_u, _u),
                        'self._data_from_tag': 'bytearray(_C[0:%d * _k] + _S[%d * _k:len(_C)])' % (_u, _u),
                        'self._tag.writes': Int(0, None)})})


# ---------------------------------------------------------------- Type 1/2 write path with ONE reserved range INSIDE
# the message area (behind the TLV header: off + 4 <= a < b <= end) - e.g. the lock/OTP octets 104..127 of every
# dynamic memory Type 1 Tag, or a memory control TLV of a Type 2 Tag.  The data loop's invariant is the closed form
# of "value octets skip the range": before the range is reached the image is c[0:s] + data[0:k] + c[s+k:], after it
# c[0:s] + data[0:a-s] + c[a:b] + data[a-s:k] + c[b+k-(a-s):], and the running offset has jumped by b - a.
PLACED = ('(_c[0:_s] + bytes(data[0:_k]) + _c[_s + _k:]) if _k <= %s.a - _s else '
          '(_c[0:_s] + bytes(data[0:%s.a - _s]) + _c[%s.a:%s.b] + bytes(data[%s.a - _s:_k]) + '
          '_c[%s.b + _k - (%s.a - _s):])' % ((IMG,) * 7))
OFFS = '(_s if _k <= %s.a - _s else _s + %s.b - %s.a)' % ((IMG,) * 3)
for _mod, _fn, _unit, _first, _endx, _maxa in (
        (T2, T2W, 4, 16, '%s.img[14] * 8 + 16' % IMG, 0x80000),
        (T1M, T1W, 8, 12, '(%s.img[10] + 1) * 8' % IMG, 0x800)):     # dynamic memory tags write 8-octet blocks
    _tt = 'tt2' if _mod == T2 else 'tt1'
    for prop in ('C01', 'C03'):
        ens = {'C01': [('O-write.view', 'view_is(t12_view_in(%s.mem, %s.off, %s.end, %s.a, %s.b), old(bytes(data)))'
                                        % ((IMG,) * 5)),
                       ('O-write.flushed', '%s.mem == %s.img' % (IMG, IMG))],
               'C03': [('O-frame.before', '%s.mem[0:%s.off + 1] == %s.mem0[0:%s.off + 1]' % ((IMG,) * 4)),
                       ('O-frame.behind', '%s.mem[%s.end:] == %s.mem0[%s.end:]' % ((IMG,) * 4)),
                       ('O-frame.reserved', '%s.mem[%s.a:%s.b] == %s.mem0[%s.a:%s.b]' % ((IMG,) * 6))]}[prop]
        loops = {(_fn, 'For', 0): LoopSpec(
                     entry={'_s': 'offset', '_c': 'bytes(self._tag_memory.img)'},
                     invariant=['offset == %s' % OFFS, '%s.img == %s' % (IMG, PLACED), '%s.mem == _c' % IMG],
                     havoc={'offset': OFFS, '%s.img' % IMG: PLACED}),
                 (_fn, 'While', 0): LoopSpec(
                     entry={'_o': 'offset'},
                     invariant=['offset >= _o', 'offset + %s <= %s.b or offset == _o' % ('index' if _tt == 'tt2' else 'i', IMG),
                                'offset == _o or _o + %s == %s.a' % ('index' if _tt == 'tt2' else 'i', IMG)],
                     decreases='%s.b - (offset + %s)' % (IMG, 'index' if _tt == 'tt2' else 'i'),
                     havoc={'offset': Int(0, None)})}
        if _tt == 'tt2':
            loops[(_fn, 'While', 1)] = LoopSpec(entry={'_o': 'offset'},
                                                invariant=['offset >= _o', 'offset <= max(_o, %s.b)' % IMG],
                                                decreases='0x80000 - offset', havoc={'offset': Int(0, None)})
        else:
            loops[(_fn, 'While', 1)] = LoopSpec(entry={'_o': 'offset', '_ci': 'bytes(self._tag_memory.img)'},
                                                invariant=['offset >= _o', '%s.img == _ci' % IMG],
                                                decreases='tag_memory_size - offset', havoc={'offset': Int(0, None)})
        contract(_mod + ('Type2Tag' if _tt == 'tt2' else 'Type1Tag') + '.NDEF._write_ndef_data', prop,
                 dict(self=Obj(_mod + ('Type2Tag' if _tt == 'tt2' else 'Type1Tag') + '.NDEF', _partial=False, _data=None,
                               _capacity=Int(0, None), _readable=True, _writeable=True, _tag=None,
                               _ndef_tlv_offset=Int(_first, 2060), _skip_bytes=None,
                               _tag_memory=Obj('models.tag_models:TagImage', _partial=False, img=Bytes(128, None),
                                               mem=Ref('self._tag_memory.img'), mem0=Ref('self._tag_memory.img'),
                                               off=Ref('self._ndef_tlv_offset'), end=Int(_first, 2056),
                                               a=Int(0, _maxa), b=Int(0, _maxa), unit=_unit, goal=Ref('data'),
                                               syncs=0, check_cut=False, inside=True)),
                      data=Bytes(0, None, mutable=True)),
                 name='%s/%s._write_ndef_data[reserved-inside]' % (prop, _tt), setup=t2_setup,
                 requires=['%s.end == %s and %s.end <= len(%s.img)' % (IMG, _endx, IMG, IMG),
                           'len(%s.img) %% 8 == 0' % IMG,
                           '%s.off + 4 <= %s.a and %s.a < %s.b and %s.b <= %s.end' % ((IMG,) * 6),
                           't12_view_in(%s.img, %s.off, %s.end, %s.a, %s.b) != NO_NDEF' % ((IMG,) * 5),
                           # the message fits: capacity as the reader computed it (free octets minus header)
                           'len(data) + (2 if len(data) < 255 else 4) <= %s.end - %s.off - (%s.b - %s.a)'
                           % ((IMG,) * 4)],
                 ensures=ens, raises={}, loops=loops, budget_s=1800)

# a WRITE that is lost ends synchronize() with the command error and leaves the reader consistent with the tag
# (what the reader believes to be on the tag is on the tag), so that a repeated write does the right thing
RDR2L = lambda: Obj(T2 + 'Type2TagMemoryReader', _partial=False, _data_from_tag=Bytes(0, None, mutable=True),   # noqa
                    _data_in_cache=Bytes(0, None, mutable=True),
                    _tag=Obj('models.tag_models:T2PageTag', _partial=False, mem=Bytes(64, None), cur=Int(0, 255),
                             writes=0, lossy=True))
contract(T2 + 'Type2TagMemoryReader.synchronize', 'C02', dict(self=RDR2L()),
         name='C02/tt2.reader.synchronize.lossy', requires=RI + ['len(self._tag.mem) <= 0x40000'],
         ensures=[('O-refine.ri', ' and '.join('(%s)' % x for x in RI))],
         raises={T2 + 'Type2TagCommandError': [' and '.join('(%s)' % x for x in RI)]},
         loops={(RD + '._write_to_tag', 'While', 0): LoopSpec(
             entry={'_S': 'self._tag.mem', '_C': 'bytes(self._data_in_cache)'},
             invariant=['index % 4 == 0 and index >= 0 and index <= stop + 3', 'stop == len(_C)',
                        'bytes(self._data_in_cache) == _C', 'len(self._data_from_tag) == len(_C)',
                        'self._tag.mem == _C[0:index] + _S[index:]',
                        'self._data_from_tag == _C[0:index] + _S[index:len(_C)]', 'len(_C) % 16 == 0',
                        'len(_C) <= len(_S)'],
             decreases='stop - index',
             havoc={'index': Int(0, None), 'self._tag.mem': '_C[0:index] + _S[index:]',
                    'self._data_from_tag': 'bytearray(_C[0:index] + _S[index:len(_C)])',
                    'self._tag.cur': Int(0, 255), 'self._tag.writes': Int(0, None)})})

# The write contracts above take the NDEF object's cached view of the tag (TLV offset, skip set, memory image) to
# describe the tag as it is.  format() rewrites the management bytes through a reader of its own, so that
# assumption survives a format only because the public wrapper then drops the cached NDEF object: a later
# tag.ndef parses the tag afresh instead of writing through the pre-format view (which would address blocks that
# no longer belong to the message area).  One contract per class that defines or inherits a public format().
_FMT = [('nfc.tag.tt1_broadcom:Topaz', None), ('nfc.tag.tt1_broadcom:Topaz512', None),
        ('nfc.tag.tt2:Type2Tag', None), ('nfc.tag.tt2_nxp:NTAG203', 'nfc.tag.tt2_nxp:NTAG203'),
        ('nfc.tag.tt2_nxp:NTAG210', None), ('nfc.tag.tt2_nxp:NTAG212', None), ('nfc.tag.tt2_nxp:NTAG213', None),
        ('nfc.tag.tt2_nxp:NTAG215', None), ('nfc.tag.tt2_nxp:NTAG216', None),
        ('nfc.tag.tt3:Type3Tag', None), ('nfc.tag.tt3_sony:FelicaLite', None), ('nfc.tag.tt3_sony:FelicaLiteS',
                                                                               'nfc.tag.tt3_sony:FelicaLite'),
        ('nfc.tag.tt4:Type4Tag', None)]
for _cls, _own in _FMT:
    _short = _cls.split(':')[1]
    _fq = (_own or _cls) + '._format'
    for prop in ('C03', 'C01'):
        contract(_fq, prop, dict(self=Any(), version=Any(), wipe=Any()), name='%s/format.%s._format' % (prop, _short),
                 assumed=True, raises={}, returns=OneOf(True, False, None),
                 note='the type specific formatter: True when the tag was formatted (its own writes are not '
                      'covered by a contract)')
        contract(_cls + '.format', prop,
                 dict(self=Obj(_cls, _ndef=Obj('nfc.tag:Tag.NDEF', _partial=False, _data=Bytes(0, None))),
                      version=OneOf(None, Int(0, 255)), wipe=OneOf(None, Int(0, 255))),
                 name='%s/format.%s' % (prop, _short), use=['%s/format.%s._format' % (prop, _short)],
                 ensures=[('post.view-dropped', 'implies(result is True, self._ndef is None)'),
                          ('post.formatter-called', 'was_called("%s/format.%s._format")' % (prop, _short))],
                 raises={})
# protect() changes what may be written (lock bits, CC access byte): the same rule, the cached view is dropped
_PRT = ['nfc.tag.tt1:Type1Tag', 'nfc.tag.tt1_broadcom:Topaz', 'nfc.tag.tt1_broadcom:Topaz512', 'nfc.tag.tt2:Type2Tag',
        'nfc.tag.tt2_nxp:MifareUltralightC', 'nfc.tag.tt2_nxp:NTAG203', 'nfc.tag.tt2_nxp:NTAG21x',
        'nfc.tag.tt3_sony:FelicaLite', 'nfc.tag.tt3_sony:FelicaLiteS']
for _cls in _PRT:
    _short = _cls.split(':')[1]
    for prop in ('C03', 'C01'):
        contract(_cls + '._protect', prop, dict(self=Any(), password=Any(), read_protect=Any(), protect_from=Any()),
                 name='%s/protect.%s._protect' % (prop, _short), assumed=True, raises={},
                 returns=OneOf(True, False, None),
                 note='the type specific protection: True when the tag was changed (its own writes are not covered '
                      'by a contract)')
        contract(_cls + '.protect', prop,
                 dict(self=Obj(_cls, _ndef=Obj('nfc.tag:Tag.NDEF', _partial=False, _data=Bytes(0, None))),
                      password=OneOf(None, Bytes(0, 32)), read_protect=Bool(), protect_from=Int(0, None)),
                 name='%s/protect.%s' % (prop, _short), use=['%s/protect.%s._protect' % (prop, _short)],
                 ensures=[('post.view-dropped', 'implies(result is True, self._ndef is None)'),
                          ('post.protector-called', 'was_called("%s/protect.%s._protect")' % (prop, _short))],
                 raises={})

# The Type 2 memory reader addresses a page as (sector, page mod 256) and relies on Type2Tag.sector_select() for
# the first half: the T2PageTag model the reader is proved against takes the tag object's belief about the selected
# sector to be the tag's.  That holds only if _current_sector changes exactly when the tag has switched (after the
# passive acknowledge of the second packet) - C16's contract for sector_select, an obligation of C01/C03 as well:
# with a wrong belief the next WRITE lands 1 KiB away from the page that was meant, outside the message area.
import copy as _copy
from . import c16_tagcmd as _c16   # noqa
from pyvc.contracts import REGISTRY as _REG
for _c in list(_REG):
    if _c.name == 'C16/tt2.sector_select':
        for prop in ('C01', 'C03'):
            _c2 = _copy.copy(_c)
            _c2.prop = prop
            _c2.name = prop + '/tt2.sector_select'
            _REG.append(_c2)

# ---------------------------------------------------------------- emulated Type 3 Tag (the library serves the tag)
# The reader side (Type3Tag.write_to_ndef_service / read_from_ndef_service, the functions the Type 3 write and
# read proofs above replace by the ghost tag T3NdefTag) runs against the real Type3TagEmulation.process_command
# over a loopback link, the application memory behind the NDEF services as examples/tagtool.py keeps it.  The
# postconditions are those of the ghost tag's commands - the emulated tag refines the ghost tag - so the write and
# read contracts above carry over to it.  BOUNDED in the number of blocks per command (list parsing loops of the
# emulation are unrolled); block numbers (2 and 3 octet list elements), contents and memory size are symbolic.
T3EMU = 'nfc.tag.tt3:Type3TagEmulation'
for _n, _hi in ((1, 0xFFFF), (2, 0xFFFF), (3, 0xFFFF), (8, 255), (15, 255)):
    _emu = lambda: Obj(T3EMU, idm=Bytes(8, 8, mutable=True), pmm=Bytes(8, 8, mutable=True),   # noqa
                       sys=Const(bytearray(b'\x12\xFC')), services=DictOf({}))
    _mem = lambda: Obj('models.tag_models:EmuNdefMemory', _partial=False, mem=Bytes(0, None),   # noqa
                       nblocks=Int(0, 0x10000), calls=0)
    _tag = lambda: Obj('nfc.tag.tt3:Type3Tag', _clf=Obj('models.tag_models:LoopbackClf', _partial=False,  # noqa
                                                        emu=Ref('emu'), commands=0),
                       idm=Ref('emu.idm'), pmm=Bytes(8, 8, mutable=True), sys=Const(0x12FC))
    _b = 'bounded: %d block(s) per command%s' % (_n, ', block numbers below 256' if _hi == 255 else '')
    _inrange = ' and '.join('blocks[%d] < memory.nblocks' % i for i in range(_n))
    if _n <= 12:
        contract('drivers.c01:emu_write', 'C01',
                 dict(emu=_emu(), memory=_mem(), tag=_tag(), data=Bytes(16 * _n, 16 * _n, mutable=True),
                      blocks=Fixed([Int(0, _hi) for _ in range(_n)])),
                 name='C01/tt3emu.write[%d]' % _n, bounded=_b,
                 requires=['len(memory.mem) == 16 * memory.nblocks'],
                 ensures=[('O-emu.write', 'memory.mem == t3_apply(old(memory.mem), old(bytes(data)), blocks)'),
                          ('O-emu.inrange', _inrange),
                          ('O-emu.once', 'tag.clf.commands == 1 and memory.calls == %d' % _n)],
                 raises={'nfc.tag.tt3:Type3TagCommandError': ['not (%s)' % _inrange]})
    contract('drivers.c01:emu_read', 'C01',
             dict(emu=_emu(), memory=_mem(), tag=_tag(), blocks=Fixed([Int(0, _hi) for _ in range(_n)])),
             name='C01/tt3emu.read[%d]' % _n, bounded=_b,
             requires=['len(memory.mem) == 16 * memory.nblocks'],
             ensures=[('O-emu.read', 'bytes(result) == t3_gather(memory.mem, blocks)'),
                      ('O-emu.inrange', _inrange),
                      ('O-emu.frame', 'memory.mem == old(memory.mem) and memory.calls == 0')],
             raises={'nfc.tag.tt3:Type3TagCommandError': ['not (%s)' % _inrange]})

# ---------------------------------------------------------------- C03: which system a Type 3 Tag object talks to
# read_from_ndef_service / write_to_ndef_service / format() are guarded by `self.sys == 0x12FC` only: the frame
# proofs above hold for the NDEF system.  FelicaStandard.dump() walks every system of the card by polling(); when it
# is done the object's idea of the selected system (self.sys) is the system of the IDm it holds - otherwise a
# following format()/write goes into another system's blocks.  BOUNDED: a card with two systems whose service
# search ends at index 0 (the area/service printing is not inspected).
FSD = 'nfc.tag.tt3_sony:FelicaStandard'
contract(FSD + '.request_system_code', 'C03', dict(self=Any()), name='C03/felica.request_system_code', assumed=True,
         note='bounded: the card supports the command and lists two system codes',
         raises={}, returns=Fixed([Int(0, 0xFFFF), Int(0, 0xFFFF)]))
contract('nfc.tag.tt3:Type3Tag.polling', 'C03', dict(self=Any(), system_code=Any(), request_code=Any(), time_slots=Any()),
         name='C03/felica.polling', assumed=True,
         note='activates the given system: IDm and PMm of that system', raises={},
         returns=Tup(Bytes(8, 8, mutable=True), Bytes(8, 8, mutable=True)))
contract(FSD + '.search_service_code', 'C03', dict(self=Any(), service_index=Any()),
         name='C03/felica.search_service_code', assumed=True, note='bounded: no area or service at index 0',
         raises={}, returns=Const(None))
contract(FSD + '.dump', 'C03',
         dict(self=Obj(FSD, idm=Bytes(8, 8, mutable=True), pmm=Bytes(8, 8, mutable=True), sys=Const(0x12FC))),
         name='C03/FelicaStandard.dump', bounded='bounded: two systems, no services listed',
         use=['C03/felica.request_system_code', 'C03/felica.polling', 'C03/felica.search_service_code'],
         ensures=[('O-system.selected', 'not was_called("C03/felica.polling") or '
                                        '(self.sys == call_arg("C03/felica.polling", "system_code") and '
                                        'self.idm == call_ret("C03/felica.polling")[0])')],
         raises={})

# ---------------------------------------------------------------- C03: Type 2 format() (erase)
# format() rewrites the NDEF TLV as empty (L = 0, terminator) and optionally wipes the rest of the data area.  Same
# abstract memory image as the write path: whatever prefix of the flush reached the tag, nothing before the length
# field and nothing behind the data area differs from before (the obligations sit in TagImage.synchronize) - also
# when the empty NDEF TLV is the last thing in the data area and there is no room for a terminator.
T2F = 'nfc.tag.tt2.Type2Tag._format'
contract(T2 + 'Type2Tag._format', 'C03',
         dict(self=Obj(T2 + 'Type2Tag', _ndef=Obj(
             T2 + 'Type2Tag.NDEF', _partial=False, _data=None, _capacity=Int(0, None), _readable=True,
             _writeable=True, _tag=None, _ndef_tlv_offset=Int(16, 2060), _skip_bytes=None,
             _tag_memory=Obj('models.tag_models:TagImage', _partial=False, img=Bytes(64, None),
                             mem=Ref('self._ndef._tag_memory.img'), mem0=Ref('self._ndef._tag_memory.img'),
                             off=Ref('self._ndef._ndef_tlv_offset'), end=Int(16, 2056), a=Int(0, 0x80000),
                             b=Int(0, 0x80000), unit=4, goal=Const(b''), syncs=0, check_cut=False, inside=False))),
              version=Const(None), wipe=Opt(Int(0, 255))),
         name='C03/tt2._format',
         setup=lambda ex, env: t2_setup(ex, {'self': env['self'].fields['_ndef']}),
         requires=['%s.end == %s.img[14] * 8 + 16 and %s.end <= len(%s.img)' % (('self._ndef._tag_memory',) * 4),
                   'len(self._ndef._tag_memory.img) % 4 == 0',
                   't12_view(%s.img, %s.off, %s.end, %s.a, %s.b) != NO_NDEF' % (('self._ndef._tag_memory',) * 5),
                   '%s.a >= %s.b or %s.b <= %s.off or %s.a >= %s.end' % (('self._ndef._tag_memory',) * 6)],
         ensures=[('O-format.flushed', 'result == True and self._ndef._tag_memory.syncs == 1')],
         raises={},
         loops={(T2F, 'For', 0): LoopSpec(
             entry={'_c': 'bytes(self._ndef._tag_memory.img)'},
             invariant=['len(self._ndef._tag_memory.img) == len(_c)',
                        'self._ndef._tag_memory.img[0:self._ndef._tag_memory.off + 3] == _c[0:self._ndef._tag_memory.off + 3]',
                        'self._ndef._tag_memory.img[self._ndef._tag_memory.end:] == _c[self._ndef._tag_memory.end:]'],
             havoc={'self._ndef._tag_memory.img': Bytes(64, None), 'offset': Int(0, None)})})
