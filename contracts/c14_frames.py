"""C14 - host-link frames and ISO 14443 CRCs are built and checked correctly."""
from .common import *   # noqa

X = 'nfc.clf.pn53x:'
A = 'nfc.clf.acr122:'
R = 'nfc.clf.rcs380:'
D = 'nfc.clf.device:'
TR = lambda: Obj('models.hostlink:Transport', written=Fixed([]), last=None)   # noqa

CMDQ = 'nfc.clf.pn53x.Chipset.command'
pn53x_chip = lambda: Obj('nfc.clf.pn532:Chipset', transport=TR(), log=Log(),     # noqa
                         host_command_frame_max_size=Int(10, 265))

contract(X + 'Chipset.command', 'C14',
         dict(self=pn53x_chip(), cmd_code=Int(0, 0xFE), cmd_data=Bytes(0, 263), timeout=Int(1, 30)),
         name='C14/pn53x.command',
         requires=['len(cmd_data) <= self.host_command_frame_max_size - 2', 'cmd_code in self.CMD'],
         ensures=[('O-wf', 'self.transport.written[0] == pn53x_cmd_frame(cmd_code, cmd_data)'),
                  ('O-accept', 'pn53x_rsp_payload(self.transport.last, cmd_code) is not None and '
                               'result == pn53x_rsp_payload(self.transport.last, cmd_code)')],
         # the host link may fail at any write or read: whatever did reach it before is the command frame
         raises={'IOError': ['len(self.transport.written) == 0 or '
                             'self.transport.written[0] == pn53x_cmd_frame(cmd_code, cmd_data)'],
                 X + 'Chipset.Error': ['pn53x_is_error_frame(self.transport.last)']},
         loops={(CMDQ, 'While', 0): LoopSpec(
             invariant=['len(self.transport.written) == 1',
                        'self.transport.written[0] == pn53x_cmd_frame(cmd_code, cmd_data)'],
             havoc={'self.transport.last': Bytes(), 'frame': 'bytearray(self.transport.last)'})})

# ---------------------------------------------------------------- ACR122
acr = lambda: Obj(A + 'Chipset', transport=TR(), log=Log())   # noqa
contract(A + 'Chipset.ccid_xfr_block', 'C14',
         dict(self=acr(), data=Bytes(0, 300, mutable=True), timeout=Int(1, 30)),
         name='C14/acr122.ccid_xfr_block',
         ensures=[('O-wf', 'len(self.transport.written) == 1 and self.transport.written[0] == ccid_escape(data)'),
                  ('O-accept', 'ccid_rsp_data(self.transport.last) is not None and '
                               'result == ccid_rsp_data(self.transport.last)')],
         raises={'IOError': ['len(self.transport.written) == 0 or self.transport.written[0] == ccid_escape(data)']})
contract(A + 'Chipset.command', 'C14',
         dict(self=acr(), cmd_code=Int(0, 0xFE), cmd_data=Bytes(0, 253), timeout=Int(1, 30)),
         name='C14/acr122.command', requires=['cmd_code in self.CMD'],
         ensures=[('O-wf', 'self.transport.written[0] == ccid_escape(acr122_cmd_apdu(cmd_code, cmd_data))'),
                  ('O-accept', 'acr122_rsp_payload(ccid_rsp_data(self.transport.last), cmd_code) is not None and '
                               'result == acr122_rsp_payload(ccid_rsp_data(self.transport.last), cmd_code)')],
         raises={'IOError': []})

# ---------------------------------------------------------------- RC-S380
contract(R + 'Frame.__init__', 'C14',
         dict(self=Obj(R + 'Frame', _partial=False), data=Bytes(0, 65535, mutable=True)),
         name='C14/rcs380.Frame', requires=['data[0:3] != b"\\x00\\x00\\xff"'],
         ensures=[('O-rcs380-frame', 'self._frame == rcs380_frame(data)')], raises={})

# ---------------------------------------------------------------- CRC
# the eight shift steps for one octet equal the byte-wise step of ISO/IEC 14443-3 Annex B,
# for every 16-bit register and every octet
contract('drivers.c14:crc_step', 'C14',
         dict(octet=BV(32, 0xFF), reg=BV(32, 0xFFFF)),
         name='C14/calculate_crc.step',
         ensures=[('O-crc-step', 'result == crc_update(octet, reg)'),
                  ('O-crc-range', '0 <= result and result <= 0xFFFF')], raises={})
for n in (0, 1):
    b = 'bounded: message of %d symbolic octets' % n
    contract(D + 'Device.add_crc_a', 'C14', dict(data=BVBytes(n)),
             name='C14/add_crc_a[%d]' % n, bounded=b,
             ensures=[('O-crc-a', 'result == data + bytes([crc_a(data) % 256, crc_a(data) // 256])')], raises={})
    contract(D + 'Device.add_crc_b', 'C14', dict(data=BVBytes(n)),
             name='C14/add_crc_b[%d]' % n, bounded=b,
             ensures=[('O-crc-b', 'result == data + bytes([crc_b(data) % 256, crc_b(data) // 256])')], raises={})
    contract(D + 'Device.check_crc_a', 'C14', dict(data=BVBytes(n + 2)),
             name='C14/check_crc_a[%d]' % n, bounded=b,
             ensures=[('O-crc-a', 'result == (data[%d] == crc_a(data[:%d]) %% 256 and data[%d] == crc_a(data[:%d]) // 256)'
                       % (n, n, n + 1, n))], raises={})
    contract(D + 'Device.check_crc_b', 'C14', dict(data=BVBytes(n + 2)),
             name='C14/check_crc_b[%d]' % n, bounded=b,
             ensures=[('O-crc-b', 'result == (data[%d] == crc_b(data[:%d]) %% 256 and data[%d] == crc_b(data[:%d]) // 256)'
                       % (n, n, n + 1, n))], raises={})

# ---------------------------------------------------------------- sentinels
contract(X + 'Chipset.command', 'C14',
         dict(self=pn53x_chip(), cmd_code=Int(0, 0xFE), cmd_data=Bytes(0, 263), timeout=Int(1, 30)),
         name='C14/sentinel.extended-switch-at-255', expect_fail=True,
         requires=['len(cmd_data) <= self.host_command_frame_max_size - 2', 'cmd_code in self.CMD'],
         ensures=[('O-wf', 'len(self.transport.written[0]) == len(cmd_data) + 9')], raises={'IOError': [], X + 'Chipset.Error': []},
         loops={(CMDQ, 'While', 0): LoopSpec(
             invariant=[], havoc={'self.transport.last': Bytes(), 'frame': 'bytearray(self.transport.last)'})})
contract('drivers.c14:crc_step', 'C14', dict(octet=BV(32, 0xFF), reg=BV(32, 0xFFFF)),
         name='C14/sentinel.crc-wrong-poly', expect_fail=True,
         ensures=[('O-crc-step', 'result == crc_update(octet ^ 1, reg)')], raises={})


# C13 assumes that Chipset.command() returns the payload of a valid response or raises IOError / Chipset.Error
# (C13/pn53x.command); that is what is proved above, so it is an obligation of C13 as well: a short or malformed
# host frame must come out as IOError, never as struct.error / IndexError escaping ContactlessFrontend.exchange()
import copy as _copy
from pyvc.contracts import REGISTRY as _REG
for _c in list(_REG):
    if _c.name in ('C14/pn53x.command',):
        # ... and of C12/C04 ("for any command and response size", "no frame exceeds ..."): an ISO-DEP block or NFC-DEP
        # frame of any size the protocol layers hand down must come out as a well-formed host frame
        for _prop in ('C13', 'C12', 'C04'):
            _c2 = _copy.copy(_c)
            _c2.prop = _prop
            _c2.name = _prop + '/host.' + _c.name.split('/', 1)[1]
            # as for C13/C14 themselves: the log arguments of the host-link functions are not evaluated (they index
            # name tables by the symbolic command code: the paths multiply beyond the budget)
            _c2.hooks = dict(_c.hooks or {}, eval_log_args=False)
            _REG.append(_c2)


# the serial bring-up of a PN532 writes hand-built frames (GetFirmwareVersion, SAMConfiguration, SetSerialBaudrate
# with the data checksum computed in place): every one of them is well formed, for every speed the host's stty
# accepts, every platform answer and every answer of the chip.  The file system and stty are arbitrary (open() fails
# or yields any content, os.system returns any status): not replayable natively.
# (the Chipset/Device constructors that follow talk through Chipset.command, which has its own contract above)
contract('nfc.clf.pn53x:Chipset.__init__', 'C14', dict(self=Any(), transport=Any(), logger=Any()),
         name='C14/pn53x.Chipset.__init__', assumed=True,
         note='constructor: chip diagnostics through Chipset.command (C14/pn53x.command)',
         raises={'IOError': [], 'nfc.clf.pn53x:Chipset.Error': []})
contract('nfc.clf.pn532:Device.__init__', 'C14', dict(self=Any(), chipset=Any(), logger=Any()),
         name='C14/pn532.Device.__init__', assumed=True,
         note='constructor: chip configuration through Chipset.command (C14/pn53x.command)',
         raises={'IOError': [], 'nfc.clf.pn53x:Chipset.Error': []})
contract('nfc.clf.pn532:init', 'C14',
         dict(transport=Obj('models.hostlink:TtyTransport', _partial=False, written=0, baudrate=115200)),
         name='C14/pn532.init[tty]', native=False,
         use=['C14/pn53x.Chipset.__init__', 'C14/pn532.Device.__init__'],
         ensures=[('post.frames', 'transport.written >= 2')],
         raises={'IOError': [], 'nfc.clf.pn53x:Chipset.Error': []}, max_paths=6000)
