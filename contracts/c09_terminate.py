"""C09 - when the LLCP link ends no application thread is left waiting
(sequential half: termination state, calls after termination, wake-ups)."""
from .common import *   # noqa
from .c10_miu import tco, DLC_EXTRA, state, mode

L = 'nfc.llcp.llc:'
T = 'nfc.llcp.tco:'
ERR = 'nfc.llcp.err:Error'


def sock(cls='DataLinkConnection', **kw):
    f = dict(send_queue=ListOf(Any(), kind='deque'), recv_queue=ListOf(Any(), kind='deque'), addr=SAP())
    if cls == 'DataLinkConnection':
        f.update(DLC_EXTRA)
    f.update(kw)
    return tco(cls, **f)


CLOSED = ('s.addr is None and s.state.value == 0 and len(s.send_queue) == 0 and len(s.recv_queue) == 0 and '
          's.send_ready.notified_all >= 1 and s.recv_ready.notified_all >= 1')
# ServiceAccessPoint.shutdown: every socket bound there is unbound, shut down, emptied and its waiters notified
def closed(s):
    return ('%s.addr is None and %s.state.value == 0 and len(%s.send_queue) == 0 and len(%s.recv_queue) == 0 and '
            # every waiter is woken (notify_all), not just one of them
            '%s.send_ready.notified_all >= 1 and %s.recv_ready.notified_all >= 1' % (s, s, s, s, s, s))


for cls, _prop in (('RawAccessPoint', 'C09'), ('LogicalDataLink', 'C09'), ('DataLinkConnection', 'C09'),
                   # C07 ("or block forever"): the same contract for the connection sockets - a service thread
                   # waiting for the send window or for acknowledgements is woken when the link ends
                   ('DataLinkConnection', 'C07')):
    contract(L + 'ServiceAccessPoint.shutdown', _prop,
             dict(self=Obj(L + 'ServiceAccessPoint', addr=SAP(), llc=Obj(L + 'LogicalLinkController', lock=Lock()),
                           sock_list=Fixed([Ref('s0'), Ref('s1')], 'deque'), send_list=ListOf(Any(), kind='deque')),
                  s0=sock(cls), s1=sock(cls)),
             name='%s/sap.shutdown[%s]' % (_prop, cls),
             ensures=[('O-term-state.list', 'len(self.sock_list) == 0'),
                      ('O-term-state.s0', closed('s0')), ('O-term-state.s1', closed('s1'))] +
                     ([('O-term-state.dlc', 's0.acks_ready.notified_all >= 1 and s0.send_token.notified_all >= 1')]
                      if cls == 'DataLinkConnection' else []),
             # shutdown runs in the link thread (terminate()): a wait() without timeout there - e.g. the DISC/DM
             # handshake of close() on a socket that is still bound - would never be woken
             hooks={'on_wait': lambda ex, cond, timeout: no_untimed_wait(ex, cond, timeout)},
             raises={})


# LogicalLinkController.terminate: clears the whole address table (loop over all 64 entries with the invariant
# "entries above the current index are None"), shuts every service access point down, link state SHUTDOWN
SAPSHAPE = lambda i: Opt(Obj(L + 'ServiceAccessPoint', _partial=False, addr=i, llc=Ref('self'),   # noqa
                              sock_list=Fixed([], 'deque'), send_list=Fixed([], 'deque')))


def cleared_table(ex, fr):
    """havoc of self.sap at the head of iteration _k of `for i in range(63, -1, -1)`: entries that were
    already visited (index > 63 - _k) are None, the others are arbitrary (None or a service access point)"""
    k = fr.locals['_k']
    kk = None
    for c in range(0, 65):
        if ex.branch(mk_bool(zint(k) == c)):
            kk = c
            break
    if kk is None:
        raise PathEnd()
    items = []
    for i in range(64):
        if i > 63 - kk:
            items.append(None)
        else:
            def thunk(ex_, i=i):
                v = SAPSHAPE(i).sym(ex_, 'sap[%d]' % i)
                tmp = dict(ex_.ghost['live_env'])
                tmp['__result__'] = v
                resolve_refs(ex_, tmp)
                return tmp['__result__']
            items.append(LazyVal(thunk))
    return SList(items)


contract(L + 'ServiceAccessPoint.shutdown', 'C09', dict(self=Any()), name='C09/sap.shutdown.summary', assumed=True,
         note='proved per socket type as C09/sap.shutdown[...]', raises={})
contract(L + 'LogicalLinkController.terminate', 'C09',
         dict(self=Obj(L + 'LogicalLinkController', _partial=False, mac=None, lock=Lock(),
                       link=Obj(L + 'LogicalLinkController.LinkState', _partial=False,
                                names=("SHUTDOWN", "LISTEN", "CONNECT", "CONNECTED", "ESTABLISHED", "DISCONNECT",
                                       "CLOSED"), value=Int(0, 6)),
                       sap=LazyList([SAPSHAPE(i) for i in range(64)])),
              reason=Const("test")),
         name='C09/terminate', use=['C09/sap.shutdown.summary'],
         ensures=[('O-term-state.table', 'entries_none_from(self.sap, 0)'),
                  ('O-term-state.link', 'self.link.value == 0')],
         raises={},
         loops={('nfc.llcp.llc.LogicalLinkController.terminate', 'For', 0): LoopSpec(
             invariant=['entries_none_from(self.sap, 64 - _k)'],
             havoc={'self.sap': cleared_table})})


# ---------------------------------------------------------------- after termination
def no_untimed_wait(ex, cond, timeout):
    ex.oblige('O-after/no-wait-without-timeout', timeout is not None,
              detail='a wait() without timeout is reached although the link has terminated')
    return True


def dead_llc():
    return Obj(L + 'LogicalLinkController', _partial=False, mac=None, lock=Lock(), sec=None,
               link=Obj(L + 'LogicalLinkController.LinkState', _partial=False,
                        names=("SHUTDOWN", "LISTEN", "CONNECT", "CONNECTED", "ESTABLISHED", "DISCONNECT", "CLOSED"),
                        value=0),
               cfg=DictOf({'recv-miu': Int(128, 2175), 'send-miu': Int(128, 2175)}),
               snl=DictOf({b'urn:nfc:sn:sdp': 1}), sap=Const([None] * 64))


def dead_sock(cls):
    return sock(cls, addr=None, state=state(0), send_queue=Fixed([], 'deque'), recv_queue=Fixed([], 'deque'))


AFTER = dict(hooks={'on_wait': no_untimed_wait})
DOCARG = {ERR: [], 'TypeError': [], 'ValueError': [], 'NotImplementedError': []}
contract(L + 'LogicalLinkController.resolve', 'C09', dict(self=dead_llc(), name=OneOf(Bytes(1, 64), Const('urn:nfc:sn:x'))),
         name='C09/after.resolve', raises={ERR: []}, **AFTER)
for cls in ('RawAccessPoint', 'LogicalDataLink', 'DataLinkConnection'):
    S = lambda: dead_sock(cls)   # noqa
    for fn, args in (('send', dict(message=Bytes(0, 300), flags=Int(0, 1))),
                     ('sendto', dict(message=Bytes(0, 300), dest=Opt(SAP()), flags=Int(0, 1))),
                     ('recv', {}), ('recvfrom', {}),
                     ('poll', dict(event=OneOf('recv', 'send', 'acks', 'x'), timeout=Opt(Const(0.1)))),
                     ('accept', {}), ('connect', dict(dest=OneOf(Int(0, 63), Bytes(1, 40)))),
                     ('listen', dict(backlog=Int(0, 20))), ('bind', dict(addr_or_name=OneOf(None, Int(0, 70)))),
                     ('getsockopt', dict(option=Int(0, 7))), ('setsockopt', dict(option=Int(0, 7), value=Int(0, 3000))),
                     ('close', {}), ('getsockname', {}), ('getpeername', {})):
        if fn == 'connect' and cls == 'RawAccessPoint':
            continue      # raw access points have no connect()
        contract(L + 'LogicalLinkController.' + fn, 'C09', dict(self=dead_llc(), socket=S(), **args),
                 name='C09/after.%s[%s]' % (fn, cls), raises=DOCARG, **AFTER)


# ---------------------------------------------------------------- woken up by termination
def terminated_while_waiting(ex, cond, timeout):
    """the link terminates while the caller sleeps in wait(): the run loop's terminate() closes the socket
    (TransmissionControlObject.close: queues cleared, state SHUTDOWN) before the waiter continues"""
    s = ex.ghost.get('waiting_socket')
    if s is not None:
        s.fields['send_queue'].left, s.fields['send_queue'].mid, s.fields['send_queue'].right = [], None, []
        s.fields['recv_queue'].left, s.fields['recv_queue'].mid, s.fields['recv_queue'].right = [], None, []
        s.fields['state'].fields['value'] = 0
        s.fields['addr'] = None
    d = ex.ghost.get('waiting_sdp')
    if d is not None:
        d.fields['snl'] = None
    n = ex.ghost.get('wakeups', 0) + 1
    ex.ghost['wakeups'] = n
    if n > 3:
        ex.oblige('O-wake/no-rewait', False, detail='the caller goes back to wait() after the link has terminated')
        raise PathEnd()
    return True


def wake_setup(ex, env):
    ex.ghost['waiting_socket'] = env['self'] if 'send_queue' in env['self'].fields else None
    ex.ghost['waiting_sdp'] = env['self'] if 'snl' in env['self'].fields else None
    ex.ghost['wakeups'] = 0


WAKE = dict(hooks={'on_wait': terminated_while_waiting}, setup=wake_setup, native=False)
LIVE = lambda cls, st, **kw: sock(cls, state=state(st), send_queue=Fixed([], 'deque'),     # noqa
                                  recv_queue=Fixed([], 'deque'), **kw)
for nm, target, selfshape, args in (
        ('dlc.recv', T + 'DataLinkConnection.recv', LIVE('DataLinkConnection', 4), {}),
        ('dlc.accept', T + 'DataLinkConnection.accept', LIVE('DataLinkConnection', 2), {}),
        ('dlc.connect', T + 'DataLinkConnection.connect', LIVE('DataLinkConnection', 1), dict(dest=Int(0, 63))),
        ('dlc.send', T + 'DataLinkConnection.send', LIVE('DataLinkConnection', 4), dict(message=Bytes(0, 128), flags=0)),
        ('dlc.close', T + 'DataLinkConnection.close', LIVE('DataLinkConnection', 4), {}),
        ('dlc.poll', T + 'DataLinkConnection.poll', LIVE('DataLinkConnection', 4),
         dict(event=OneOf('recv', 'send', 'acks'), timeout=None)),
        ('ldl.recvfrom', T + 'LogicalDataLink.recvfrom', LIVE('LogicalDataLink', 4), {}),
        ('ldl.sendto', T + 'LogicalDataLink.sendto', LIVE('LogicalDataLink', 4),
         dict(message=Bytes(0, 128), dest=SAP(), flags=0)),
        ('ldl.poll', T + 'LogicalDataLink.poll', LIVE('LogicalDataLink', 4),
         dict(event=OneOf('recv', 'send'), timeout=None)),
        ('rap.recv', T + 'RawAccessPoint.recv', LIVE('RawAccessPoint', 4), {}),
        ('rap.poll', T + 'RawAccessPoint.poll', LIVE('RawAccessPoint', 4), dict(event=OneOf('recv', 'send'), timeout=None))):
    contract(target, 'C09', dict(self=selfshape, **args), name='C09/wake.' + nm, raises={ERR: []}, **WAKE)
contract(L + 'ServiceDiscovery.resolve', 'C09',
         dict(self=Obj(L + 'ServiceDiscovery', _partial=False, llc=Obj(L + 'LogicalLinkController', lock=Ref('self.lock_')),
                       lock_=Lock(), resp=Cond('lock_'), snl=DictOf({}), tids=Const(list(range(256))),
                       sent=DictOf({}), sdreq=Fixed([], 'deque'), sdres=Fixed([], 'deque'), dmpdu=Fixed([], 'deque')),
              name=Bytes(1, 40)),
         name='C09/wake.sdp.resolve', ensures=[('post.none', 'result is None')], raises={}, **WAKE)


# ServiceDiscovery.shutdown (service access point 1, reached from terminate()): the name table is dropped and EVERY
# thread waiting in resolve() is woken - several clients may be resolving at once
contract(L + 'ServiceDiscovery.shutdown', 'C09',
         dict(self=Obj(L + 'ServiceDiscovery', _partial=False, llc=Obj(L + 'LogicalLinkController', lock=Ref('self.lock_')),
                       lock_=Lock(), resp=Cond('lock_'), snl=DictOf({}), tids=Const(list(range(256))),
                       sent=DictOf({}), sdreq=Fixed([], 'deque'), sdres=Fixed([], 'deque'), dmpdu=Fixed([], 'deque'))),
         name='C09/sdp.shutdown', raises={},
         ensures=[('O-term-state.sdp', 'self.snl is None and self.resp.notified_all >= 1 and not self.lock_.locked()')])


# ---------------------------------------------------------------- the run loops always end in terminate()
PDUANY = Obj('nfc.llcp.pdu:Symmetry', _partial=False, ptype=0, dsap=0, ssap=0)
contract(L + 'LogicalLinkController.terminate', 'C09', dict(self=Any(), reason=Any()), name='C09/terminate.called',
         assumed=True, note='proved as C09/terminate', raises={})
contract(L + 'LogicalLinkController.exchange', 'C09', dict(self=Any(), send_pdu=Any(), timeout=Any()),
         name='C09/llc.exchange', assumed=True, note='returns a PDU or None (C07); the host link may fail with IOError',
         raises={'IOError': []},
         returns=OneOf(None, PDUANY, Obj('nfc.llcp.pdu:Disconnect', _partial=False, ptype=5, dsap=0, ssap=0)))
contract(L + 'LogicalLinkController.collect', 'C09', dict(self=Any()), name='C09/llc.collect', assumed=True,
         note='C10', raises={}, returns=Opt(PDUANY))
contract(L + 'LogicalLinkController.dispatch', 'C09', dict(self=Any(), rcvd_pdu=Any()), name='C09/llc.dispatch',
         assumed=True, note='C17', raises={})
for role in ('initiator', 'target'):
    contract(L + 'LogicalLinkController.run_as_' + role, 'C09',
             dict(self=Obj(L + 'LogicalLinkController', _partial=False, mac=None, lock=Lock(), sec=None,
                           link=Obj(L + 'LogicalLinkController.LinkState', _partial=False,
                                    names=("SHUTDOWN", "LISTEN", "CONNECT", "CONNECTED", "ESTABLISHED", "DISCONNECT",
                                           "CLOSED"), value=3),
                           cfg=DictOf({'recv-lto': Int(0, 2550), 'llcp-dpc': 0})),
                  terminate=Func('lambda: nondet_bool()')),
             name='C09/run_as_%s' % role,
             use=['C09/terminate.called', 'C09/llc.exchange', 'C09/llc.collect', 'C09/llc.dispatch'],
             ensures=[('O-term-state.always', 'was_called("C09/terminate.called")')],
             raises={'SystemExit': ['was_called("C09/terminate.called")'],
                     'KeyboardInterrupt': ['was_called("C09/terminate.called")']},
             loops={('nfc.llcp.llc.LogicalLinkController.run_as_' + role, 'While', 0): LoopSpec(
                 invariant=['not was_called("C09/terminate.called")'],
                 havoc={'symm': Int(0, None), 'send_pdu': Opt(PDUANY), 'rcvd_pdu': OneOf(
                     None, PDUANY, Obj('nfc.llcp.pdu:Disconnect', _partial=False, ptype=5, dsap=0, ssap=0))})},
             native=False)

# the assumed contract C09/llc.exchange above ("returns a PDU or None") checked on the real function: whatever
# the MAC delivers or raises, and whatever PDU the upper layers queued - including one that can not be encoded
# (SAP beyond 63, TLV value out of range: the socket layer does not validate them) - exchange() returns and the
# run loop goes on to terminate(); an encode error that escaped would end the run loop without terminate()
contract('nfc.llcp.pdu:decode', 'C09', dict(data=Any(), offset=Any(), size=Any()), name='C09/pdu.decode',
         assumed=True, note='proved in C07/C11: returns a PDU or raises DecodeError',
         raises={'nfc.llcp.pdu:DecodeError': []}, returns=PDUANY)
contract(L + 'LogicalLinkController.exchange', 'C09',
         dict(self=Obj(L + 'LogicalLinkController', _partial=False,
                       mac=Obj('models.llc_models:MacModel', _partial=False, calls=0),
                       pcnt=Obj(L + 'LogicalLinkController.Counter', _partial=False,
                                sent=DictOf({}, default_factory=True), rcvd=DictOf({}, default_factory=True))),
              send_pdu=OneOf(None,
                             Obj('nfc.llcp.pdu:UnnumberedInformation', _partial=False, ptype=3, dsap=Int(-1, 300),
                                 ssap=Int(-1, 300), data=Bytes(0, 300)),
                             Obj('nfc.llcp.pdu:Connect', _partial=False, ptype=4, dsap=Int(-1, 300), ssap=Int(0, 63),
                                 miu=Int(0, 70000), rw=Int(0, 300), sn=Opt(Bytes(0, 300))),
                             Obj('nfc.llcp.pdu:Symmetry', _partial=False, ptype=0, dsap=0, ssap=0)),
              timeout=Const(0.1)),
         name='C09/llc.exchange.real', use=['C09/pdu.decode'],
         ensures=[('O-exchange.result', 'result is None or isinstance(result, pdu.ProtocolDataUnit)')],
         raises={})

# terminate() reaches the sockets it has to wake only through llc.sap[addr].sock_list.  "Every blocked call returns"
# therefore rests on the table invariant "an open, bound socket is listed at llc.sap[socket.addr]" being kept by the
# operations that edit the table while the link is up.  Those are C17's contracts (bind puts the socket there; close
# removes exactly the closed socket and drops the access point only with its last socket): obligations of C09 too.
import copy as _copy2
from pyvc.contracts import REGISTRY as _REG
from . import c17_addr as _c17   # noqa
for _c in list(_REG):
    if _c.prop == 'C17' and not _c.expect_fail and not _c.assumed and (
            _c.name.startswith('C17/close.') or _c.name.startswith('C17/_bind_by_')):
        _c2 = _copy2.copy(_c)
        _c2.prop = 'C09'
        _c2.name = 'C09/table.' + _c.name.split('/', 1)[1]
        _REG.append(_c2)

# a socket created AFTER the link has terminated (never bound, state CLOSED): its calls must end as well
for cls in ('LogicalDataLink', 'DataLinkConnection'):
    F = lambda: sock(cls, addr=None, state=state(1), send_queue=Fixed([], 'deque'), recv_queue=Fixed([], 'deque'))  # noqa
    for fn, args in (('sendto', dict(message=Bytes(0, 300), dest=Opt(SAP()), flags=Int(0, 1))),
                     ('recvfrom', {}), ('connect', dict(dest=OneOf(Int(0, 63), Bytes(1, 40)))),
                     ('bind', dict(addr_or_name=OneOf(None, Int(0, 70)))),
                     ('poll', dict(event=OneOf('recv', 'send'), timeout=Opt(Const(0.1)))), ('close', {})):
        contract(L + 'LogicalLinkController.' + fn, 'C09', dict(self=dead_llc(), socket=F(), **args),
                 name='C09/after.%s[fresh %s]' % (fn, cls), raises=DOCARG, **AFTER)
