"""C17 - LLCP addressing: binding, discovery and delivery reach the right socket."""
from .common import *   # noqa
from .c10_miu import tco, DLC_EXTRA, state

P = 'nfc.llcp.pdu:'
T = 'nfc.llcp.tco:'
L = 'nfc.llcp.llc:'
ERR = 'nfc.llcp.err:Error'


def sap_entry(i):
    """llc.sap[i]: None, or a service access point bound at i holding one socket"""
    return Opt(Obj(L + 'ServiceAccessPoint', _partial=False, addr=i, llc=Ref('self'),
                   sock_list=Fixed([Obj(T + 'LogicalDataLink', addr=i)], 'deque'),
                   send_list=Fixed([], 'deque')))


def llc(**kw):
    f = dict(lock=Lock(), cfg=DictOf({'recv-miu': Int(128, 2175), 'send-miu': Int(128, 2175)}),
             sap=LazyList([sap_entry(i) for i in range(64)]),
             snl=DictOf({b'urn:nfc:sn:sdp': 1}))
    f.update(kw)
    return Obj(L + 'LogicalLinkController', **f)


def new_socket(cls='LogicalDataLink', **kw):
    return tco(cls, addr=None, send_queue=Fixed([], 'deque'), recv_queue=Fixed([], 'deque'), **kw)


WF_AFTER = ['self.sap[socket.addr] is not None', 'self.sap[socket.addr].addr == socket.addr',
            'len(self.sap[socket.addr].sock_list) == 1 and self.sap[socket.addr].sock_list[0] is socket']

contract(L + 'LogicalLinkController._bind_by_none', 'C17',
         dict(self=llc(), socket=new_socket()), name='C17/_bind_by_none',
         ensures=[('post.range', '32 <= socket.addr and socket.addr <= 63'),
                  ('post.was_free', 'old(self.sap)[socket.addr] is None'),
                  ('post.least', 'lowest_free(old(self.sap), 32, 64) == socket.addr'),
                  ('post.table', ' and '.join(WF_AFTER)),
                  ('post.frame', 'unchanged_except(self.sap, old(self.sap), socket.addr)')],
         raises={ERR: ['exc.errno == EAGAIN', 'lowest_free(old(self.sap), 32, 64) is None',
                       'socket.addr is None']})
contract(L + 'LogicalLinkController._bind_by_addr', 'C17',
         dict(self=llc(), socket=OneOf(new_socket(), new_socket('RawAccessPoint')), addr=Int()),
         name='C17/_bind_by_addr',
         ensures=[('post.addr', 'socket.addr == addr and 0 <= addr and addr <= 63'),
                  ('post.allowed', 'addr >= 32 or type(socket).__name__ == "RawAccessPoint"'),
                  ('post.was_free', 'old(self.sap)[socket.addr] is None'),
                  ('post.table', ' and '.join(WF_AFTER)),
                  ('post.frame', 'unchanged_except(self.sap, old(self.sap), socket.addr)')],
         raises={ERR: ['socket.addr is None',
                       'implies(addr < 0 or addr > 63, exc.errno == EFAULT)',
                       'implies(0 <= addr and addr <= 63 and addr < 32 and type(socket).__name__ != "RawAccessPoint", '
                       'exc.errno == EACCES)',
                       'implies(0 <= addr and addr <= 63 and (addr >= 32 or type(socket).__name__ == "RawAccessPoint"), '
                       'exc.errno == EADDRINUSE and old(self.sap)[addr if 0 <= addr and addr <= 63 else 0] is not None)']})

contract(L + 'LogicalLinkController._bind_by_name', 'C17',
         dict(self=llc(), socket=new_socket('DataLinkConnection', **DLC_EXTRA), name=Bytes(1, 255)),
         name='C17/_bind_by_name',
         ensures=[('post.range', 'implies(name == b"urn:nfc:sn:snep", socket.addr == 4) and '
                                 'implies(name != b"urn:nfc:sn:snep" and name != b"urn:nfc:sn:sdp", '
                                 '16 <= socket.addr and socket.addr <= 31)'),
                  ('post.was_free', 'old(self.sap)[socket.addr] is None'),
                  ('post.name_free', 'old(self.snl).get(name) is None'),
                  ('post.least', 'implies(socket.addr >= 16, lowest_free(old(self.sap), 16, 32) == socket.addr)'),
                  ('post.table', ' and '.join(WF_AFTER)),
                  ('post.names', 'self.snl.get(name) == socket.addr'),
                  ('post.frame', 'unchanged_except(self.sap, old(self.sap), socket.addr)')],
         raises={ERR: ['socket.addr is None', 'unchanged_except(self.sap, old(self.sap), -1)',
                       'implies(exc.errno == EADDRINUSE, old(self.snl).get(name) is not None or '
                       '(name == b"urn:nfc:sn:snep" and old(self.sap)[4] is not None))',
                       'exc.errno == EFAULT or exc.errno == EADDRINUSE or exc.errno == EADDRNOTAVAIL or '
                       'exc.errno == EAGAIN']})
contract(L + 'LogicalLinkController.bind', 'C17',
         dict(self=llc(), socket=tco('LogicalDataLink', addr=SAP()), addr_or_name=OneOf(None, Int(), Bytes(1, 255))),
         name='C17/bind.already-bound', ensures=[('post', 'False')],
         raises={ERR: ['exc.errno == EINVAL', 'socket.addr == old(socket.addr)',
                       'unchanged_except(self.sap, old(self.sap), -1)']})
# closing the last socket frees the address
contract(L + 'LogicalLinkController.close', 'C17',
         dict(self=llc(sap=LazyList([Opt(Obj(L + 'ServiceAccessPoint', _partial=False, addr=i, llc=Ref('self'),
                                             sock_list=Fixed([Ref('socket')], 'deque'),
                                             send_list=Fixed([], 'deque'))) for i in range(64)])),
              socket=tco('LogicalDataLink', addr=Int(0, 63))),
         name='C17/close.last-socket', requires=['self.sap[socket.addr] is not None'],
         ensures=[('post.freed', 'self.sap[old(socket.addr)] is None'),
                  ('post.frame', 'unchanged_except(self.sap, old(self.sap), old(socket.addr))')],
         raises={})
# connectionless delivery: a UI PDU reaches only the socket bound at its DSAP, intact
UI = Obj(P + 'UnnumberedInformation', ptype=3, dsap=SAP(), ssap=SAP(), data=Bytes())
contract(L + 'LogicalLinkController.dispatch', 'C17',
         dict(self=llc(sec=None, sap=LazyList([Opt(Obj(
             L + 'ServiceAccessPoint', _partial=False, addr=i, llc=Ref('self'),
             sock_list=Fixed([Obj(T + 'LogicalDataLink', lock=Lock(), recv_ready=Cond('lock'), addr=i,
                                  recv_queue=Fixed([], 'deque'), recv_buf=1, recv_miu=Int(128, 2175),
                                  peer=Opt(SAP()))], 'deque'),
             send_list=Fixed([], 'deque'))) for i in range(64)])), rcvd_pdu=UI),
         name='C17/dispatch.ui',
         ensures=[('post.delivered',
                   'implies(old(self.sap)[rcvd_pdu.dsap] is not None and '
                   'len(rcvd_pdu.data) <= self.sap[rcvd_pdu.dsap].sock_list[0].recv_miu and '
                   '(self.sap[rcvd_pdu.dsap].sock_list[0].peer is None or '
                   ' self.sap[rcvd_pdu.dsap].sock_list[0].peer == rcvd_pdu.ssap), '
                   'len(self.sap[rcvd_pdu.dsap].sock_list[0].recv_queue) == 1 and '
                   'self.sap[rcvd_pdu.dsap].sock_list[0].recv_queue[0] is rcvd_pdu)'),
                  ('post.frame', 'unchanged_except(self.sap, old(self.sap), -1)')],
         raises={})
RCV = tco('LogicalDataLink', addr=SAP(), state=state(4),
          recv_queue=Fixed([Obj(P + 'UnnumberedInformation', ptype=3, dsap=SAP(), ssap=SAP(), data=Bytes())],
                           'deque'))
contract(T + 'LogicalDataLink.recvfrom', 'C17', dict(self=RCV), name='C17/recvfrom',
         ensures=[('post.payload', 'result[0] == old(self.recv_queue[0].data)'),
                  ('post.source', 'result[1] == old(self.recv_queue[0].ssap)'),
                  ('post.consumed', 'len(self.recv_queue) == 0')], raises={})
# connect-by-name reaches the socket bound under that name, or answers DM
CONN = Obj(P + 'Connect', ptype=4, dsap=1, ssap=SAP(), miu=Int(128, 2175), rw=Int(0, 15), sn=Opt(Bytes(1, 255)))
LISTEN = lambda i: tco('DataLinkConnection', addr=i, state=state(2), recv_queue=Fixed([], 'deque'),   # noqa
                       recv_buf=Int(1, 16), send_queue=Fixed([], 'deque'), **DLC_EXTRA)
contract(L + 'LogicalLinkController.dispatch', 'C17',
         dict(self=llc(sec=None, snl=DictOf({b'urn:nfc:sn:sdp': 1, b'urn:nfc:sn:snep': 4, b'urn:nfc:xsn:x:y': 17}),
                       sap=LazyList([Opt(Obj(L + 'ServiceAccessPoint', _partial=False, addr=i, llc=Ref('self'),
                                             sock_list=Fixed([LISTEN(i)], 'deque'), send_list=Fixed([], 'deque')))
                                     if i != 1 else Obj(L + 'ServiceDiscovery', _partial=False, llc=Ref('self'),
                                                        dmpdu=Fixed([], 'deque'), snl=DictOf({}),
                                                        sdreq=Fixed([], 'deque'), sdres=Fixed([], 'deque'))
                                     for i in range(64)])), rcvd_pdu=CONN),
         name='C17/dispatch.connect-by-name',
         ensures=[('post.reached',
                   'implies(rcvd_pdu.sn is not None and rcvd_pdu.sn == b"urn:nfc:xsn:x:y" and '
                   'old(self.sap)[17] is not None, '
                   'len(self.sap[17].sock_list[0].recv_queue) == 1 and '
                   'self.sap[17].sock_list[0].recv_queue[0].dsap == 17 and '
                   'self.sap[17].sock_list[0].recv_queue[0].ssap == rcvd_pdu.ssap and len(self.sap[1].dmpdu) == 0)'),
                  ('post.absent',
                   'implies(rcvd_pdu.sn is None or (rcvd_pdu.sn != b"urn:nfc:xsn:x:y" and '
                   'rcvd_pdu.sn != b"urn:nfc:sn:snep" and rcvd_pdu.sn != b"urn:nfc:sn:sdp"), '
                   'len(self.sap[1].dmpdu) == 1 and self.sap[1].dmpdu[0].dsap == rcvd_pdu.ssap)')],
         raises={})
contract(L + 'LogicalLinkController._bind_by_none', 'C17', dict(self=llc(), socket=new_socket()),
         name='C17/sentinel.bind-lowest-plus-one', expect_fail=True,
         ensures=[('post', 'lowest_free(old(self.sap), 33, 64) == socket.addr')], raises={ERR: []})
# closing one of two sockets bound at an address keeps the address (and the other socket) in the table
contract(L + 'LogicalLinkController.close', 'C17',
         dict(self=llc(sap=LazyList([Opt(Obj(L + 'ServiceAccessPoint', _partial=False, addr=i, llc=Ref('self'),
                                             sock_list=Fixed([Ref('socket'), Obj(T + 'DataLinkConnection', addr=i)],
                                                             'deque'),
                                             send_list=Fixed([], 'deque'))) for i in range(64)])),
              socket=tco('DataLinkConnection', addr=Int(0, 63), state=state(2), send_queue=Fixed([], 'deque'),
                         recv_queue=Fixed([], 'deque'), **DLC_EXTRA)),
         name='C17/close.one-of-two', requires=['self.sap[socket.addr] is not None'],
         ensures=[('post.kept', 'self.sap[old(socket.addr)] is not None and '
                                'len(self.sap[old(socket.addr)].sock_list) == 1 and '
                                'self.sap[old(socket.addr)].sock_list[0] is not socket'),
                  ('post.frame', 'unchanged_except(self.sap, old(self.sap), -1)')],
         raises={})

# service discovery responder: a lookup request is answered from the table of bound service names alone - the
# address the name is bound to, or 0 when no socket is bound under it (well-known or not)
SNLP = 'nfc.llcp.pdu:ServiceNameLookup'
for _known in (True, False):
    contract(L + 'ServiceDiscovery.enqueue', 'C17',
             dict(self=Obj(L + 'ServiceDiscovery', _partial=False,
                           llc=Obj(L + 'LogicalLinkController', lock=Lock(),
                                   snl=DictOf({b'urn:nfc:sn:sdp': 1, b'urn:nfc:sn:other': Int(2, 63)}
                                              if not _known else
                                              {b'urn:nfc:sn:sdp': 1, b'urn:nfc:sn:snep': Int(2, 63)})),
                           snl=DictOf({}), sent=DictOf({}), tids=Fixed([]), sdreq=Fixed([], 'deque'),
                           sdres=Fixed([], 'deque'), lock=Lock(), resp=Cond('lock'), mode=0),
                  rcvd_pdu=Obj(SNLP, _partial=False, ptype=9, dsap=1, ssap=1, sdres=Fixed([]),
                               sdreq=Fixed([Tup(Byte(), Const(b'urn:nfc:sn:snep'))]))),
             name='C17/sdp.responder[%s]' % ('bound' if _known else 'unbound'),
             ensures=[('post.answer', 'len(self.sdres) == 1 and self.sdres[0][0] == rcvd_pdu.sdreq[0][0] and '
                                      'self.sdres[0][1] == (self.llc.snl[b"urn:nfc:sn:snep"] if %s else 0)' % _known)],
             raises={})

# the same for an SNL PDU with any number of lookup requests in any order of bound and unbound names: each answer
# is right when it is appended, from whatever the previous requests left in the loop's locals (invariant checked
# for an arbitrary iteration: the request at position _k-1 got the address bound under its name, or 0)
_SNEP, _NONE = b'urn:nfc:sn:snep', b'urn:nfc:sn:none'
_EXP = ('(self.llc.snl[b"urn:nfc:sn:snep"] if rcvd_pdu.sdreq[%s][1] == b"urn:nfc:sn:snep" else '
        '(1 if rcvd_pdu.sdreq[%s][1] == b"urn:nfc:sn:sdp" else 0))')
contract(L + 'ServiceDiscovery.enqueue', 'C17',
         dict(self=Obj(L + 'ServiceDiscovery', _partial=False,
                       llc=Obj(L + 'LogicalLinkController', lock=Lock(),
                               snl=DictOf({b'urn:nfc:sn:sdp': 1, _SNEP: Int(2, 63)})),
                       snl=DictOf({}), sent=DictOf({}), tids=Fixed([]), sdreq=Fixed([], 'deque'),
                       sdres=Fixed([], 'deque'), lock=Lock(), resp=Cond('lock'), mode=0),
              rcvd_pdu=Obj(SNLP, _partial=False, ptype=9, dsap=1, ssap=1, sdres=Fixed([]),
                           sdreq=ListOf(Tup(Byte(), Bytes(1, 30))))),
         name='C17/sdp.responder[many]',
         ensures=[('post.count', 'len(self.sdres) == len(rcvd_pdu.sdreq)'),
                  ('post.last', 'len(self.sdres) == 0 or (self.sdres[-1][0] == rcvd_pdu.sdreq[-1][0] and '
                                'self.sdres[-1][1] == %s)' % (_EXP % ('-1', '-1')))],
         raises={},
         loops={('nfc.llcp.llc.ServiceDiscovery.enqueue', 'For', 1): LoopSpec(
             invariant=['len(self.sdres) == _k',
                        '_k == 0 or (self.sdres[_k - 1][0] == rcvd_pdu.sdreq[_k - 1][0] and '
                        'self.sdres[_k - 1][1] == %s)' % (_EXP % ('_k - 1', '_k - 1'))],
             havoc={'self.sdres': ListOf(Tup(Byte(), Int(0, 63)), kind='deque'), 'sap': Int(0, 63),
                    'tid': Byte(), 'name': Bytes(1, 30)})})

# connect-by-name on a socket that was refused before: a connect answered with DM leaves the socket CLOSED and
# *unconnected* (peer as before, i.e. None), so that a later connect() on the same socket accepts the CC from
# whatever address the name is bound to then (the access point filters inbound PDUs by socket.peer)
from .c05_dlc import dlc as _dlc, state as _state   # noqa
_DMP = Obj('nfc.llcp.pdu:DisconnectedMode', ptype=7, dsap=SAP(), ssap=SAP(), reason=Byte())
for _prop in ('C17', 'C05'):
    contract(T + 'DataLinkConnection.connect', _prop,
             dict(self=_dlc(state=_state(1), peer=None, send_queue=Fixed([], 'deque'),
                            recv_queue=Fixed([_DMP], 'deque'), recv_miu=Int(128, 2175), recv_win=Int(0, 15)),
                  dest=OneOf(Int(0, 63), Const(b'urn:nfc:sn:snep'))),
             name='%s/connect.refused' % _prop,
             ensures=[('post', 'False')],
             raises={'nfc.llcp.err:ConnectRefused': ['self.peer is None', 'self.state.value == 1',
                                                     'exc.reason == old(self.recv_queue[0].reason)']})

# closing the last socket of a named service frees the NAME as well: afterwards name resolution and
# connect-by-name report absence (they must not reach whichever socket is bound at that address next), and the
# name can be bound again
contract(L + 'LogicalLinkController.close', 'C17',
         dict(self=llc(snl=DictOf({b'urn:nfc:sn:sdp': 1, b'urn:nfc:sn:x': Int(16, 31), b'urn:nfc:sn:y': Int(16, 31)}),
                       sap=LazyList([Opt(Obj(L + 'ServiceAccessPoint', _partial=False, addr=i, llc=Ref('self'),
                                             sock_list=Fixed([Ref('socket')], 'deque'),
                                             send_list=Fixed([], 'deque'))) for i in range(64)])),
              socket=tco('LogicalDataLink', addr=Int(16, 31))),
         name='C17/close.named-service',
         requires=['self.sap[socket.addr] is not None', 'self.snl[b"urn:nfc:sn:x"] == socket.addr',
                   'self.snl[b"urn:nfc:sn:y"] != socket.addr'],
         ensures=[('post.name-freed', 'self.snl.get(b"urn:nfc:sn:x") is None'),
                  ('post.name-frame', 'self.snl.get(b"urn:nfc:sn:y") == old(self.snl[b"urn:nfc:sn:y"]) and '
                                      'self.snl.get(b"urn:nfc:sn:sdp") == 1')],
         raises={})
# the same for a well-known service (fixed address below 16; seed C17-R9A kept such names in the table): closing the
# last socket bound under urn:nfc:sn:snep frees address 4 AND the name, whatever else is registered
contract(L + 'LogicalLinkController.close', 'C17',
         dict(self=llc(snl=DictOf({b'urn:nfc:sn:sdp': 1, b'urn:nfc:sn:snep': 4, b'urn:nfc:sn:y': Int(16, 31)}),
                       sap=LazyList([Opt(Obj(L + 'ServiceAccessPoint', _partial=False, addr=i, llc=Ref('self'),
                                             sock_list=Fixed([Ref('socket')], 'deque'),
                                             send_list=Fixed([], 'deque'))) for i in range(64)])),
              socket=tco('LogicalDataLink', addr=Const(4))),
         name='C17/close.well-known-service',
         requires=['self.sap[4] is not None'],
         ensures=[('post.freed', 'self.sap[4] is None'),
                  ('post.name-freed', 'self.snl.get(b"urn:nfc:sn:snep") is None'),
                  ('post.name-frame', 'self.snl.get(b"urn:nfc:sn:y") == old(self.snl[b"urn:nfc:sn:y"]) and '
                                      'self.snl.get(b"urn:nfc:sn:sdp") == 1')],
         raises={})
