"""C12 - ISO-DEP exchanges each APDU exactly once or reports a tag error
(per-function contracts; fault-script recovery is not decided, see DESIGN.md section 6)."""
from .common import *   # noqa

T4 = 'nfc.tag.tt4:'
T4E = T4 + 'Type4TagCommandError'
contract(T4 + 'Type4Tag.transceive', 'C12', dict(self=Any(), data=Any()), name='C12/tt4.transceive', assumed=True,
         note='ISO-DEP exchange of one APDU (contract below): the response APDU or Type4TagCommandError',
         raises={T4E: []}, returns=Opt(Bytes(0, None, mutable=True)))
for ext, spec in ((False, 'apdu_short'), (True, 'apdu_extended')):
    lim_d, lim_r = (255, 256) if not ext else (65535, 65536)
    contract(T4 + 'Type4Tag.send_apdu', 'C12',
             dict(self=Obj(T4 + 'Type4Tag', _extended_length_support=ext), cla=Byte(), ins=Byte(), p1=Byte(), p2=Byte(),
                  data=Opt(Bytes(0, 70000)), mrl=Int(0, 70000), check_status=Bool()),
             name='C12/send_apdu[%s]' % ('extended' if ext else 'short'), use=['C12/tt4.transceive'],
             ensures=[('O-apdu.command', 'call_arg("C12/tt4.transceive", "data") == %s(cla, ins, p1, p2, data, mrl)' % spec),
                      ('O-apdu.response', 'implies(check_status, result == call_ret("C12/tt4.transceive")[:-2] and '
                                          'call_ret("C12/tt4.transceive")[-2:] == b"\\x90\\x00")'),
                      ('O-apdu.raw', 'implies(not check_status, result == call_ret("C12/tt4.transceive"))')],
             raises={T4E: [], 'ValueError': ['(data is not None and len(data) > %d) or mrl > %d' % (lim_d, lim_r)]})
ISO = lambda: Obj(T4 + 'IsoDepInitiator', miu=Int(1, 253), pni=Int(0, 1), fwt=Const(0.01), delta_fwt=Const(0.0036),   # noqa
                  n_retry_ack=Int(0, 5), n_retry_nak=Int(0, 5),
                  clf=Obj('models.clf_models:BlockClf', _partial=False, sent=Fixed([]), outcomes=Fixed([]),
                          answers=Fixed([]), limit=Int(2, 254)))
EQ = 'nfc.tag.tt4.IsoDepInitiator.exchange'
# (also registered for C16: the ISO-DEP layer is where link errors become Type4TagCommandError)
for _prop in ('C12', 'C16'):
  contract(T4 + 'IsoDepInitiator.exchange', _prop, dict(self=ISO(), command=Bytes(1, None, mutable=True), timeout=None),
         name='%s/IsoDep.exchange' % _prop, requires=['self.clf.limit == self.miu + 1'],
         ensures=[('O-bn', 'self.pni == 0 or self.pni == 1')],
         raises={T4E: ['self.pni == 0 or self.pni == 1']},
         # ISO/IEC 14443-4 7.5.3.1 rule B: the block number is toggled for EVERY received I-block / R(ACK) carrying
         # the current number - the last block of a chain included: after each step the reader's number differs from
         # the number of the block just received (a number left behind makes the next exchange accept a stale block
         # or re-send an executed command)
         loops={(EQ, 'For', 0): LoopSpec(invariant=['self.pni == 0 or self.pni == 1',
                                                    '_k == 0 or (len(data) >= 1 and data[0] % 2 != self.pni)'],
                                         havoc={'self.pni': Int(), 'data': Bytes(1, None, mutable=True),
                                                'response': Bytes(0, None, mutable=True),
                                                'self.clf.sent': Fixed([]), 'self.clf.outcomes': Fixed([]),
                                                'self.clf.answers': Fixed([])}),
                # what goes out in the (re)transmission loop is the current I-block - PCB plus exactly the
                # chunk command[offset:offset+miu] - or an R(NAK); never a truncated or shifted chunk
                (EQ, 'For', 1): LoopSpec(invariant=['self.pni == 0 or self.pni == 1', 'len(data) <= self.miu + 1',
                                                    'data == pfb + command[offset:offset + self.miu] or '
                                                    'data == bytearray([0xB2 | self.pni])'],
                                         havoc={'data': '(bytearray(pfb + command[offset:offset + self.miu]), '
                                                        'bytearray([0xB2 | self.pni]))[nondet_int(0, 1)]',
                                                'self.clf.sent': Fixed([]), 'self.clf.outcomes': Fixed([]),
                                                'self.clf.answers': Fixed([])}),
                (EQ, 'For', 2): LoopSpec(invariant=['self.pni == 0 or self.pni == 1', 'len(data) <= self.miu + 1'],
                                         havoc={'data': Bytes(1, None, mutable=True),
                                                'self.clf.sent': Fixed([]), 'self.clf.outcomes': Fixed([]),
                                                'self.clf.answers': Fixed([])}),
                (EQ, 'While', 0): LoopSpec(invariant=['self.pni == 0 or self.pni == 1', 'len(data) >= 1'],
                                           havoc={'data': Bytes(0, None, mutable=True),
                                                  'self.clf.sent': Fixed([]), 'self.clf.outcomes': Fixed([]),
                                                  'self.clf.answers': Fixed([])}),
                (EQ, 'While', 2): LoopSpec(invariant=['self.pni == 0 or self.pni == 1', 'len(data) >= 1'],
                                           havoc={'data': Bytes(0, None, mutable=True),
                                                  'self.clf.sent': Fixed([]), 'self.clf.outcomes': Fixed([]),
                                                  'self.clf.answers': Fixed([])}),
                (EQ, 'While', 1): LoopSpec(invariant=['self.pni == 0 or self.pni == 1', 'len(data) >= 1',
                                                      'data[0] % 2 != self.pni'],
                                           havoc={'self.pni': Int(), 'data': Bytes(0, None, mutable=True),
                                                  'response': Bytes(0, None, mutable=True),
                                                  'self.clf.sent': Fixed([]), 'self.clf.outcomes': Fixed([]),
                                                  'self.clf.answers': Fixed([])})},
         max_unroll=8, max_paths=20000, budget_s=240)

# activation: frame size and waiting time for every standard-conformant ATS
contract(T4 + 'Type4ATag.__init__', 'C12',
         dict(self=Obj(T4 + 'Type4ATag', _partial=False),
              clf=Obj('models.clf_models:AtsClf', _partial=False, ats=Bytes(1, 20), max_send_data_size=Int(16, 65535),
                      max_recv_data_size=Int(16, 65535)),
              target=Obj('nfc.clf:RemoteTarget', _partial=False, _brty_send='106A', _brty_recv='106A',
                         sdd_res=Bytes(4, 10, mutable=True), sens_res=Bytes(2, 2, mutable=True),
                         sel_res=Bytes(1, 1, mutable=True))),
         name='C12/Type4ATag.activate', requires=['conformant_ats(clf.ats)'],
         ensures=[('O-fsc', 'self._dep.miu + 3 == min(fsc_of(ats_fsci(clf.ats)), clf.max_send_data_size)'),
                  ('O-fwt', 'self._dep.fwt == 4096 / 13.56E6 * 2**ats_fwi(clf.ats)'),
                  ('O-bn.init', 'self._dep.pni == 0')],
         raises={})

# Type 4B activation: frame size and waiting time come from the protocol info of SENSB_RES (FSCI above 8 and
# FWI 15 are RFU: 256 octets resp. FWI 4), limited by what the frontend can send
contract(T4 + 'Type4BTag.__init__', 'C12',
         dict(self=Obj(T4 + 'Type4BTag', _partial=False),
              clf=Obj('models.clf_models:AtsClf', _partial=False, ats=Bytes(0, 20), max_send_data_size=Int(16, 65535),
                      max_recv_data_size=Int(16, 65535)),
              target=Obj('nfc.clf:RemoteTarget', _partial=False, _brty_send='106B', _brty_recv='106B',
                         sensb_res=Bytes(12, 13, mutable=True))),
         name='C12/Type4BTag.activate',
         ensures=[('O-fsc', 'self._dep.miu + 3 == min(fsc_of(min(target.sensb_res[10] // 16, 8)), '
                            'clf.max_send_data_size)'),
                  ('O-fwt', 'self._dep.fwt == 4096 / 13.56E6 * 2**(target.sensb_res[11] // 16 '
                            'if target.sensb_res[11] // 16 <= 14 else 4)'),
                  ('O-bn.init', 'self._dep.pni == 0')],
         raises={})

# one instance of "a lost or corrupted block the recovery rules can absorb": single-block command, the first
# attempt fails; the PCD sends R(NAK) (interface obligation of the scripted link), the card retransmits its
# response, and exactly that response is returned - once
contract(T4 + 'IsoDepInitiator.exchange', 'C12',
         dict(self=Obj(T4 + 'IsoDepInitiator', miu=10, pni=Int(0, 1), fwt=Const(0.01), delta_fwt=Const(0.0036),
                       n_retry_ack=Int(1, 5), n_retry_nak=Int(1, 5),
                       clf=Obj('models.clf_models:IsoScriptClf', _partial=False, kind=Int(1, 2), pni=Ref('self.pni'),
                               payload=Bytes(0, None, mutable=True), n=0)),
              command=Bytes(1, 10, mutable=True), timeout=None),
         name='C12/IsoDep.recovers-one-fault',
         ensures=[('O-recover.response', 'result == self.clf.payload'),
                  ('O-recover.bn', 'self.pni == 1 - old(self.pni)'), ('O-recover.once', 'self.clf.n == 2')],
         raises={}, max_unroll=12)
contract(T4 + 'IsoDepInitiator.exchange', 'C12',
         dict(self=Obj(T4 + 'IsoDepInitiator', miu=10, pni=Int(0, 1), fwt=Const(0.01), delta_fwt=Const(0.0036),
                       n_retry_ack=Int(1, 5), n_retry_nak=Int(1, 5),
                       clf=Obj('models.clf_models:IsoChainScriptClf', _partial=False, pni=Ref('self.pni'), miu=10,
                               command=Ref('command'), payload=Bytes(0, None, mutable=True), n=0)),
              command=Bytes(11, 20, mutable=True), timeout=None),
         name='C12/IsoDep.recovers-lost-ack-while-chaining',
         ensures=[('O-recover.response', 'result == self.clf.payload'),
                  ('O-recover.bn', 'self.pni == old(self.pni)'), ('O-recover.once', 'self.clf.n == 3')],
         raises={}, max_unroll=12)
contract(T4 + 'IsoDepInitiator.exchange', 'C12',
         dict(self=Obj(T4 + 'IsoDepInitiator', miu=10, pni=Int(0, 1), fwt=Const(0.01), delta_fwt=Const(0.0036),
                       n_retry_ack=Int(1, 5), n_retry_nak=Int(1, 5),
                       clf=Obj('models.clf_models:IsoLostBlockScriptClf', _partial=False, pni=Ref('self.pni'), miu=10,
                               command=Ref('command'), payload=Bytes(0, None, mutable=True), n=0)),
              command=Bytes(11, 20, mutable=True), timeout=None),
         name='C12/IsoDep.retransmits-lost-block',
         ensures=[('O-recover.response', 'result == self.clf.payload'),
                  ('O-recover.bn', 'self.pni == old(self.pni)'), ('O-recover.once', 'self.clf.n == 4')],
         raises={}, max_unroll=12)
contract(T4 + 'IsoDepInitiator.exchange', 'C12',
         dict(self=Obj(T4 + 'IsoDepInitiator', miu=10, pni=Int(0, 1), fwt=Const(0.01), delta_fwt=Const(0.0036),
                       n_retry_ack=Int(1, 5), n_retry_nak=Int(1, 5),
                       clf=Obj('models.clf_models:IsoWtxInChainScriptClf', _partial=False, pni=Ref('self.pni'),
                               first=Bytes(1, None, mutable=True), second=Bytes(0, None, mutable=True), n=0)),
              command=Bytes(1, 10, mutable=True), timeout=None),
         name='C12/IsoDep.wtx-inside-response-chain',
         ensures=[('O-chain.response', 'result == self.clf.first + self.clf.second'),
                  ('O-chain.blocks', 'self.clf.n == 3')],
         raises={}, max_unroll=12)
