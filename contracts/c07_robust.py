"""C07 - bytes from the remote peer cannot crash or hang the stack.

Total-robustness contracts: for every byte string at the position where the
peer speaks, the function returns or raises only its documented classes."""
from .common import *   # noqa
from .c11_pdu import DEC_LOOPS, DEC_PARAMS, PT_NAMES

DEP = 'nfc.dep:'
P = 'nfc.llcp.pdu:'
L = 'nfc.llcp.llc:'
PE = 'nfc.clf:ProtocolError'
TE = 'nfc.clf:TransmissionError'
BRTY = lambda: OneOf(Obj('nfc.clf:RemoteTarget', _partial=False, _brty_send='106A', _brty_recv='106A'),   # noqa
                     Obj('nfc.clf:RemoteTarget', _partial=False, _brty_send='212F', _brty_recv='212F'))

for role in ('Initiator', 'Target'):
    contract(DEP + role + '.decode_frame', 'C07',
             dict(self=Obj(DEP + role, target=BRTY()), frame=Bytes(0, 300, mutable=True)),
             name='C07/dep.%s.decode_frame' % role, raises={PE: [], TE: []})
for cls in ('ATR_REQ', 'ATR_RES', 'PSL_REQ', 'PSL_RES', 'DEP_REQ', 'DEP_RES', 'DSL_REQ', 'DSL_RES', 'RLS_REQ',
            'RLS_RES'):
    contract(DEP + cls + '.decode', 'C07', dict(data=Bytes(0, 300, mutable=True)),
             name='C07/dep.%s.decode' % cls, raises={PE: [], TE: []})

# LLCP: nesting depth of aggregated frames is bounded - the PDU decoded inside an AGF is never an AGF itself
DE = P + 'DecodeError'
LEAF_READS = {'data': ('offset', 'own_end(data, offset, size)', {'data': 'pdu_octets(data, offset, size)',
                                                                   'offset': '0'})}
contract(P + 'decode', 'C07', DEC_PARAMS, name='C07/decode.leaf',
         requires=['(size is not None and size < 2) or len(data) < offset + 2 or hdr_ptype(data[offset:offset+2]) != 2'],
         raises={DE: []}, reads=LEAF_READS, returns=Obj(P + 'ProtocolDataUnit'),
         cases=['C11/decode[short]', 'C11/decode[tiny]'] + ['C11/decode[%s]' % n for k, n in PT_NAMES.items() if k != 2])
contract(P + 'AggregatedFrame.decode', 'C07', dict(data=Bytes(), offset=Int(0, None), size=Int()),
         name='C07/AggregatedFrame.decode',
         requires=['offset + size <= len(data)', 'size >= 2'],
         raises={DE: []}, loops=DEC_LOOPS, use=['C07/decode.leaf'])

SIMPLE_LOOPS = {k: LoopSpec(invariant=[], decreases='size', havoc=dict(v.havoc)) for k, v in DEC_LOOPS.items()}
# the PAX decoder yields parameters within their field widths (used modularly by llc.activate below)
PAX_RANGES = ['{0}._version is None or (0 <= {0}._version and {0}._version <= 255)',
              '{0}._miux is None or (0 <= {0}._miux and {0}._miux <= 0x7FF)',
              '{0}._wks is None or (0 <= {0}._wks and {0}._wks <= 0xFFFF)',
              '{0}._lto is None or (0 <= {0}._lto and {0}._lto <= 255)',
              '{0}._opt is None or (0 <= {0}._opt and {0}._opt <= 7)']
PAX_LOOP = {('nfc.llcp.pdu.ParameterExchange.decode', 'While', 0): LoopSpec(
    invariant=[c.format('pax_pdu') for c in PAX_RANGES], decreases='size',
    havoc={'offset': Int(), 'size': Int(), 'pax_pdu._version': Opt(Int()), 'pax_pdu._miux': Opt(Int()),
           'pax_pdu._wks': Opt(Int()), 'pax_pdu._lto': Opt(Int()), 'pax_pdu._opt': Opt(Int())})}
contract(P + 'ParameterExchange.decode', 'C07', dict(data=Bytes(), offset=Int(0, None), size=Int()),
         name='C07/ParameterExchange.decode', requires=['offset + size <= len(data)'],
         ensures=[('post.range#%d' % i, c.format('result')) for i, c in enumerate(PAX_RANGES)],
         raises={DE: []}, loops=PAX_LOOP,
         returns=Obj(P + 'ParameterExchange', _partial=False, ptype=1, dsap=0, ssap=0, _version=Opt(Int()),
                     _miux=Opt(Int()), _wks=Opt(Int()), _lto=Opt(Int()), _opt=Opt(Int())))
# the general bytes of the peer's ATR are arbitrary
for cls in ('Initiator', 'Target'):
    contract(DEP + cls + '.activate', 'C07', dict(self=Any()), name='C07/%s.activate.anybytes' % cls,
             assumed=True, note='the MAC returns whatever general bytes the peer sent (or None)', raises={},
             returns=Opt(Bytes(0, 48)))
    contract(L + 'LogicalLinkController.activate', 'C07',
             dict(self=Obj(L + 'LogicalLinkController', _partial=False,
                           link=Obj(L + 'LogicalLinkController.LinkState', _partial=False,
                                    names=("SHUTDOWN", "LISTEN", "CONNECT", "CONNECTED", "ESTABLISHED",
                                           "DISCONNECT", "CLOSED"), value=0),
                           cfg=DictOf({'recv-miu': Int(128, 2175), 'send-lto': Int(0, 2550),
                                       'send-lsc': Int(0, 3), 'send-agf': Bool(), 'llcp-sec': Bool()}),
                           snl=DictOf({b'urn:nfc:sn:sdp': 1}), sap=None, sec=None, mac=None, lock=Lock()),
                  mac=Obj(DEP + cls, rwt=Const(0.01))),
             name='C07/llc.activate.%s' % cls.lower(),
             use=['C07/%s.activate.anybytes' % cls, 'C07/ParameterExchange.decode'],
             ensures=[('post.bool', 'result == True or result == False')], raises={},
             loops=SIMPLE_LOOPS)

# commands sent to an emulated Type 3 Tag
T3EMU = 'nfc.tag.tt3:Type3TagEmulation'
EMU = lambda: Obj(T3EMU, idm=Bytes(8, 8, mutable=True), pmm=Bytes(8, 8, mutable=True),   # noqa
                  sys=Bytes(2, 2, mutable=True),
                  services=DictOf({0x000B: Tup(Func('lambda n, rb, re: None if nondet_bool() else nondet_bytearray(16, 16)'),
                                               Func('lambda n, data, wb, we: nondet_bool()'))}))
# the two block-list parsers: whatever the command data, only IndexError (malformed list) escapes.
# They are verified for at most 2 services and 2 blocks (bounded) and used as summaries below.
for fn in ('read_without_encryption', 'write_without_encryption'):
    contract(T3EMU + '.' + fn, 'C07', dict(self=EMU(), cmd_data=Bytes(0, 60, mutable=True)),
             name='C07/tt3emu.%s' % fn, bounded='bounded: at most 2 services and 2 blocks in the command',
             bounds=['len(cmd_data) == 0 or cmd_data[0] <= 2',
                       'len(cmd_data) < 2 or cmd_data[0] != 0 or cmd_data[1] <= 2',
                       'len(cmd_data) < 4 or cmd_data[0] != 1 or cmd_data[3] <= 2',
                       'len(cmd_data) < 6 or cmd_data[0] != 2 or cmd_data[5] <= 2'],
             ensures=[('post.rsp', 'len(result) >= 2 and len(result) <= 243')], raises={'IndexError': []},
             returns=Bytes(2, 243, mutable=True), max_paths=8000)
# the same parsers over long block lists (the status flag of an error response names the position of the failing
# block: any of the 15 positions a command may list must produce an octet): one service, every block list
# element in the 2-byte format, any number of blocks
for fn in ('read_without_encryption', 'write_without_encryption'):
    contract(T3EMU + '.' + fn, 'C07', dict(self=EMU(), cmd_data=Bytes(0, 300, mutable=True)),
             name='C07/tt3emu.%s[long-list]' % fn,
             bounded='bounded: one service, at most 16 block list elements, all in the 2-byte format',
             bounds=['len(cmd_data) >= 4 and cmd_data[0] == 1 and cmd_data[3] <= 16'] +
                    ['len(cmd_data) <= %d or cmd_data[%d] >= 128' % (4 + 2 * k, 4 + 2 * k) for k in range(16)],
             ensures=[('post.rsp', 'len(result) >= 2 and len(result) <= 259')], raises={'IndexError': []},
             max_paths=8000)
contract(T3EMU + '.process_command', 'C07', dict(self=EMU(), cmd=Bytes(0, 300, mutable=True)),
         name='C07/tt3emu.process_command',
         use=['C07/tt3emu.read_without_encryption', 'C07/tt3emu.write_without_encryption'],
         ensures=[('post.rsp', 'result is None or len(result) >= 2')], raises={})

# SNEP server: a complete request of any content (request code, length field, information field) is answered;
# nothing but a response comes out of process_snep_request (struct.error from a short GET would kill the
# serving thread).  ndeflib is outside the verified code: decoder/encoder are assumed to return or raise
# ndef.DecodeError / ndef.EncodeError; the application upcalls return a response code or records.
SS = 'nfc.snep.server:'
contract('ndef:message_decoder', 'C07', dict(octets=Any()), name='C07/ndef.message_decoder', assumed=True,
         note='ndeflib (observed, 200000 mutated messages): decodes the octets or raises ndef.DecodeError, or - for '
              'some malformed records, e.g. a record type with an octet above 7Fh - ValueError/UnicodeDecodeError',
         raises={'ndef:DecodeError': [], 'ValueError': []}, returns=Fixed([]))
contract('ndef:message_encoder', 'C07', dict(message=Any()), name='C07/ndef.message_encoder', assumed=True,
         note='ndeflib: yields the octets of each record', raises={}, returns=Fixed([]))
contract(SS + 'SnepServer.process_put_request', 'C07', dict(self=Any(), ndef_message=Any()),
         name='C07/snep.process_put_request', assumed=True, note='application upcall', raises={}, returns=Int(0, 255))
contract(SS + 'SnepServer.process_get_request', 'C07', dict(self=Any(), ndef_message=Any()),
         name='C07/snep.process_get_request', assumed=True, note='application upcall: response code or records',
         raises={}, returns=OneOf(Int(0, 255), Fixed([])))
contract(SS + 'SnepServer.process_snep_request', 'C07',
         dict(self=Obj(SS + 'SnepServer', max_acceptable_length=Int(0, None)),
              request_data=Bytes(6, None, mutable=True)),
         name='C07/snep.process_snep_request',
         use=['C07/ndef.message_decoder', 'C07/ndef.message_encoder', 'C07/snep.process_put_request',
              'C07/snep.process_get_request'],
         requires=['len(request_data) - 6 >= be32(request_data[2:6])'],
         ensures=[('O-answer', 'len(result) >= 6 and result[0] == 0x10')],
         raises={})

# "can not hang the stack": enqueue() of a data link connection runs in the link controller's thread; whatever PDU
# the peer addresses to the connection (any type, any sequence numbers) in whatever state it is, that thread
# must not reach a wait() without timeout - nobody else could ever wake it
from .c10_miu import tco, DLC_EXTRA, state   # noqa
from .c09_terminate import no_untimed_wait   # noqa
PP = 'nfc.llcp.pdu:'
INPDU = lambda: OneOf(   # noqa
    Obj(PP + 'UnnumberedInformation', _partial=False, ptype=3, dsap=SAP(), ssap=SAP(), data=Bytes(0, None)),
    Obj(PP + 'Symmetry', _partial=False, ptype=0, dsap=0, ssap=0),
    Obj(PP + 'Connect', _partial=False, ptype=4, dsap=SAP(), ssap=SAP(), miu=Int(128, 2175), rw=Int(0, 15), sn=None),
    Obj(PP + 'Disconnect', _partial=False, ptype=5, dsap=SAP(), ssap=SAP()),
    Obj(PP + 'ConnectionComplete', _partial=False, ptype=6, dsap=SAP(), ssap=SAP(), miu=Int(128, 2175), rw=Int(0, 15)),
    Obj(PP + 'DisconnectedMode', _partial=False, ptype=7, dsap=SAP(), ssap=SAP(), reason=Byte()),
    Obj(PP + 'FrameReject', _partial=False, ptype=8, dsap=SAP(), ssap=SAP(), rej_flags=Int(0, 15), rej_ptype=Int(0, 15),
        ns=SEQ(), nr=SEQ(), vs=SEQ(), vr=SEQ(), vsa=SEQ(), vra=SEQ()),
    Obj(PP + 'Information', _partial=False, ptype=12, dsap=SAP(), ssap=SAP(), ns=SEQ(), nr=SEQ(), data=Bytes(0, None)),
    Obj(PP + 'ReceiveReady', _partial=False, ptype=13, dsap=SAP(), ssap=SAP(), nr=SEQ()),
    Obj(PP + 'ReceiveNotReady', _partial=False, ptype=14, dsap=SAP(), ssap=SAP(), nr=SEQ()),
    Obj(PP + 'ServiceNameLookup', _partial=False, ptype=9, dsap=1, ssap=1, sdreq=Fixed([]), sdres=Fixed([])))
contract('nfc.llcp.tco:DataLinkConnection.enqueue', 'C07',
         dict(self=tco('DataLinkConnection', send_queue=ListOf(Any(), kind='deque'), **DLC_EXTRA), rcvd_pdu=INPDU()),
         name='C07/dlc.enqueue.never-blocks', hooks={'on_wait': no_untimed_wait},
         ensures=[('O-returns', 'True')], raises={}, native=False)

# str(pdu) is evaluated eagerly where received PDUs are logged (llc.dispatch: log.debug("     " + str(p)) for every
# member of an aggregate; dispatch()/enqueue() format the PDU) - in the link thread and whatever the log level.
# The encoding treats log calls as no-ops, so the string conversions of the PDUs the peer controls are put under
# contract on their own: for every field value a decoded PDU can carry (service names and data are arbitrary
# octets) __str__ raises nothing
STR_PDUS = {
    'Symmetry': dict(ptype=0, dsap=0, ssap=0),
    'ParameterExchange': dict(ptype=1, dsap=0, ssap=0, _version=Opt(Byte()), _miux=Opt(Int(0, 0x7FF)),
                              _wks=Opt(Int(0, 0xFFFF)), _lto=Opt(Byte()), _opt=Opt(Byte())),
    'AggregatedFrame': dict(ptype=2, dsap=0, ssap=0, _aggregate=Fixed([])),
    'UnnumberedInformation': dict(ptype=3, dsap=SAP(), ssap=SAP(), data=Bytes(0, None)),
    'Connect': dict(ptype=4, dsap=SAP(), ssap=SAP(), miu=Int(128, 2175), rw=Int(0, 15), sn=Opt(Bytes(0, 255))),
    'Disconnect': dict(ptype=5, dsap=SAP(), ssap=SAP()),
    'ConnectionComplete': dict(ptype=6, dsap=SAP(), ssap=SAP(), miu=Int(128, 2175), rw=Int(0, 15)),
    'DisconnectedMode': dict(ptype=7, dsap=SAP(), ssap=SAP(), reason=Byte()),
    'FrameReject': dict(ptype=8, dsap=SAP(), ssap=SAP(), rej_flags=Int(0, 15), rej_ptype=Int(0, 15), ns=SEQ(), nr=SEQ(),
                        vs=SEQ(), vr=SEQ(), vsa=SEQ(), vra=SEQ()),
    'Information': dict(ptype=12, dsap=SAP(), ssap=SAP(), ns=SEQ(), nr=SEQ(), data=Bytes(0, None)),
    'ReceiveReady': dict(ptype=13, dsap=SAP(), ssap=SAP(), ns=0, nr=SEQ()),
    'ReceiveNotReady': dict(ptype=14, dsap=SAP(), ssap=SAP(), ns=0, nr=SEQ()),
}
for _cls, _f in STR_PDUS.items():
    contract(PP + _cls + '.__str__', 'C07', dict(self=Obj(PP + _cls, _partial=False, **_f)),
             name='C07/pdu.%s.__str__' % _cls, hooks={'opaque_str': False}, ensures=[('O-returns', 'True')],
             raises={}, native=False)

# C18: connect() keeps one link controller for several activation attempts; the outcome of activate() must be
# that of THIS attempt - true exactly when this MAC was installed - whatever an earlier attempt left behind
for cls in ('Initiator', 'Target'):
    contract(L + 'LogicalLinkController.activate', 'C18',
             dict(self=Obj(L + 'LogicalLinkController', _partial=False,
                           link=Obj(L + 'LogicalLinkController.LinkState', _partial=False,
                                    names=("SHUTDOWN", "LISTEN", "CONNECT", "CONNECTED", "ESTABLISHED",
                                           "DISCONNECT", "CLOSED"), value=0),
                           cfg=DictOf({'recv-miu': Int(128, 2175), 'send-lto': Int(0, 2550),
                                       'send-lsc': Int(0, 3), 'send-agf': Bool(), 'llcp-sec': Bool()}),
                           snl=DictOf({b'urn:nfc:sn:sdp': 1}), sap=None, sec=None, lock=Lock(),
                           mac=Opt(Obj(DEP + cls, rwt=Const(0.01)))),
                  mac=Obj(DEP + cls, rwt=Const(0.01))),
             name='C18/llc.activate.%s.fresh' % cls.lower(),
             use=['C07/%s.activate.anybytes' % cls, 'C07/ParameterExchange.decode'],
             ensures=[('post.fresh', 'result == (self.mac is mac)'),
                      ('post.failed', 'implies(call_ret("C07/%s.activate.anybytes") is None, '
                                      'result == False and self.mac is None)' % cls)],
             raises={}, loops=SIMPLE_LOOPS)

# the real activate() of both NFC-DEP roles against a peer that sends anything where the attribute request /
# response is expected: general bytes or None come back, nothing is raised (reserved bits of the PP octet, short
# or oversized frames, wrong response codes included)
_PCNT = lambda: Obj(DEP + 'DataExchangeProtocol.Counter', _partial=False,    # noqa
                    sent=DictOf({}, default_factory=True), rcvd=DictOf({}, default_factory=True))
contract(DEP + 'Initiator.activate', 'C07',
         dict(self=Obj(DEP + 'Initiator', _partial=False, _acm=False, pcnt=_PCNT(),
                       clf=Obj('models.dep_models:AnyTargetClf', _partial=False)),
              target=Obj('nfc.clf:RemoteTarget', _partial=False, _brty_send='106A', _brty_recv='106A',
                         sel_res=Const(bytearray(b'\x40')), sens_res=Const(bytearray(b'\x01\x01')),
                         sdd_res=Const(bytearray(b'\x08\x01\x02\x03'))),
              options=DictOf({'did': Opt(Int(1, 14)), 'nad': Opt(Int(0, 255)), 'brs': Int(0, 2), 'lri': Int(0, 3),
                              'gbi': Bytes(0, 48)})),
         name='C07/Initiator.activate.anypeer', raises={},
         ensures=[('post.gb', 'result is None or len(result) >= 0')])
contract(DEP + 'Target.activate', 'C07',
         dict(self=Obj(DEP + 'Target', _partial=False, pcnt=_PCNT(), miu=None, did=None, nad=None, gbi=None,
                       pni=None, rwt=None, clf=Obj('models.dep_models:AnyInitiatorClf', _partial=False)),
              timeout=None, options=DictOf({'gbt': Bytes(0, 47), 'lrt': Int(0, 3), 'rwt': Int(0, 14)})),
         name='C07/Target.activate.anypeer', raises={},
         ensures=[('post.gb', 'result is None or len(result) >= 0')])
