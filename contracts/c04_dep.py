"""C04 - NFC-DEP delivers each payload exactly once, intact, or reports failure
(per-endpoint contracts; see DESIGN.md section 6 for what is not decided)."""
from .common import *   # noqa

DEP = 'nfc.dep:'
PE = 'nfc.clf:ProtocolError'
CE = 'nfc.clf:CommunicationError'
BRTY = lambda: OneOf(Obj('nfc.clf:RemoteTarget', _partial=False, _brty_send='106A', _brty_recv='106A'),   # noqa
                     Obj('nfc.clf:RemoteTarget', _partial=False, _brty_send='424F', _brty_recv='424F'))
FIELDS = dict(fmt=OneOf(0, 1, 4, 5, 8, 9), pni=Int(0, 3), did=Opt(Int(1, 14)), nad=Opt(Byte()))
# O-codec: frames against the independent layout, both directions and both roles
for role, enc_fn, dec_fn, c1, c2 in (('Initiator', 'encode_dep_req', 'decode_dep_res', 0xD4, 0x06),
                                     ('Target', 'encode_dep_res', 'decode_dep_req', 0xD5, 0x07)):
    mac = lambda: Obj(DEP + role, target=BRTY())   # noqa
    contract('drivers.c04:' + enc_fn, 'C04', dict(mac=mac(), data=Bytes(0, 250, mutable=True), **FIELDS),
             name='C04/%s.encode_frame' % role,
             requires=['4 + (0 if did is None else 1) + (0 if nad is None else 1) + len(data) <= 255'],
             ensures=[('O-codec.enc', 'result == dep_frame(mac.target.brty, enc_dep(%d, %d, fmt, pni, did, nad, data))'
                       % (c1, c2))],
             raises={})
    contract('drivers.c04:' + dec_fn, 'C04', dict(mac=mac(), data=Bytes(0, 250), **FIELDS),
             name='C04/%s.decode_frame' % role,
             requires=['4 + (0 if did is None else 1) + (0 if nad is None else 1) + len(data) <= 255'],
             ensures=[('O-codec.dec', 'result.pfb.fmt == fmt and result.pfb.pni == pni and result.did == did and '
                                      'result.nad == nad and result.data == data'),
                      ('O-codec.flags', 'bool(result.pfb.did) == (did is not None) and '
                                        'bool(result.pfb.nad) == (nad is not None)')],
             raises={})

# O-framesize / O-pni / O-errors for the Initiator: the transport below (one request, one response, with its
# own ATN/NAK recovery) is replaced by its contract; the precondition at every call site is that the
# information field fits the MIU established at activation (C19: miu + header <= LR of the Target)
PFB = lambda cls: Obj(DEP + cls + '.PFB', _partial=False, fmt=Int(0, 15), nad=Bool(), did=Bool(),   # noqa
                      pni=Int(0, 3))
RES = lambda: Obj(DEP + 'DEP_RES', _partial=False, pfb=PFB('DEP_RES'), did=None, nad=None,   # noqa
                  data=Bytes(0, 255, mutable=True))
ERRS = {'nfc.clf:TimeoutError': [], 'nfc.clf:TransmissionError': [], PE: [], 'nfc.clf:BrokenLinkError': []}
contract(DEP + 'Initiator.send_dep_req_recv_dep_res', 'C04', dict(self=Any(), req=Any(), rwt=Any(), timeout=Any()),
         name='C04/Initiator.transport', assumed=True,
         note='one NFC-DEP request/response step incl. ATN/NAK recovery; returns a DEP_RES that is not a NACK and, '
              'if it is a timeout extension request, carries the RTOX value',
         ensures=['result.pfb.fmt != 5', 'result.pfb.fmt != 9 or len(result.data) >= 1'],
         requires=['len(req.data) <= self.miu', 'req.pfb.pni >= 0 and req.pfb.pni <= 3',
                   '(req.did is None) == (self.did is None) and (req.nad is None) == (self.nad is None)'],
         raises=ERRS, returns=RES())
IQ = 'nfc.dep.Initiator.exchange'
INI = lambda: Obj(DEP + 'Initiator', miu=Int(1, 251), pni=Int(0, 3), did=Opt(Int(1, 14)), nad=Opt(Byte()),   # noqa
                  rwt=Const(0.1), target=BRTY())
HV = lambda: {'send_data': Bytes(0, None, mutable=True), 'self.pni': Int(0, 3), 'res': RES(),   # noqa
              'recv_data': Bytes(0, None, mutable=True)}
contract(DEP + 'Initiator.exchange', 'C04', dict(self=INI(), send_data=Bytes(1, None), timeout=Const(1.0)),
         name='C04/Initiator.exchange', use=['C04/Initiator.transport'],
         ensures=[('O-pni.range', 'self.pni >= 0 and self.pni <= 3')],
         raises=ERRS,
         loops={(IQ, 'While', 0): LoopSpec(invariant=['self.pni >= 0 and self.pni <= 3'],
                                           decreases='len(send_data)',
                                           havoc={'send_data': Bytes(0, None, mutable=True), 'self.pni': Int(),
                                                  'res': RES()}),
                (IQ, 'While', 1): LoopSpec(invariant=['self.pni >= 0 and self.pni <= 3'],
                                           havoc={'self.pni': Int(), 'res': RES(),
                                                  'recv_data': Bytes(0, None, mutable=True)})})

# the transport step itself: one request, recovery by ATN (after timeouts) and NAK (after transmission errors),
# bounded retries; the frame exchange below it is replaced by its contract (codec above, robustness C07)
contract(DEP + 'Initiator.send_req_recv_res', 'C04', dict(self=Any(), req=Any(), timeout=Any()),
         name='C04/Initiator.frame-exchange', assumed=True,
         note='encode_frame + clf.exchange + decode_frame: returns a decoded response PDU of the same kind as the '
              'request or raises a CommunicationError', raises=ERRS, returns=RES())
TQ = 'nfc.dep.Initiator.send_dep_req_recv_dep_res'
REQ = lambda: Obj(DEP + 'DEP_REQ', _partial=False, pfb=PFB('DEP_REQ'), did=Opt(Int(1, 14)), nad=None,   # noqa
                  data=Bytes(0, 251, mutable=True))
contract(DEP + 'Initiator.send_dep_req_recv_dep_res', 'C04',
         dict(self=Obj(DEP + 'Initiator', miu=Int(1, 251), pni=Int(0, 3), did=Opt(Int(1, 14)), nad=None),
              req=REQ(), rwt=Const(0.1), timeout=Const(1.0)),
         name='C04/Initiator.send_dep_req_recv_dep_res', use=['C04/Initiator.frame-exchange'],
         ensures=[('O-errors.no-nack', 'result.pfb.fmt != 5'),
                  ('O-errors.rtox-value', 'result.pfb.fmt != 9 or len(result.data) >= 1')],
         # a transmission error of any frame of this step is answered by NAK/ATN retries and never reported raw:
         # the step ends with the response, a timeout (deadline), a protocol error (retries used up) or a broken link
         raises={k: v for k, v in ERRS.items() if k != 'nfc.clf:TransmissionError'},
         loops={(TQ, 'While', 0): LoopSpec(invariant=['True'], havoc={'timeout': Any()})})

# Target side
TREQ = lambda: Obj(DEP + 'DEP_REQ', _partial=False, pfb=PFB('DEP_REQ'), did=None, nad=None,   # noqa
                   data=Bytes(0, 255, mutable=True))
contract(DEP + 'Target.send_dep_res_recv_dep_req', 'C04', dict(self=Any(), dep_res=Any(), deadline=Any()),
         name='C04/Target.transport', assumed=True,
         note='one NFC-DEP response/request step on the Target (re-sends the stored response for a repeated PNI, '
              'answers ATN); returns the next DEP_REQ or None after release',
         requires=['dep_res is None or len(dep_res.data) <= self.miu',
                   'dep_res is None or (dep_res.pfb.pni >= 0 and dep_res.pfb.pni <= 3)',
                   'dep_res is None or (dep_res.did is None) == (self.did is None)'],
         # ghost _g_rx: the information fields of every request this step has returned so far, in order (an ACK of a
         # conforming Initiator carries none)
         modifies={'self._g_rx': Bytes(0, None)},
         ensures=['result is None or self._g_rx == old(self._g_rx) + bytes(result.data)',
                  'result is not None or self._g_rx == old(self._g_rx)',
                  'result is None or result.pfb.fmt != 4 or len(result.data) == 0'],
         raises=ERRS, returns=Opt(TREQ()))
XQ = 'nfc.dep.Target.exchange'
contract(DEP + 'Target.exchange', 'C04',
         dict(self=Obj(DEP + 'Target', miu=Int(1, 251), pni=Int(0, 3), did=Opt(Int(1, 14)), nad=None, cmd=None,
                       rwt=Const(0.1), _g_rx=Const(b'')),
              send_data=Bytes(1, None), timeout=Const(1.0)),
         name='C04/Target.exchange', use=['C04/Target.transport'],
         ensures=[('O-pni.range', 'result is None or (self.pni >= 0 and self.pni <= 3)'),
                  # reassembly: what is returned is every information field received during this call, in order,
                  # nothing dropped, doubled or reordered - for any number of chained requests
                  ('O-reassembly', 'result is None or bytes(result) == self._g_rx')],
         raises=ERRS,
         loops={(XQ, 'While', 0): LoopSpec(
                    invariant=['self.pni >= 0 and self.pni <= 3',
                               # while response chunks remain only ACKs came back; after the last chunk the next
                               # request has arrived
                               '(len(send_data) > 0 and self._g_rx == b"") or '
                               '(len(send_data) == 0 and self._g_rx == bytes(req.data))'],
                    decreases='len(send_data)',
                    havoc={'send_data': Bytes(0, None, mutable=True), 'self.pni': Int(), 'req': TREQ(),
                           'self._g_rx': Bytes(0, None)}),
                (XQ, 'While', 1): LoopSpec(
                    invariant=['self.pni >= 0 and self.pni <= 3',
                               'bytes(recv_data) + bytes(req.data) == self._g_rx'],
                    havoc={'self.pni': Int(), 'req': TREQ(), 'recv_data': Bytes(0, None, mutable=True),
                           'self._g_rx': Bytes(0, None)})})
contract(DEP + 'Initiator.exchange', 'C04', dict(self=INI(), send_data=Bytes(1, None), timeout=Const(1.0)),
         name='C04/sentinel.miu-plus-one', expect_fail=True,
         use=['C04/sentinel.transport'], raises=ERRS,
         loops={(IQ, 'While', 0): LoopSpec(invariant=[], havoc={'send_data': Bytes(0, None, mutable=True),
                                                                'self.pni': Int(), 'res': RES()}),
                (IQ, 'While', 1): LoopSpec(invariant=[], havoc={'self.pni': Int(), 'res': RES(),
                                                                'recv_data': Bytes(0, None, mutable=True)})})
contract(DEP + 'Initiator.send_dep_req_recv_dep_res', 'C04', dict(self=Any(), req=Any(), rwt=Any(), timeout=Any()),
         name='C04/sentinel.transport', assumed=True, requires=['len(req.data) < self.miu'], raises=ERRS, returns=RES())

# The Target's transport step itself (the contract C04/Target.transport that Target.exchange relies on is no
# longer only assumed for its recovery rules): what is handed to the frame exchange after each kind of request.
# The frame exchange below it is replaced by a contract that records the kind of the request it returned in
# ghost fields; the recovery rules are its preconditions, i.e. obligations at the call site inside the loop:
#   a request repeated with the current PNI, or a NAK, is answered by the pending response (never by an ATN
#   response or nothing); an attention request is answered by an attention response
TREQ2 = lambda: Obj(DEP + 'DEP_REQ', _partial=False, pfb=PFB('DEP_REQ'), did=Opt(Int(0, 14)), nad=None,   # noqa
                    data=Bytes(0, 255, mutable=True))
contract(DEP + 'Target.send_res_recv_req', 'C04', dict(self=Any(), res=Any(), deadline=Any()),
         name='C04/Target.frame-exchange', assumed=True,
         note='encode_frame + clf.exchange + decode_frame on the Target: returns the next decoded request PDU, or '
              'None; ghost: which recovery rule the returned request triggers',
         requires=[('resend-on-repeat', 'not self._g_repeat or res is self._g_pending'),
                   ('resend-on-nak', 'not self._g_nak or res is self._g_pending'),
                   ('attention', 'not self._g_atn or (res is not None and res is not self._g_pending and '
                                 'type(res) == DEP_RES and res.pfb.fmt == 8 and res.did == self.did)')],
         modifies={'self._g_repeat': Bool(), 'self._g_nak': Bool(), 'self._g_atn': Bool()},
         ensures=['self._g_repeat == (type(result) == DEP_REQ and result.did == self.did and '
                  '(result.pfb.fmt == 0 or result.pfb.fmt == 1 or result.pfb.fmt == 4) and '
                  'result.pfb.pni == self.pni)',
                  'self._g_nak == (type(result) == DEP_REQ and result.did == self.did and result.pfb.fmt == 5)',
                  'self._g_atn == (type(result) == DEP_REQ and result.did == self.did and result.pfb.fmt == 8)'],
         raises=ERRS,
         returns=OneOf(None, TREQ2(), Obj(DEP + 'DSL_REQ', _partial=False, did=Opt(Int(0, 14))),
                       Obj(DEP + 'RLS_REQ', _partial=False, did=Opt(Int(0, 14))),
                       Obj(DEP + 'ATR_REQ', _partial=True, did=Opt(Int(0, 14)))))
TT = 'nfc.dep.Target.send_dep_res_recv_dep_req'
contract(DEP + 'Target.send_dep_res_recv_dep_req', 'C04',
         dict(self=Obj(DEP + 'Target', miu=Int(1, 251), pni=Int(0, 3), did=Opt(Int(1, 14)), nad=None, cmd=None,
                       rwt=Const(0.1), _g_repeat=False, _g_nak=False, _g_atn=False, _g_pending=Ref('dep_res')),
              dep_res=Obj(DEP + 'DEP_RES', _partial=False, pfb=PFB('DEP_RES'), did=Ref('self.did'), nad=None,
                          data=Bytes(0, 251, mutable=True)),
              deadline=Const(1.0)),
         name='C04/Target.send_dep_res_recv_dep_req', use=['C04/Target.frame-exchange'],
         requires=['dep_res.pfb.fmt != 8'],
         ensures=[('O-transport.kind', 'result is None or type(result) != DEP_RES')],
         raises=ERRS,
         loops={(TT, 'While', 0): LoopSpec(
             invariant=['implies(self._g_repeat or self._g_nak, res is dep_res)',
                        'implies(self._g_atn, res is not None and res is not dep_res and type(res) == DEP_RES '
                        'and res.pfb.fmt == 8 and res.did == self.did)',
                        'not (self._g_atn and (self._g_repeat or self._g_nak))'],
             havoc={'res': '(dep_res, None, ATN(self.did, self.nad))[nondet_int(0, 2)]',
                    'self._g_repeat': Bool(), 'self._g_nak': Bool(), 'self._g_atn': Bool(),
                    'dep_req': Const(None)})})

# "any single lost or corrupted frame per protocol step is recovered transparently", one instance decided on the
# Initiator's transport step: the first response is corrupted (TransmissionError from the frame exchange); the
# Initiator must then send a NAK (call-site obligation), to which a conforming Target retransmits its last response
# - whatever kind that was: an information PDU or, while the Initiator is chaining, an ACK - and that response is
# the result.  Only the deadline may still end the step.
contract(DEP + 'Initiator.send_req_recv_res', 'C04', dict(self=Any(), req=Any(), timeout=Any()),
         name='C04/frame-exchange.first-response-corrupted', assumed=True,
         note='fault script: exchange 1 fails with TransmissionError, every later exchange returns the response the '
              'Target retransmits for a NAK (its last response: INF, INF+MI or ACK)',
         requires=[('nak-after-corruption', 'self._g_n == 0 or req.pfb.fmt == 5')],
         modifies={'self._g_n': Int(0, None)},
         ensures=[('count', 'self._g_n == old(self._g_n) + 1'), ('later', 'old(self._g_n) >= 1')],
         raises={'nfc.clf:TransmissionError': ['old(self._g_n) == 0', 'self._g_n == 1']},
         returns='self._g_last')
contract(DEP + 'Initiator.send_dep_req_recv_dep_res', 'C04',
         dict(self=Obj(DEP + 'Initiator', miu=Int(1, 251), pni=Int(0, 3), did=Opt(Int(1, 14)), nad=None, _g_n=0,
                       _g_last=Obj(DEP + 'DEP_RES', _partial=False,
                                   pfb=Obj(DEP + 'DEP_RES.PFB', _partial=False, fmt=OneOf(0, 1, 4), nad=False,
                                           did=Bool(), pni=Int(0, 3)),
                                   did=Opt(Int(1, 14)), nad=None, data=Bytes(0, 251, mutable=True))),
              req=REQ(), rwt=Const(0.1), timeout=Const(1.0)),
         name='C04/Initiator.recovers-corrupted-response', use=['C04/frame-exchange.first-response-corrupted'],
         # a conforming Target answers a chained information PDU with an ACK and everything else with information
         requires=['(self._g_last.pfb.fmt == 4) == (req.pfb.fmt == 1)', 'req.pfb.fmt != 5 and req.pfb.fmt != 8'],
         ensures=[('O-recover.result', 'result is self._g_last')],
         raises={'nfc.clf:TimeoutError': []}, native=False,
         loops={(TQ, 'While', 0): LoopSpec(invariant=['True'], havoc={'timeout': Any()})})

# second instance: the first frame of a step is LOST (timeout).  The Initiator asks for attention, the Target
# answers the ATN, the Initiator sends the same request again and the response to that is the result.
contract(DEP + 'Initiator.send_req_recv_res', 'C04', dict(self=Any(), req=Any(), timeout=Any()),
         name='C04/frame-exchange.first-frame-lost', assumed=True,
         note='fault script: exchange 1 times out; exchange 2 (which must be an attention request) is answered by '
              'the attention response; exchange 3 (which must be the original request again) by the response',
         requires=[('atn-after-timeout', 'self._g_n != 1 or (req.pfb.fmt == 8 and req is not self._g_req)'),
                   ('repeat-after-atn', 'self._g_n != 2 or req is self._g_req'),
                   ('no-fourth-exchange', 'self._g_n <= 2')],
         modifies={'self._g_n': Int(0, None)},
         ensures=[('count', 'self._g_n == old(self._g_n) + 1'), ('later', 'old(self._g_n) >= 1')],
         raises={'nfc.clf:TimeoutError': ['old(self._g_n) == 0', 'self._g_n == 1']},
         returns='self._g_atn if old(self._g_n) == 1 else self._g_last')
_RESOBJ = lambda fmts: Obj(DEP + 'DEP_RES', _partial=False,   # noqa
                           pfb=Obj(DEP + 'DEP_RES.PFB', _partial=False, fmt=fmts, nad=False, did=Bool(), pni=Int(0, 3)),
                           did=Opt(Int(1, 14)), nad=None, data=Bytes(0, 251, mutable=True))
contract(DEP + 'Initiator.send_dep_req_recv_dep_res', 'C04',
         dict(self=Obj(DEP + 'Initiator', miu=Int(1, 251), pni=Int(0, 3), did=Opt(Int(1, 14)), nad=None, _g_n=0,
                       _g_req=Ref('req'), _g_atn=_RESOBJ(8), _g_last=_RESOBJ(OneOf(0, 1, 4))),
              req=REQ(), rwt=Const(0.1), timeout=Const(1.0)),
         name='C04/Initiator.recovers-lost-frame', use=['C04/frame-exchange.first-frame-lost'],
         requires=['req.pfb.fmt != 5 and req.pfb.fmt != 8'],
         ensures=[('O-recover.result', 'result is self._g_last')],
         raises={'nfc.clf:TimeoutError': []},
         max_unroll=6, native=False)
