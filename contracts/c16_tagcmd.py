"""C16 - tag commands retry transient errors and fail only as TagCommandError."""
from .common import *   # noqa

CLF = lambda: Obj('models.clf_models:ExchangeClf', _partial=False, sent=Fixed([]), outcomes=Fixed([]),   # noqa
                  answers=Fixed([]))
RT = lambda brty: Obj('nfc.clf:RemoteTarget', _partial=False, _brty_send=brty, _brty_recv=brty)   # noqa


def retry_contract(target, name, self_shape, args, errcls, n_attempts):
    contract(target, 'C16', dict(self=self_shape, **args), name=name,
             ensures=[('O-retry.sent', 'len(self.clf.sent) <= %s and all_same(self.clf.sent, old(bytes(data)))' % n_attempts),
                      ('O-retry.no-resend', 'failures_then_ok(self.clf.outcomes)'),
                      ('O-retry.answer', 'result == self.clf.answers[-1] and len(self.clf.answers) == 1')],
             raises={errcls: ['len(self.clf.sent) == %s' % n_attempts, 'all_same(self.clf.sent, old(bytes(data)))',
                              'all_failed(self.clf.outcomes)',
                              'exc.errno == errno_of(self.clf.outcomes[-1])']})


retry_contract('nfc.tag.tt1:Type1Tag.transceive', 'C16/tt1.transceive',
               Obj('nfc.tag.tt1:Type1Tag', _clf=CLF(), _target=RT('106A')),
               dict(data=Bytes(1, 16, mutable=True), timeout=Const(0.1)), 'nfc.tag.tt1:Type1TagCommandError', '3')
retry_contract('nfc.tag.tt2:Type2Tag.transceive', 'C16/tt2.transceive',
               Obj('nfc.tag.tt2:Type2Tag', _clf=CLF(), _target=RT('106A')),
               dict(data=Bytes(1, 16, mutable=True), timeout=Const(0.1), retries=Int(0, 3)),
               'nfc.tag.tt2:Type2TagCommandError', '1 + retries')

T3E = 'nfc.tag.tt3:Type3TagCommandError'
T3 = lambda: Obj('nfc.tag.tt3:Type3Tag', _clf=CLF(), _target=RT('212F'), idm=Bytes(8, 8, mutable=True),   # noqa
                 pmm=Bytes(8, 8, mutable=True), sys=Int(0, 0xFFFF), _nfcid=Bytes(8, 8, mutable=True))
contract('nfc.tag.tt3:Type3Tag.send_cmd_recv_rsp', 'C16',
         dict(self=T3(), cmd_code=Int(0, 0xFE), cmd_data=Bytes(0, 200, mutable=True), timeout=Const(0.1),
              send_idm=Bool(), check_status=Bool()),
         name='C16/tt3.send_cmd_recv_rsp',
         ensures=[('O-retry.sent', 'len(self.clf.sent) <= 3 and all_same(self.clf.sent, self.clf.sent[0])'),
                  ('O-retry.no-resend', 'failures_then_ok(self.clf.outcomes)')],
         raises={T3E: ['len(self.clf.sent) <= 3', 'all_same(self.clf.sent, self.clf.sent[0])',
                       'implies(all_failed(self.clf.outcomes), len(self.clf.sent) == 3 and '
                       'exc.errno == errno_of(self.clf.outcomes[-1]))',
                       'all_failed(self.clf.outcomes) or failures_then_ok(self.clf.outcomes)']})

# surface operations: whatever the link does, only the tag type's command error escapes
T2E = 'nfc.tag.tt2:Type2TagCommandError'
T2 = lambda: Obj('nfc.tag.tt2:Type2Tag', _clf=CLF(), _current_sector=Int(0, 255), _target=Obj(   # noqa
    'nfc.clf:RemoteTarget', _partial=False, _brty_send='106A', _brty_recv='106A',
    sdd_res=Bytes(4, 10, mutable=True), sens_res=Bytes(2, 2, mutable=True), sel_res=Bytes(1, 1, mutable=True)))
contract('nfc.tag.tt2:Type2Tag.read', 'C16', dict(self=T2(), page=Int(0, 65535)), name='C16/tt2.read',
         ensures=[('post.len', 'len(result) == 16')], raises={T2E: []})
contract('nfc.tag.tt2:Type2Tag.write', 'C16', dict(self=T2(), page=Int(0, 65535), data=Bytes(0, 8, mutable=True)),
         name='C16/tt2.write', raises={T2E: [], 'ValueError': ['len(data) != 4']})
contract('nfc.tag.tt2:Type2Tag.sector_select', 'C16', dict(self=T2(), sector=Int(0, 255)),
         name='C16/tt2.sector_select',
         # a new sector counts as selected only after the passive acknowledge (silence) to the second packet; a
         # transmission or protocol error there persists (retries=0) and must surface as a TagCommandError
         ensures=[('post.sector', 'result == sector and self._current_sector == sector'),
                  ('post.passive-ack', 'implies(sector != old(self._current_sector), self._clf.outcomes[-1] == 1)')],
         raises={T2E: ['self._current_sector == old(self._current_sector)']})
contract('nfc.tag.tt2:Type2Tag._is_present', 'C16', dict(self=T2()), name='C16/tt2._is_present',
         ensures=[('post.bool', 'result == True or result == False')], raises={})
T1E = 'nfc.tag.tt1:Type1TagCommandError'
T1 = lambda: Obj('nfc.tag.tt1:Type1Tag', _clf=CLF(), _target=Obj(   # noqa
    'nfc.clf:RemoteTarget', _partial=False, _brty_send='106A', _brty_recv='106A',
    rid_res=Bytes(6, 6, mutable=True)), uid=Bytes(4, 4, mutable=True))
for fn, args in (('read_id', {}), ('read_all', {}), ('read_byte', dict(addr=Int(0, 127))),
                 ('read_block', dict(block=Int(0, 255))), ('read_segment', dict(segment=Int(0, 15))),
                 ('write_byte', dict(addr=Int(0, 127), data=Byte(), erase=Bool())),
                 ('write_block', dict(block=Int(0, 255), data=Bytes(8, 8, mutable=True), erase=Bool()))):
    contract('nfc.tag.tt1:Type1Tag.' + fn, 'C16', dict(self=T1(), **args), name='C16/tt1.' + fn,
             raises={T1E: []})
contract('nfc.tag.tt1:Type1Tag._is_present', 'C16', dict(self=T1()), name='C16/tt1._is_present',
         ensures=[('post.bool', 'result == True or result == False')], raises={})
# polling(): callers unpack two values (idm, pmm) when request_code is 0 and three otherwise - whatever
# well-framed SENSF_RES the tag sends (with or without request data), the tuple has that shape (C08: the NDEF
# reader re-polls for system code 12FCh and must not fail on the answer)
for _prop in ('C16', 'C08'):
    contract('nfc.tag.tt3:Type3Tag.polling', _prop,
             dict(self=T3(), system_code=Int(0, 0xFFFF), request_code=Int(0, 2), time_slots=OneOf(0, 1, 3, 7, 15)),
             name='%s/tt3.polling' % _prop,
             ensures=[('post.shape', 'len(result) == (2 if request_code == 0 else 3) and len(result[0]) == 8 '
                                     'and len(result[1]) == 8')],
             raises={T3E: []})
contract('nfc.tag.tt3:Type3Tag._is_present', 'C16', dict(self=T3()), name='C16/tt3._is_present',
         ensures=[('post.bool', 'result == True or result == False')], raises={})
contract('nfc.tag.tt3:Type3Tag.read_from_ndef_service', 'C16',
         dict(self=T3(), blocks=Fixed([Int(0, 0xFFFF)])), name='C16/tt3.read_from_ndef_service', raises={T3E: []})
contract('nfc.tag.tt3:Type3Tag.write_to_ndef_service', 'C16',
         dict(self=T3(), data=Bytes(16, 16, mutable=True), blocks=Fixed([Int(0, 0xFFFF)])),
         name='C16/tt3.write_to_ndef_service', raises={T3E: []})
# the largest block lists the NDEF reader/writer ever pass (15 blocks per READ, 12 per WRITE: what one frame
# carries, see C08/C01) still make well-formed commands: nothing but the command error escapes, the data returned
# has one block per requested block.  Two instances each: all block numbers in the 2-octet element form (<= 255)
# and all in the 3-octet form; mixed lists give command lengths in between.
for _prop in ('C16', 'C08'):
    for _form, _rng in (('short', Int(0, 255)), ('long', Int(256, 0xFFFF))):
        contract('nfc.tag.tt3:Type3Tag.read_from_ndef_service', _prop,
                 dict(self=T3(), blocks=Fixed([_rng] * 15)), name='%s/tt3.read_from_ndef_service[15,%s]' % (_prop, _form),
                 call='varargs', ensures=[('post.size', 'result is None or len(result) == 16 * 15')],
                 raises={T3E: []})
for _form, _rng in (('short', Int(0, 255)), ('long', Int(256, 0xFFFF))):
    contract('nfc.tag.tt3:Type3Tag.write_to_ndef_service', 'C16',
             dict(self=T3(), data=Bytes(16 * 12, 16 * 12, mutable=True), blocks=Fixed([_rng] * 12)),
             name='C16/tt3.write_to_ndef_service[12,%s]' % _form, call='varargs', raises={T3E: []})

# presence check of a Type 4 Tag: the one ISO-DEP path that hands link errors through unmapped; _is_present turns
# every one of them into False
from .c12_isodep import ISO   # noqa
contract('nfc.tag.tt4:Type4Tag._is_present', 'C16', dict(self=Obj('nfc.tag.tt4:Type4Tag', _dep=ISO())),
         name='C16/tt4._is_present', ensures=[('post.bool', 'result == True or result == False')], raises={})
# FeliCa Lite: the attribute data read for an authenticated tag - a failed read is None, as for every Type 3 Tag
contract('nfc.tag.tt3_sony:FelicaLite.NDEF._read_attribute_data', 'C16',
         dict(self=Obj('nfc.tag.tt3_sony:FelicaLite.NDEF', _partial=False, _data=None, _capacity=0, _readable=False,
                       _writeable=False,
                       _tag=Obj('models.tag_models:T3TagAdversary', _partial=False, sys=0x12FC, idm=None, pmm=None,
                                commands=0, is_authenticated=Bool()))),
         name='C16/felica-lite._read_attribute_data',
         ensures=[('post.shape', 'result is None or result["nbr"] >= 0')], raises={})

# ---------------------------------------------------------------- sequences on one tag object
# What an operation leaves behind must not break the next one: after a READ that was answered with NAK the tag
# is re-activated; if it is gone by then the frontend has no target any more (exchange() returns None), and every
# further operation on the tag object must still end as documented (Type2TagCommandError, False) - whatever the
# first READ met.
for _w, _nm in ((0, 'read'), (1, 'is_present'), (2, 'write')):
    contract('drivers.c16:t2_read_then', 'C16',
             dict(tag=Obj('nfc.tag.tt2:Type2Tag', _current_sector=0,
                          _clf=Obj('models.clf_models:ExchangeClf', _partial=False, sent=Fixed([]), outcomes=Fixed([]),
                                   answers=Fixed([]), maxkind=1),
                          _target=Obj('nfc.clf:RemoteTarget', _partial=False, _brty_send='106A', _brty_recv='106A',
                                      sdd_res=Bytes(4, 10, mutable=True), sel_res=Bytes(1, 1, mutable=True),
                                      sens_res=Bytes(2, 2, mutable=True))),
                  page1=Int(0, 255), page2=Int(0, 255), what=Const(_w)),
             name='C16/tt2.read-then-%s' % _nm, max_paths=20000,
             note='failures of an exchange restricted to timeouts here (every kind is covered per operation above)',
             raises={'nfc.tag.tt2:Type2TagCommandError': []})
