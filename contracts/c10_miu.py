"""C10 - nothing sent on an LLCP link exceeds the peer's announced MIU."""
from .common import *   # noqa

P = 'nfc.llcp.pdu:'
T = 'nfc.llcp.tco:'
L = 'nfc.llcp.llc:'


def any_queued_pdu():
    """the PDU kinds the tco/llc code puts into send queues"""
    return OneOf(
        Obj(P + 'UnnumberedInformation', ptype=3, dsap=SAP(), ssap=SAP(), data=Bytes()),
        Obj(P + 'Information', ptype=12, dsap=SAP(), ssap=SAP(), ns=SEQ(), nr=SEQ(), data=Bytes()),
        Obj(P + 'ReceiveReady', ptype=13, dsap=SAP(), ssap=SAP(), ns=0, nr=SEQ()),
        Obj(P + 'DisconnectedMode', ptype=7, dsap=SAP(), ssap=SAP(), reason=Byte()),
        Obj(P + 'Connect', ptype=4, dsap=SAP(), ssap=SAP(), miu=Int(128, 2175), rw=Int(0, 15),
            sn=Opt(Bytes(1, 255))),
        Obj(P + 'ConnectionComplete', ptype=6, dsap=SAP(), ssap=SAP(), miu=Int(128, 2175), rw=Int(0, 15)),
        Obj(P + 'Disconnect', ptype=5, dsap=SAP(), ssap=SAP()),
        Obj(P + 'FrameReject', ptype=8, dsap=SAP(), ssap=SAP(), rej_flags=SEQ(), rej_ptype=SEQ(), ns=SEQ(),
            nr=SEQ(), vs=SEQ(), vr=SEQ(), vsa=SEQ(), vra=SEQ()),
    )


def queue():
    return OneOf(Fixed([], 'deque'), HeadTail([any_queued_pdu()], ListOf(Any()), 'deque'))


def state(value=None):
    return Obj(T + 'TransmissionControlObject.State',
               names=("SHUTDOWN", "CLOSED", "LISTEN", "CONNECT", "ESTABLISHED", "DISCONNECT", "CLOSE_WAIT"),
               value=Int(0, 6) if value is None else value)


def mode():
    return Obj(T + 'TransmissionControlObject.Mode',
               names=("BLOCK", "SEND_BUSY", "RECV_BUSY", "RECV_BUSY_SENT"),
               value=DictOf({"BLOCK": Bool(), "SEND_BUSY": Bool(), "RECV_BUSY": Bool(), "RECV_BUSY_SENT": Bool()}))


def tco(cls, **extra):
    f = dict(lock=Lock(), send_ready=Cond('lock'), recv_ready=Cond('lock'), send_queue=queue(),
             recv_queue=ListOf(Any(), kind='deque'), state=state(), mode=mode(),
             send_miu=Int(128, 2175), recv_miu=Int(128, 2175), addr=Opt(SAP()), peer=Opt(SAP()),
             send_buf=Int(0, None), recv_buf=Int(0, None))
    f.update(extra)
    return Obj(T + cls, **f)


DEQ_ENS = [('post.miu_bound', 'within_miu(result, miu_size, icv_size)')]

contract(T + 'TransmissionControlObject.dequeue', 'C10',
         dict(self=tco('TransmissionControlObject'), miu_size=Int(0, None), icv_size=Int(0, None), notify=Bool()),
         name='C10/tco.dequeue', ensures=DEQ_ENS, raises={})
contract(T + 'LogicalDataLink.dequeue', 'C10',
         dict(self=tco('LogicalDataLink'), miu_size=Int(0, None), icv_size=Int(0, None)),
         name='C10/LogicalDataLink.dequeue', ensures=DEQ_ENS, raises={})

DLC_EXTRA = dict(acks_ready=Cond('lock'), send_token=Cond('lock'), acks_recvd=Int(0, None),
                 recv_confs=Int(0, 15), recv_win=Int(0, 15), recv_cnt=SEQ(), recv_ack=SEQ(),
                 send_win=Int(0, 15), send_cnt=SEQ(), send_ack=SEQ())
ANYPDU = Obj('models.llc_models:AnyPdu', header_size=Int(2, 3), n=Int(2, None), info=Bool())

contract(T + 'DataLinkConnection.dequeue', 'C10',
         dict(self=tco('DataLinkConnection', **DLC_EXTRA), miu_size=Int(0, None), icv_size=Int(0, None)),
         name='C10/DataLinkConnection.dequeue', ensures=DEQ_ENS, raises={}, returns=Opt(ANYPDU))
contract(T + 'DataLinkConnection.sendack', 'C10',
         dict(self=tco('DataLinkConnection', **DLC_EXTRA)),
         name='C10/DataLinkConnection.sendack',
         ensures=[('post.ack_len', 'result is None or (len(result) == 3 and result.name in ("RR", "RNR"))')],
         raises={}, returns=Opt(Obj('models.llc_models:AnyPdu', header_size=3, n=3, info=False)))
contract(T + 'LogicalDataLink.dequeue', 'C10',
         dict(self=tco('LogicalDataLink'), miu_size=Int(0, None), icv_size=Int(0, None)),
         name='C10/LogicalDataLink.dequeue.summary', ensures=DEQ_ENS, raises={}, returns=Opt(ANYPDU))

# llc.ServiceAccessPoint: one contract per socket type in the list (sockets bound to one
# address have one type: C17's address-table invariant)
SAPDEQ_LOOP = {('nfc.llcp.llc.ServiceAccessPoint.dequeue', 'For', 0): LoopSpec(invariant=['True'])}
SAPACK_LOOP = {('nfc.llcp.llc.ServiceAccessPoint.sendack', 'For', 0): LoopSpec(invariant=['True'])}
DM = Obj(P + 'DisconnectedMode', ptype=7, dsap=SAP(), ssap=SAP(), reason=Byte())
for K, uses in (('LogicalDataLink', ['C10/LogicalDataLink.dequeue.summary']),
                ('DataLinkConnection', ['C10/DataLinkConnection.dequeue', 'C10/DataLinkConnection.sendack'])):
    sap = Obj(L + 'ServiceAccessPoint', llc=Obj(L + 'LogicalLinkController', lock=Lock()), addr=SAP(),
              sock_list=ListOf(Obj(T + K), kind='deque'), send_list=ListOf(DM, kind='deque'))
    contract(L + 'ServiceAccessPoint.dequeue', 'C10',
             dict(self=sap, miu_size=Int(0, None), icv_size=Int(0, None)),
             name='C10/ServiceAccessPoint.dequeue[%s]' % K, ensures=DEQ_ENS, raises={},
             loops=SAPDEQ_LOOP, use=uses)
    if K == 'DataLinkConnection':
        contract(L + 'ServiceAccessPoint.sendack', 'C10', dict(self=sap),
                 name='C10/ServiceAccessPoint.sendack[%s]' % K,
                 ensures=[('post.ack_len', 'result is None or len(result) == 3')], raises={},
                 loops=SAPACK_LOOP, use=uses)

# llc.ServiceDiscovery.dequeue
SD = Obj(L + 'ServiceDiscovery', llc=Obj(L + 'LogicalLinkController', lock=Lock()),
         sdres=ListOf(Tup(Byte(), Byte()), kind='deque'),
         sdreq=ListOf(Tup(Byte(), Bytes(0, 254)), kind='deque'),
         sent=DictOf({}), dmpdu=ListOf(DM, kind='deque'))
contract(L + 'ServiceDiscovery.dequeue', 'C10',
         dict(self=SD, miu_size=Int(0, None), icv_size=Int(0, None)),
         name='C10/ServiceDiscovery.dequeue', ensures=DEQ_ENS, raises={},
         loops={
             ('nfc.llcp.llc.ServiceDiscovery.dequeue', 'While', 0): LoopSpec(
                 invariant=['miu_size + 4 * len(send_pdu.sdres) == old(miu_size)',
                            '4 * len(send_pdu.sdres) <= old(miu_size)',
                            'len(send_pdu.sdreq) == 0'],
                 decreases='len(self.sdres)',
                 havoc={'miu_size': Int(), 'self.sdres': ListOf(Tup(Byte(), Byte()), kind='deque'),
                        'send_pdu.sdres': ListOf(Tup(Byte(), Byte()))}),
             ('nfc.llcp.llc.ServiceDiscovery.dequeue', 'For', 0): LoopSpec(
                 invariant=['len(send_pdu) - 2 + miu_size == old(miu_size)', 'miu_size >= 0',
                            'len(self.sdreq) + len(send_pdu.sdreq) == _k_n', 'len(send_pdu.sdreq) <= _k'],
                 havoc={'miu_size': Int(), 'self.sdreq': ListOf(Tup(Byte(), Bytes(0, 254)), kind='deque'),
                        'send_pdu.sdreq': ListOf(Tup(Byte(), Bytes(0, 254))), 'self.sent': DictOf({})}),
         })

# llc.LogicalLinkController.collect: llc.sap is abstracted to the list of its active
# (non-None) entries, each obeying the interface contract modelled by models.llc_models.SapModel
SAPM = Obj('models.llc_models:SapModel', kind=Int(0, 2))
AGG = lambda: HeadTail([ANYPDU], ListOf(ANYPDU), 'list')   # noqa
J = ('GHOST.raw_used or (miu_size == self.cfg["send-miu"] - len(agf_pdu) - 3 and '
     '(agf_pdu.count == 1 or miu_size >= -5))')
J2 = 'GHOST.raw_used or len(agf_pdu.first) - agf_pdu.first.header_size <= self.cfg["send-miu"]'
AGG_HAVOC = lambda: {'miu_size': Int(), 'agf_pdu._aggregate': AGG(), 'GHOST.raw_used': Bool(),   # noqa
                     'send_pdu': Opt(ANYPDU)}
CQ = 'nfc.llcp.llc.LogicalLinkController.collect'


def reset_ghost(ex, env):
    g = ex.world.spec_globals(ex)['GHOST']
    g.fields['raw_used'] = False


contract(L + 'LogicalLinkController.collect', 'C10',
         dict(self=Obj(L + 'LogicalLinkController', lock=Lock(), sec=None,
                       cfg=DictOf({'send-miu': Int(128, 2175), 'recv-miu': Int(128, 2175), 'send-agf': Bool()}),
                       sap=ListOf(SAPM)),
              delay=None),
         name='C10/collect', setup=reset_ghost,
         ensures=[('post.link_miu', 'result is None or GHOST.raw_used or '
                                    'len(result) - result.header_size <= self.cfg["send-miu"]')],
         raises={},
         loops={
             (CQ, 'For', 0): LoopSpec(invariant=['send_pdu is None', 'not GHOST.raw_used'],
                                      havoc={'send_pdu': Opt(ANYPDU), 'GHOST.raw_used': Bool()}),
             (CQ, 'For', 1): LoopSpec(invariant=['send_pdu is None', 'not GHOST.raw_used'],
                                      havoc={'send_pdu': Opt(ANYPDU)}),
             (CQ, 'While', 0): LoopSpec(invariant=[J, J2], havoc=AGG_HAVOC()),
             (CQ, 'For', 2): LoopSpec(invariant=[J, J2, 'miu_size >= 0'],
                                      havoc=dict(AGG_HAVOC(), deq_none=Bool())),
             (CQ, 'For', 3): LoopSpec(invariant=[J, J2, 'miu_size >= 0'], havoc=AGG_HAVOC()),
         })

# send()/sendto(): a message larger than the send MIU is refused before anything is queued
ERR = 'nfc.llcp.err:Error'
contract(T + 'LogicalDataLink.sendto', 'C10',
         dict(self=tco('LogicalDataLink', send_queue=Fixed([], 'deque')), message=Bytes(), dest=SAP(),
              flags=Int(1, 1)),
         name='C10/LogicalDataLink.sendto',
         ensures=[('post.fits', 'len(message) <= self.send_miu'),
                  ('post.queued', 'len(self.send_queue) == 1 and self.send_queue[0].data == message and '
                                  'within_miu(self.send_queue[0], self.send_miu, 0)')],
         raises={ERR: ['len(self.send_queue) == 0']})
contract(T + 'DataLinkConnection.send', 'C10',
         dict(self=tco('DataLinkConnection', send_queue=Fixed([], 'deque'), **DLC_EXTRA), message=Bytes(),
              flags=Int(1, 1)),
         name='C10/DataLinkConnection.send',
         ensures=[('post.fits', 'len(message) <= self.send_miu'),
                  ('post.queued', 'len(self.send_queue) <= 1 and (len(self.send_queue) == 0 or '
                                  '(self.send_queue[0].data == message and '
                                  'within_miu(self.send_queue[0], self.send_miu, 0)))')],
         raises={ERR: ['len(self.send_queue) == 0']})
# connect(): the connection's send MIU never exceeds the Link MIU announced by the peer
CCP = Obj(P + 'ConnectionComplete', ptype=6, dsap=SAP(), ssap=SAP(), miu=Int(128, 2175), rw=Int(0, 15))
contract(L + 'LogicalLinkController.connect', 'C10',
         dict(self=Obj(L + 'LogicalLinkController', lock=Lock(), cfg=DictOf({'send-miu': Int(128, 2175)})),
              socket=tco('DataLinkConnection', state=state(1), addr=SAP(), send_queue=Fixed([], 'deque'),
                         recv_queue=Fixed([CCP], 'deque'), **DLC_EXTRA),
              dest=Int(0, 63)),
         name='C10/llc.connect',
         ensures=[('post.send_miu', 'socket.send_miu <= self.cfg["send-miu"]')],
         raises={ERR: []})

# sentinels
contract(T + 'TransmissionControlObject.dequeue', 'C10',
         dict(self=tco('TransmissionControlObject'), miu_size=Int(0, None), icv_size=Int(0, None), notify=Bool()),
         name='C10/sentinel.dequeue-strict', expect_fail=True,
         ensures=[('post', 'result is None or len(result) - result.header_size < miu_size')], raises={})
contract(L + 'LogicalLinkController.collect', 'C10',
         dict(self=Obj(L + 'LogicalLinkController', lock=Lock(), sec=None,
                       cfg=DictOf({'send-miu': Int(128, 2175), 'send-agf': Const(False)}), sap=ListOf(SAPM)),
              delay=None),
         name='C10/sentinel.collect-ignores-raw', setup=reset_ghost, expect_fail=True,
         ensures=[('post', 'result is None or len(result) - result.header_size <= self.cfg["send-miu"]')],
         raises={},
         loops={(CQ, 'For', 0): LoopSpec(invariant=['send_pdu is None'],
                                         havoc={'send_pdu': Opt(ANYPDU), 'GHOST.raw_used': Bool()}),
                (CQ, 'For', 1): LoopSpec(invariant=['send_pdu is None'], havoc={'send_pdu': Opt(ANYPDU)})})
