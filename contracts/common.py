"""Shared by all contract files."""
import os
from pyvc.contracts import *   # noqa
from pyvc.world import World

REPO = os.environ.get('VERIF_REPO', '/repo')
HERE = os.path.dirname(os.path.dirname(os.path.abspath(__file__)))


def world_factory():
    return World({'nfc': os.path.join(REPO, 'src', 'nfc'),
                  'specs': os.path.join(HERE, 'specs'),
                  'drivers': os.path.join(HERE, 'drivers'),
                  'models': os.path.join(HERE, 'models')})


SAP = lambda: Int(0, 63)      # noqa
SEQ = lambda: Int(0, 15)      # noqa
