"""C19 - peer-to-peer activation negotiates limits both sides then obey."""
from .common import *   # noqa

DEP = 'nfc.dep:'
L = 'nfc.llcp.llc:'

contract(DEP + 'ATR_REQ.encode', 'C19',
         dict(self=Obj(DEP + 'ATR_REQ', nfcid3=Bytes(10, 10, mutable=True), did=Byte(), bs=Byte(), br=Byte(),
                       pp=Byte(), gb=Bytes(0, 48, mutable=True))),
         name='C19/ATR_REQ.encode',
         ensures=[('O-enc', 'result == enc_atr_req(self.nfcid3, self.did, self.bs, self.br, self.pp, self.gb)'),
                  ('O-len', 'len(result) == len(self)')], raises={})
contract(DEP + 'ATR_RES.encode', 'C19',
         dict(self=Obj(DEP + 'ATR_RES', nfcid3=Bytes(10, 10, mutable=True), did=Byte(), bs=Byte(), br=Byte(),
                       to=Byte(), pp=Byte(), gb=Bytes(0, 47, mutable=True))),
         name='C19/ATR_RES.encode',
         ensures=[('O-enc', 'result == enc_atr_res(self.nfcid3, self.did, self.bs, self.br, self.to, self.pp, self.gb)'),
                  ('O-len', 'len(result) == len(self)')], raises={})
contract('drivers.c19:atr_req_roundtrip', 'C19',
         dict(nfcid3=Bytes(10, 10), did=Byte(), bs=Byte(), br=Byte(), lr=Int(0, 3), nad=Bool(), gb=Bytes(0, 48)),
         name='C19/ATR_REQ.roundtrip',
         ensures=[('O-rt', 'result.did == did and result.bs == bs and result.br == br and result.nfcid3 == nfcid3'),
                  ('O-rt.gb', 'result.gb == gb'),
                  ('O-lr', 'result.lr == LR_OCTETS[lr] and result.lr == lr_of_pp(result.pp)')], raises={})
contract('drivers.c19:atr_res_roundtrip', 'C19',
         dict(nfcid3=Bytes(10, 10), did=Byte(), bs=Byte(), br=Byte(), to=Byte(), lr=Int(0, 3), nad=Bool(),
              gb=Bytes(0, 47)),
         name='C19/ATR_RES.roundtrip',
         ensures=[('O-rt', 'result.did == did and result.bs == bs and result.br == br and result.to == to and '
                           'result.nfcid3 == nfcid3'),
                  ('O-rt.gb', 'result.gb == gb'),
                  ('O-lr', 'result.lr == LR_OCTETS[lr]'), ('O-wt', 'result.wt == to % 16')], raises={})

# ---------------------------------------------------------------- LLC parameter exchange
# The MAC (nfc.dep) is replaced by assumed contracts: activate() hands the local general bytes to the peer and
# returns the peer's.  "announces": what is handed over equals the independent encoding of the local settings.
# "adopts": for every peer setting, encoded as the peer's "announces" contract says, the local sending limits
# become the peer's announced values.  The two together are the negotiation lemma of C19 for the LLC.
PEER = dict(peer_miu=Int(128, 2175), peer_lto=Int(0, 2550), peer_lsc=Int(0, 3), peer_dpc=Int(0, 1),
            peer_wks=Int(0, 0xFFFF))
PEER_GB = 'llcp_gb(0x13, self.peer_miu, self.peer_wks, (self.peer_lto // 10) * 10, self.peer_lsc, self.peer_dpc)'
for cls in ('Initiator', 'Target'):
    contract(DEP + cls + '.activate', 'C19', dict(self=Any()), name='C19/%s.activate.none' % cls,
             assumed=True, note='MAC activation fails (returns None)', raises={}, returns=Const(None))
    contract(DEP + cls + '.activate', 'C19', dict(self=Any()), name='C19/%s.activate.peer' % cls,
             assumed=True, note='MAC activation returns the general bytes the peer announced', raises={},
             returns=PEER_GB)
LLC = lambda: Obj(L + 'LogicalLinkController', _partial=False,                       # noqa
                  link=Obj(L + 'LogicalLinkController.LinkState', _partial=False,
                           names=("SHUTDOWN", "LISTEN", "CONNECT", "CONNECTED", "ESTABLISHED", "DISCONNECT", "CLOSED"),
                           value=0),
                  cfg=DictOf({'recv-miu': Int(128, 2175), 'send-lto': Int(0, 2550), 'send-lsc': Int(0, 3),
                              'send-agf': Bool(), 'llcp-sec': Bool()}),
                  snl=DictOf({b'urn:nfc:sn:sdp': 1}), sap=None, sec=None, mac=None, lock=Lock())
for role, cls, gbname in (('initiator', 'Initiator', 'gbi'), ('target', 'Target', 'gbt')):
    mac = lambda: Obj(DEP + cls, rwt=Const(0.01), **PEER)   # noqa
    contract(L + 'LogicalLinkController.activate', 'C19', dict(self=LLC(), mac=mac()),
             name='C19/llc.activate.%s.announces' % role, use=['C19/%s.activate.none' % cls],
             ensures=[('O-announce.miu', 'gb_miu(call_arg("C19/%s.activate.none", "%s")) == old(self.cfg["recv-miu"])'
                       % (cls, gbname)),
                      ('O-announce.lto', 'gb_lto_ms(call_arg("C19/%s.activate.none", "%s")) == '
                                         '(old(self.cfg["send-lto"]) // 10) * 10' % (cls, gbname)),
                      ('O-announce.wks', 'gb_wks(call_arg("C19/%s.activate.none", "%s")) == 3' % (cls, gbname)),
                      ('O-announce.opt', 'gb_opt(call_arg("C19/%s.activate.none", "%s")) == old(self.cfg["send-lsc"]) + '
                                         '(4 if old(self.cfg["llcp-sec"]) else 0)' % (cls, gbname)),
                      ('O-announce.version', 'gb_version(call_arg("C19/%s.activate.none", "%s")) == 0x13'
                       % (cls, gbname)),
                      ('O-failed', 'result == False and self.mac is None')],
             raises={})
    contract(L + 'LogicalLinkController.activate', 'C19', dict(self=LLC(), mac=mac()),
             name='C19/llc.activate.%s.adopts' % role, use=['C19/%s.activate.peer' % cls],
             ensures=[('O-negotiate.miu', 'self.cfg["send-miu"] == mac.peer_miu'),
                      ('O-negotiate.lto', 'self.cfg["recv-lto"] == (mac.peer_lto // 10) * 10'),
                      ('O-negotiate.wks', 'self.cfg["send-wks"] == mac.peer_wks'),
                      ('O-negotiate.lsc', 'self.cfg["send-lsc"] == mac.peer_lsc'),
                      ('O-negotiate.dpc', 'self.cfg["llcp-dpc"] == (mac.peer_dpc if old(self.cfg["llcp-sec"]) else 0)'),
                      ('O-own', 'self.cfg["recv-miu"] == old(self.cfg["recv-miu"]) and '
                                'self.cfg["send-lto"] == old(self.cfg["send-lto"])'),
                      ('O-linked', 'result == True and self.mac is mac')],
             raises={})

# ---------------------------------------------------------------- NFC-DEP limits
C = 'nfc.clf:'
PASSIVE = Obj(C + 'RemoteTarget', _partial=False, _brty_send='106A', _brty_recv='106A',
              sel_res=Const(bytearray(b'\x40')), sens_res=Const(bytearray(b'\x01\x01')),
              sdd_res=Const(bytearray(b'\x08\x01\x02\x03')))
PCNT = lambda: Obj(DEP + 'DataExchangeProtocol.Counter', _partial=False,    # noqa
                   sent=DictOf({}, default_factory=True), rcvd=DictOf({}, default_factory=True))
for _prop in ('C19', 'C04'):
  contract(DEP + 'Initiator.activate', _prop,
           dict(self=Obj(DEP + 'Initiator', _partial=False, _acm=False, pcnt=PCNT(),
                         clf=Obj('models.dep_models:PeerTargetClf', _partial=False, lrt=Int(0, 3), wt=Int(0, 15),
                                 gbt=Bytes(0, 47), did=Byte(), sent=Fixed([]))),
                target=PASSIVE,
                options=DictOf({'did': Opt(Int(1, 14)), 'nad': Opt(Int(0, 255)), 'brs': Int(0, 2), 'lri': Int(0, 3),
                                'gbi': Bytes(0, 48)})),
           name='%s/Initiator.activate' % _prop,
           requires=['self.clf.did == (0 if options["did"] is None else options["did"])'],
           ensures=[('O-negotiate.lr', 'self.miu + 3 + (0 if self.did is None else 1) + (0 if self.nad is None else 1) '
                                       '== LR_OCTETS[self.clf.lrt]'),
                    ('O-negotiate.gb', 'result == self.clf.gbt and self.gbt == self.clf.gbt'),
                    ('O-negotiate.rwt', 'self.rwt == 4096/13.56E6 * 2**(self.clf.wt if self.clf.wt < 15 else 14)'),
                    ('O-announce.lri', 'lr_of_pp(self.clf.sent[0][17]) == LR_OCTETS[options["lri"]]'),
                    ('O-announce.gbi', 'self.clf.sent[0][18:] == options["gbi"]'),
                    ('O-pni', 'self.pni == 0'),
                    ('O-negotiate.brty', 'self.target.brty == ("106A", "212F", "424F")[options["brs"]]')],
           raises={})
contract(DEP + 'Target.activate', 'C19',
         dict(self=Obj(DEP + 'Target', _partial=False, pcnt=PCNT(), miu=None, did=None, nad=None, gbi=None,
                       pni=None, rwt=None,
                       clf=Obj('models.dep_models:PeerInitiatorClf', _partial=False, lri=Int(0, 3),
                               gbi=Bytes(0, 48), did=Int(0, 14))),
              timeout=None, options=DictOf({'gbt': Bytes(0, 47), 'lrt': Int(0, 3), 'rwt': Int(0, 14)})),
         name='C19/Target.activate',
         ensures=[('O-negotiate.lr', 'self.miu + 3 + (0 if self.did is None else 1) <= LR_OCTETS[self.clf.lri]'),
                  ('O-negotiate.did', '(self.did is None) == (self.clf.did == 0) and '
                                      '(self.did is None or self.did == self.clf.did)'),
                  ('O-negotiate.gb', 'result == self.clf.gbi and self.gbi == self.clf.gbi'),
                  ('O-negotiate.rwt', 'self.rwt == 4096/13.56E6 * 2**options["rwt"]')],
         raises={})
contract(DEP + 'Target.activate', 'C19',
         dict(self=Obj(DEP + 'Target', _partial=False, pcnt=PCNT(), miu=None, did=None, nad=None, gbi=None,
                       pni=None, rwt=None,
                       clf=Obj('models.dep_models:PeerInitiatorClf', _partial=False, lri=Int(0, 3),
                               gbi=Bytes(0, 48), did=Int(0, 14))),
              timeout=None, options=DictOf({'gbt': Bytes(0, 47), 'lrt': Int(0, 3), 'rwt': Int(0, 14)})),
         name='C19/sentinel.lr-of-own-side', expect_fail=True,
         ensures=[('post', 'self.miu + 3 <= LR_OCTETS[options["lrt"]]')], raises={})

# connect(llcp=...): the NFC-DEP options the application gave (bit rate selector, length reduction, waiting
# time, active mode) reach activate() unchanged - zero and False are values, not "unset"
from .c15_lock import clf as _clf, CB as _CB, C as _C, on_acquire as _on_acquire, setup as _c15_setup   # noqa
_DEPOPT = ('brs', 'acm', 'rwt', 'lrt', 'lri')
contract(_C + 'ContactlessFrontend._llcp_connect', 'C19',
         dict(self=_clf(),
              options=DictOf({'llc': Obj('models.clf_models:LlcOptModel', _partial=False, clf=Ref('self'), got=None),
                              'role': OneOf('target', 'initiator'),
                              'brs': Int(0, 2), 'acm': Bool(), 'rwt': Int(0, 14), 'lrt': Int(0, 3), 'lri': Int(0, 3),
                              'on-connect': _CB('lambda llc: False'), 'on-release': _CB('lambda llc: True')}),
              terminate=_CB('lambda: True')),
         name='C19/_llcp_connect.options', setup=_c15_setup, hooks={'on_acquire': _on_acquire},
         ensures=[('O-options.%s' % k, 'options["llc"].got is not None and options["llc"].got.get("%s") == options["%s"]'
                   % (k, k)) for k in _DEPOPT],
         raises={'IOError': []},
         loops={('models.clf_models.LlcModel.run', 'While', 0): LoopSpec(invariant=['True'])})
# "all later traffic stays within those limits" is C10: its contracts are obligations of C19 too
import copy as _copy
from pyvc.contracts import REGISTRY as _REG
for _c in list(_REG):
    if _c.prop == 'C10' and not _c.expect_fail and not _c.name.startswith('C10/pdu.'):
        _c2 = _copy.copy(_c)
        _c2.prop = 'C19'
        _c2.name = 'C19/traffic.' + _c.name.split('/', 1)[1]
        _REG.append(_c2)

# "the bit rate is the one selected" on a PN53x family Target: the parameter selection request of the Initiator
# names the rate of each direction separately (BRS octet: DSI in bits 5..3 is what the Initiator SENDS with - our
# receiver, DRI in bits 2..0 is what it RECEIVES with - our transmitter; NFCIP-1 12.5.3.2); after the PSL response
# the receiver runs at DSI and the transmitter at DRI - also when the two differ
contract('nfc.clf.pn53x:Device._send_psl_response', 'C19',
         dict(self=Obj('nfc.clf.pn532:Device', chipset=Obj('models.clf_models:RegChipset', _partial=False,
                                                           regs=DictOf({}), sent=Fixed([])), log=Log()),
              psl_req=Bytes(5, 5, mutable=True), psl_res=Bytes(3, 3, mutable=True), timeout=Const(0.1)),
         name='C19/pn53x.psl-response',
         requires=['(psl_req[3] // 8) % 8 <= 2 and psl_req[3] % 8 <= 2'],
         ensures=[('O-negotiate.rx-rate', '(self.chipset.regs["CIU_RxMode"] // 16) % 8 == (psl_req[3] // 8) % 8'),
                  ('O-negotiate.tx-rate', '(self.chipset.regs["CIU_TxMode"] // 16) % 8 == psl_req[3] % 8'),
                  ('O-negotiate.brty', 'result == ("106A", "212F", "424F")[psl_req[3] % 8]'),
                  ('O-negotiate.answered', 'len(self.chipset.sent) == 1 and self.chipset.sent[0][1:] == psl_res')],
         raises={})

# the NFC-DEP payload limit both roles adopt at activation is what every layer above sends by: obligations of C06
# ("over the complete stack from connect() down to the radio frames") as well
import copy as _copy
from pyvc.contracts import REGISTRY as _REG
for _c in list(_REG):
    if _c.name in ('C19/Target.activate', 'C19/Initiator.activate'):
        _c2 = _copy.copy(_c)
        _c2.prop = 'C06'
        _c2.name = 'C06/dep.' + _c.name.split('/', 1)[1]
        _REG.append(_c2)
