"""pyvc symbolic interpreter: executes the real Python AST over the value
domain of values.py, forking on undecided guards by replay (DFS over decision
prefixes), collecting proof obligations which are discharged by z3.

Semantics encoded here are listed in DESIGN.md section 2.2.
"""
import ast
import os
import time
import z3

from .values import *   # noqa
from . import values as V


# log-call argument expressions are evaluated when a contract sets the hook eval_log_args; PYVC_LOG_ARGS=1 makes that
# the default for every contract (exploration aid, not used by the registered commands)
LOG_ARGS_DEFAULT = os.environ.get('PYVC_LOG_ARGS') == '1'


class PyRaise(Exception):
    """An exception of the object program."""
    def __init__(self, exc):
        Exception.__init__(self)
        self.exc = exc


class ReturnEx(Exception):
    def __init__(self, value):
        self.value = value


class BreakEx(Exception):
    pass


class BodyEscape(Exception):
    """return / break / continue of a with-body leaving through an inlined @contextmanager generator: it must
    run the generator's finally clauses and with-exits but is not the generator function's own return"""
    def __init__(self, inner):
        self.inner = inner


class CtxGenInst(object):
    """the object a @contextlib.contextmanager function returns when called: nothing has run yet"""
    def __init__(self, f, args, kwargs):
        self.f, self.args, self.kwargs = f, args, kwargs


class ContinueEx(Exception):
    pass


class PathBudget(Exception):
    pass


class Frame(object):
    def __init__(self, func, module, locals_, localnames, env):
        self.func = func
        self.module = module
        self.locals = locals_
        self.localnames = localnames
        self.env = env          # enclosing local dicts
        self.globalnames = set()


def assigned_names(nodes):
    """Names bound by a list of statements (function-local scope rule)."""
    out = set()
    glob = set()

    def target(t):
        if isinstance(t, ast.Name):
            out.add(t.id)
        elif isinstance(t, (ast.Tuple, ast.List)):
            for e in t.elts:
                target(e)
        elif isinstance(t, ast.Starred):
            target(t.value)

    def walk(n):
        if isinstance(n, (ast.FunctionDef, ast.ClassDef)):
            out.add(n.name)
            return
        if isinstance(n, ast.Lambda):
            return
        if isinstance(n, (ast.ListComp, ast.SetComp, ast.DictComp, ast.GeneratorExp)):
            return
        if isinstance(n, ast.Assign):
            for t in n.targets:
                target(t)
        elif isinstance(n, (ast.AugAssign, ast.AnnAssign)):
            target(n.target)
        elif isinstance(n, (ast.For,)):
            target(n.target)
        elif isinstance(n, ast.With):
            for it in n.items:
                if it.optional_vars is not None:
                    target(it.optional_vars)
        elif isinstance(n, ast.ExceptHandler):
            if n.name:
                out.add(n.name)
        elif isinstance(n, (ast.Import, ast.ImportFrom)):
            for a in n.names:
                out.add((a.asname or a.name).split('.')[0])
        elif isinstance(n, (ast.Global, ast.Nonlocal)):
            glob.update(n.names)
        elif isinstance(n, ast.NamedExpr):
            target(n.target)
        for c in ast.iter_child_nodes(n):
            walk(c)

    for n in nodes:
        walk(n)
    return out - glob, glob


class Obligation(object):
    def __init__(self, name, status, path, detail=None, model=None, time_s=0.0,
                 where=None):
        self.name = name
        self.status = status     # 'discharged' | 'failed' | 'unknown'
        self.path = path
        self.detail = detail
        self.model = model
        self.time_s = time_s
        self.where = where


class Exec(object):
    """One executor = one function under verification (many paths)."""

    def __init__(self, world, timeout_ms=10000, max_paths=4000, max_unroll=40):
        self.world = world
        self.timeout_ms = timeout_ms
        self.branch_timeout_ms = int(os.environ.get('PYVC_BRANCH_MS', '2000'))
        self.retry_factor = int(os.environ.get('PYVC_RETRY_FACTOR', '6'))
        self.max_paths = max_paths
        self.max_unroll = max_unroll
        self.obligations = []
        self.notes = []
        self.paths = 0
        self.undecided = []
        self.solver_time = 0.0
        self.solver_calls = 0
        self.hooks = {}
        self.t_start = time.time()
        self.budget_s = 300
        self.loop_specs = {}     # (funcqualname, kind, ordinal) -> spec
        self.call_contracts = {}  # qualname -> contract (modular calls)
        self.recheck_stats = {'queries': 0, 'skipped': 0, 'tools': {}, 'disagree': []}
        self.on_wait = None
        self.reset_path([])

    # ------------------------------------------------------------------ paths
    def reset_path(self, decisions):
        self.decisions = list(decisions)
        self.prefix_len = len(self.decisions)
        self.pos = 0
        self.pc = []
        self.solver = z3.Solver()
        self.solver.set('timeout', self.timeout_ms)
        self.fresh_count = {}
        self.facts_seen = set()
        self.scopes = []
        self.len_terms = []
        self.nondet = []         # (kind, value) oracle choices on this path
        self.frames = []
        self.events = []         # ghost event log
        self.heap = []           # SObj created on this path
        self.depth = 0
        self.collect_facts = None
        self.ghost = {}
        self.path_tags = []

    def fresh_name(self, base):
        n = self.fresh_count.get(base, 0)
        self.fresh_count[base] = n + 1
        return base if n == 0 else '%s!%d' % (base, n)

    def fresh_int(self, base, lo=None, hi=None):
        t = z3.Int(self.fresh_name(base))
        if lo is not None:
            self.assume(t >= lo)
        if hi is not None:
            self.assume(t <= hi)
        return SInt(t)

    def fresh_bool(self, base):
        return SBool(z3.Bool(self.fresh_name(base)))

    def fresh_bytes(self, base, minlen=0, maxlen=None, mutable=False, length=None):
        name = self.fresh_name(base)
        f = z3.Function(name, z3.IntSort(), z3.IntSort())
        if length is None:
            if maxlen is not None and minlen == maxlen:
                ln = minlen
            else:
                ln = z3.Int(name + '.len')
                self.len_terms.append(ln)
                self.assume(ln >= minlen)
                if maxlen is not None:
                    self.assume(ln <= maxlen)
        else:
            ln = length if isinstance(length, int) else zint(length)

        def at(i, f=f):
            zi_ = i if not isinstance(i, int) else z3.IntVal(i)
            t = f(zi_)
            self.fact(z3.And(t >= 0, t <= 255))
            if self.collect_facts is None:
                seen = self.ghost.setdefault('at_idx', {}).setdefault(name, {})
                if zi_.get_id() not in seen:
                    seen[zi_.get_id()] = zi_
                    ps = self.ghost.get('ps', {}).get(name)
                    if ps is not None:
                        self.fact(ps(zi_ + 1) == ps(zi_) + t)
            return t
        b = SBytes(ln, at, mutable, base=name)
        b.fn = f
        b.origin = (f, 0, name)
        return b

    def prefix_sum(self, f, name):
        """PS(k) = sum of the first k bytes of input byte string f (uninterpreted,
        unfolded by ground instances at every index that is inspected)"""
        reg = self.ghost.setdefault('ps', {})
        if name not in reg:
            ps = z3.Function('psum!' + name, z3.IntSort(), z3.IntSort())
            reg[name] = ps
            self.ghost.setdefault('ps_f', {})[name] = f
            self.fact(ps(0) == 0)
            for zi_ in list(self.ghost.get('at_idx', {}).get(name, {}).values()):
                self.fact(ps(zi_ + 1) == ps(zi_) + f(zi_))
        return reg[name]

    def fact(self, t):
        """A fact that is true by construction of the encoding (byte ranges)."""
        if self.collect_facts is not None:
            self.collect_facts.append(t)
            return
        k = t.get_id()
        if k in self.facts_seen:
            return
        self.facts_seen.add(k)
        self.solver.add(t)
        self.pc.append(t)
        if self.scopes:
            self.scopes[-1].append(t)

    def push_scope(self):
        """temporary assumptions (spec-level implication / sequential conjunction)"""
        self.scopes.append([])
        self.solver.push()
        return len(self.pc)

    def pop_scope(self, mark):
        """-> constraints added inside the scope (besides facts, which are kept)"""
        facts = self.scopes.pop()
        ids = set(f.get_id() for f in facts)
        extra = [t for t in self.pc[mark:] if t.get_id() not in ids]
        del self.pc[mark:]
        self.solver.pop()
        for f in facts:
            self.solver.add(f)
            self.pc.append(f)
            if self.scopes:
                self.scopes[-1].append(f)
        return extra

    def assume(self, t):
        if isinstance(t, bool):
            if not t:
                raise PathEnd()
            return
        if isinstance(t, SBool):
            t = t.t
        self.solver.add(t)
        self.pc.append(t)

    def check(self, *extra, **kw):
        """satisfiability of the path condition (plus extra).  Every caller treats `unknown` as `maybe`, so the
        short feasibility budget applies unless full=True (precondition satisfiability at contract entry)."""
        t0 = time.time()
        short = not kw.get('full') and self.branch_timeout_ms < self.timeout_ms
        if short:
            self.solver.set('timeout', self.branch_timeout_ms)
        self.solver.push()
        for e in extra:
            self.solver.add(e)
        r = self.solver.check()
        self.solver.pop()
        if short:
            self.solver.set('timeout', self.timeout_ms)
        self.solver_time += time.time() - t0
        self.solver_calls += 1
        if time.time() - t0 > 5 and os.environ.get('PYVC_SLOW'):
            import sys
            sys.stderr.write('slow check %.1fs %s at %s (%d assertions)\n' % (
                time.time() - t0, r, self.where(getattr(self, 'cur_node', None)), len(self.solver.assertions())))
        return r

    def recheck(self, name, negated_goal):
        """thorough tier: the query just answered `unsat` by the z3 5.1 API is dumped as SMT-LIB 2 and decided
        again by the independent /usr/bin/z3 4.8.12 build (and by cvc5 when it accepts the text).  `sat` from
        either is a solver disagreement (checker error); anything else than `unsat` is inconclusive."""
        import subprocess, tempfile
        st = self.recheck_stats
        t_in = time.time()
        try:
            return self._recheck(name, negated_goal, st)
        finally:
            # time spent in the second solvers does not count against the contract's exploration budget
            self.t_start += time.time() - t_in

    def _recheck(self, name, negated_goal, st):
        import subprocess, tempfile
        limit = int(os.environ.get('PYVC_RECHECK_MAX', '2000'))
        if st['queries'] >= limit:
            st['skipped'] += 1
            return
        st['queries'] += 1
        tmp = z3.Solver()
        for a in self.solver.assertions():
            tmp.add(a)
        if negated_goal is not None:
            tmp.add(negated_goal)
        text = tmp.to_smt2()
        with tempfile.NamedTemporaryFile('w', suffix='.smt2', delete=False, dir=os.environ.get('PYVC_TMP')) as f:
            f.write(text)
            path = f.name
        try:
            for tool, cmd in (('z3-4.8.12', ['/usr/bin/z3', '-smt2', '-T:10', path]),
                              ('cvc5-1.0', ['/usr/bin/cvc5', '--tlimit=10000', path])):
                t0 = time.time()
                try:
                    out = subprocess.run(cmd, capture_output=True, text=True, timeout=20).stdout.strip()
                except Exception:
                    out = 'timeout'
                first = out.split('\n')[0].strip() if out else ''
                e = st['tools'].setdefault(tool, {'unsat': 0, 'sat': 0, 'inconclusive': 0, 'time_s': 0.0})
                e['time_s'] += time.time() - t0
                if first == 'unsat':
                    e['unsat'] += 1
                elif first == 'sat':
                    e['sat'] += 1
                    st['disagree'].append('%s says sat for %s' % (tool, name))
                else:
                    e['inconclusive'] += 1
        finally:
            os.unlink(path)

    def model(self, *extra):
        self.solver.push()
        for e in extra:
            self.solver.add(e)
        r = self.solver.check()
        if r == z3.unknown and self.retry_factor > 1:
            # an obligation that ran into the per-query budget (machine busy, unlucky heuristics) is tried once more
            # with a larger one before it counts as undecided; verdicts must not depend on the load of the machine
            self.solver.set('timeout', self.timeout_ms * self.retry_factor)
            self.retries = getattr(self, 'retries', 0) + 1
            t1 = time.time()
            r = self.solver.check()
            self.solver_time += time.time() - t1
            self.solver.set('timeout', self.timeout_ms)
        m = self.solver.model() if r == z3.sat else None
        if r == z3.sat and self.len_terms:
            # prefer a small counterexample: bound every symbolic length
            for bound in (8, 40, 300):
                self.solver.push()
                for t in self.len_terms:
                    self.solver.add(t <= bound)
                # make uninterpreted prefix sums exact on the bounded range, so
                # that the model is a real byte string
                for nm, ps in self.ghost.get('ps', {}).items():
                    f = self.ghost['ps_f'][nm]
                    for i in range(bound + 2):
                        self.solver.add(ps(i + 1) == ps(i) + f(i), f(i) >= 0, f(i) <= 255)
                r2 = self.solver.check()
                if r2 == z3.sat:
                    m = self.solver.model()
                self.solver.pop()
                if r2 == z3.sat:
                    break
        self.solver.pop()
        return r, m

    def branch(self, cond, tag=None):
        """Decide a guard: bool, or fork on an SBool."""
        if isinstance(cond, bool):
            return cond
        if not isinstance(cond, SBool):
            cond = self.truth(cond)
            if isinstance(cond, bool):
                return cond
        c = z3.simplify(cond.t)
        if z3.is_true(c):
            return True
        if z3.is_false(c):
            return False
        if self.pos < len(self.decisions):
            d = self.decisions[self.pos]
            self.pos += 1
            self.solver.add(c if d else z3.Not(c))
            self.pc.append(c if d else z3.Not(c))
            return d
        if os.environ.get('PYVC_TRACE'):
            self.branch_hist = getattr(self, 'branch_hist', {})
            k = self.where(getattr(self, 'cur_node', None))
            self.branch_hist[k] = self.branch_hist.get(k, 0) + 1
        # feasibility of a guard: `unknown` is treated as feasible (exploring an infeasible path costs time only,
        # its obligations still need their own unsat), so a short budget is enough here
        rt = self.check(c)
        rf = self.check(z3.Not(c))
        if rt == z3.unsat and rf == z3.unsat:
            raise PathEnd()
        if rt == z3.unsat:
            d = False
        elif rf == z3.unsat:
            d = True
        else:
            d = True
            self.pending.append(self.decisions[:self.pos] + [False])
        self.decisions.append(d)
        self.pos += 1
        self.solver.add(c if d else z3.Not(c))
        self.pc.append(c if d else z3.Not(c))
        return d

    def choose(self, n, tag=None):
        """Non-solver n-way fork (shape alternatives)."""
        if n == 1:
            return 0
        for k in range(n - 1):
            if self.pos < len(self.decisions):
                d = self.decisions[self.pos]
                self.pos += 1
            else:
                d = True
                self.pending.append(self.decisions[:self.pos] + [False])
                self.decisions.append(d)
                self.pos += 1
            if d:
                return k
        return n - 1

    def explore(self, body):
        """Run body() once per path. body raises PathEnd to stop a path."""
        self.pending = [[]]
        while self.pending:
            dec = self.pending.pop()
            if self.paths >= self.max_paths:
                self.undecided.append('path budget (%d) exceeded' % self.max_paths)
                return
            if time.time() - self.t_start > self.budget_s:
                self.undecided.append('time budget (%ds) exceeded after %d paths' % (self.budget_s, self.paths))
                return
            self.reset_path(dec)
            self.paths += 1
            if os.environ.get('PYVC_TRACE'):
                import sys
                sys.stderr.write('path %d dec=%d pending=%d obl=%d t=%.1f\n' % (
                    self.paths, len(dec), len(self.pending), len(self.obligations), time.time()))
            try:
                body()
            except PathEnd:
                pass
            except Unsupported as e:
                self.undecided.append('unsupported: %s' % (e,))
            except RecursionError:
                self.undecided.append('interpreter recursion limit')

    # ------------------------------------------------------------ obligations
    def oblige(self, name, goal, detail=None, where=None):
        t0 = time.time()
        pre = getattr(self, 'ob_prefix', None)
        if pre and not name.startswith(pre):
            name = pre + '/' + name
        self.cur_obligation = name
        if self.pos < self.prefix_len:
            # replaying a prefix: this obligation was checked by the path that
            # created the prefix, under the same path condition
            return True
        if isinstance(goal, bool):
            if goal:
                self.obligations.append(Obligation(name, 'discharged', self.paths, detail, where=where))
                return True
            r, m = self.model()
            if r == z3.unsat:
                self.obligations.append(Obligation(name, 'discharged', self.paths, detail, where=where))
                if self.hooks.get('recheck'):
                    self.recheck(name, None)
                return True
            st = 'failed' if r == z3.sat else 'unknown'
            self.obligations.append(Obligation(name, st, self.paths, detail, self.snapshot_model(m),
                                               time.time() - t0, where=where))
            return False
        g = goal.t if isinstance(goal, SBool) else goal
        r, m = self.model(z3.Not(g))
        dt = time.time() - t0
        if dt > 5 and os.environ.get('PYVC_SLOW'):
            import sys
            sys.stderr.write('slow obligation %.1fs %s %s (%d assertions)\n' % (dt, r, name, len(self.solver.assertions())))
        if r == z3.unsat:
            self.obligations.append(Obligation(name, 'discharged', self.paths, detail, None, dt, where=where))
            if self.hooks.get('recheck'):
                self.recheck(name, z3.Not(g))
            return True
        st = 'failed' if r == z3.sat else 'unknown'
        self.obligations.append(Obligation(name, st, self.paths, detail, self.snapshot_model(m), dt, where=where))
        return False

    def snapshot_model(self, m):
        """Concretise the recorded initial state / oracle under model m."""
        if m is None:
            return None
        nm = self.obligations[-1].name if False else None
        self.model_budget = getattr(self, 'model_budget', {})
        key = getattr(self, 'cur_obligation', None)
        n = self.model_budget.get(key, 0)
        self.model_budget[key] = n + 1
        if n >= 6:
            return {'skipped': 'more than 6 failing paths for this obligation; model not concretised'}
        snap = {}
        if self.hooks.get('concretize'):
            try:
                snap = self.hooks['concretize'](self, m)
            except Exception as e:   # pragma: no cover
                snap = {'error': 'concretize failed: %r' % (e,)}
        return snap

    # ------------------------------------------------------------- exceptions
    def make_exc(self, clsname, *args):
        cls = self.world.builtin_class(clsname)
        e = SObj(cls)
        e.fields['args'] = STuple(args)
        return e

    def throw(self, clsname, *args):
        raise PyRaise(self.make_exc(clsname, *args))

    # ------------------------------------------------------------------ truth
    def truth(self, v):
        if isinstance(v, bool):
            return v
        if v is None:
            return False
        if isinstance(v, SBool):
            return v
        if isinstance(v, (int, float)):
            return v != 0
        if isinstance(v, SInt):
            return mk_bool(v.t != 0)
        if isinstance(v, SBytes):
            if isinstance(v.length, int):
                return v.length > 0
            return mk_bool(v.length > 0)
        if isinstance(v, str):
            return len(v) > 0
        if isinstance(v, SStr):
            if v.opaque:
                return True
            return True
        if isinstance(v, tuple):
            return len(v) > 0
        if isinstance(v, SList):
            n = self.seq_len(v)
            return n > 0 if isinstance(n, int) else mk_bool(zint(n) > 0)
        if isinstance(v, SDict):
            return len(v.d) > 0
        if isinstance(v, SSet):
            return len(v.d) > 0
        if isinstance(v, RangeVal):
            n = self.range_len(v)
            return n > 0 if isinstance(n, int) else mk_bool(zint(n) > 0)
        if isinstance(v, SObj):
            f, _ = v.cls.lookup('__bool__')
            if f is not None:
                return self.truth(self.call(self.bind(v, f), [], {}))
            f, _ = v.cls.lookup('__len__')
            if f is not None:
                n = self.call(self.bind(v, f), [], {})
                return self.truth(n)
            return True
        return True

    def bind(self, obj, f):
        if isinstance(f, FuncVal):
            return BoundMethod(obj, f)
        if isinstance(f, StaticMethodVal):
            return f.f
        if isinstance(f, ClassMethodVal):
            return BoundMethod(obj.cls if isinstance(obj, SObj) else obj, f.f)
        return f

    # ------------------------------------------------------------- sequences
    def seq_len(self, v):
        if isinstance(v, SList):
            n = len(v.left) + len(v.right)
            if v.mid is not None:
                return mk_int(zint(v.mid.length) + n)
            return n
        raise Unsupported('seq_len of %r' % (v,))

    def range_len(self, r):
        if all(isinstance(x, int) for x in (r.start, r.stop, r.step)):
            return len(range(r.start, r.stop, r.step))
        if r.step == 1:
            d = zint(r.stop) - zint(r.start)
            return mk_int(z3.If(d > 0, d, 0))
        if isinstance(r.step, int) and r.step > 1:
            d = zint(r.stop) - zint(r.start)
            return mk_int(z3.If(d > 0, (d + (r.step - 1)) / r.step, 0))
        if isinstance(r.step, int) and r.step < 0:
            d = zint(r.start) - zint(r.stop)
            s = -r.step
            return mk_int(z3.If(d > 0, (d + (s - 1)) / s, 0))
        raise Unsupported('range with symbolic step')

    # --------------------------------------------------------------- running
    def run_function(self, fn, args, kwargs):
        return self.call(fn, args, kwargs)

    def call(self, fn, args, kwargs):
        from . import natives
        return natives.call(self, fn, args, kwargs)

    def func_locals(self, f):
        if f.locals is None:
            node = f.node
            names = set()
            a = node.args
            for x in a.posonlyargs + a.args + a.kwonlyargs:
                names.add(x.arg)
            if a.vararg:
                names.add(a.vararg.arg)
            if a.kwarg:
                names.add(a.kwarg.arg)
            if isinstance(node, ast.Lambda):
                f.locals = (names, set())
            else:
                asg, glob = assigned_names(node.body)
                f.locals = (names | asg, glob)
        return f.locals

    def call_function(self, f, args, kwargs):
        """Call an interpreted function: bind arguments, run the body."""
        if f.qualname in self.call_contracts and not self.hooks.get('inline_all'):
            c = self.call_contracts[f.qualname]
            if f is not self.hooks.get('target_func') or self.ghost.get('entered_target'):
                return self.hooks['apply_contract'](self, c, f, args, kwargs)
            self.ghost['entered_target'] = True
        hook = None
        if getattr(f, 'is_ctxgen', False):
            hook = getattr(self, '_ctxgen_run', None)
            if hook is None:
                return CtxGenInst(f, list(args), dict(kwargs))
            self._ctxgen_run = None
        node = f.node
        a = node.args
        params = [x.arg for x in a.posonlyargs + a.args]
        loc = {}
        args = list(args)
        kwargs = dict(kwargs)
        n = len(params)
        if args and isinstance(args[-1], SymVarArgs):
            if a.vararg is None or len(args) - 1 != n:
                raise Unsupported('symbolic *args do not line up with the callee signature')
            loc[a.vararg.arg] = args[-1].slist
            args = args[:-1]
        elif len(args) > n:
            if a.vararg is None:
                self.throw('TypeError', '%s() takes %d positional arguments but %d were given'
                           % (f.qualname, n, len(args)))
            loc[a.vararg.arg] = STuple(args[n:])
            args = args[:n]
        elif a.vararg is not None and a.vararg.arg not in loc:
            loc[a.vararg.arg] = STuple()
        for i, v in enumerate(args):
            loc[params[i]] = v
        ndef = len(f.defaults)
        for i in range(len(args), n):
            p = params[i]
            if p in kwargs:
                loc[p] = kwargs.pop(p)
            elif i >= n - ndef:
                loc[p] = f.defaults[i - (n - ndef)]
            else:
                self.throw('TypeError', '%s() missing required argument %r' % (f.qualname, p))
        for x in a.kwonlyargs:
            if x.arg in kwargs:
                loc[x.arg] = kwargs.pop(x.arg)
            elif x.arg in f.kw_defaults:
                loc[x.arg] = f.kw_defaults[x.arg]
            else:
                self.throw('TypeError', '%s() missing keyword-only argument %r' % (f.qualname, x.arg))
        if kwargs:
            if a.kwarg is None:
                for k in kwargs:
                    if k in params:
                        self.throw('TypeError', '%s() got multiple values for argument %r' % (f.qualname, k))
                self.throw('TypeError', '%s() got an unexpected keyword argument %r'
                           % (f.qualname, sorted(kwargs)[0]))
            d = SDict()
            for k, v in kwargs.items():
                d.d[k] = (k, v)
            loc[a.kwarg.arg] = d
        elif a.kwarg is not None:
            loc[a.kwarg.arg] = SDict()
        names, glob = self.func_locals(f)
        fr = Frame(f, f.module, loc, names, f.env)
        fr.globalnames = glob
        if hook is not None:
            fr.yield_hook = hook
        self.frames.append(fr)
        self.depth += 1
        if self.depth > 60:
            self.depth -= 1
            self.frames.pop()
            if self.hooks.get('recursion_is_error', True):
                self.throw('RecursionError', 'maximum recursion depth exceeded')
            raise Unsupported('recursion depth')
        try:
            if isinstance(node, ast.Lambda):
                return self.eval(node.body)
            try:
                self.exec_block(node.body)
            except ReturnEx as r:
                return r.value
            return None
        finally:
            self.depth -= 1
            self.frames.pop()

    # ------------------------------------------------------------ statements
    def exec_block(self, stmts):
        for s in stmts:
            self.exec_stmt(s)

    def exec_stmt(self, s):
        m = getattr(self, 'st_' + s.__class__.__name__, None)
        if m is None:
            raise Unsupported('statement %s' % s.__class__.__name__)
        self.cur_node = s
        return m(s)

    def st_Expr(self, s):
        v = s.value
        if isinstance(v, ast.Constant):
            return
        if self.is_log_call(v):
            if self.hooks.get('eval_log_args', LOG_ARGS_DEFAULT):
                self.eval_log_args(v)
            return
        self.eval(v)

    def eval_log_args(self, call):
        """The logging call itself is dropped, but Python evaluates its argument expressions first: an exception
        raised there (a format spec the value's type refuses, a missing attribute or index) leaves the function
        like any other.  Evaluated on request (contract hook eval_log_args); what the executor cannot evaluate is
        skipped and counted, the assumption 'log arguments raise nothing' then stands for that call."""
        if self.pos < self.prefix_len:
            st = {'evaluated': 0, 'skipped': 0}     # replaying a prefix: counted by the path that created it
        else:
            st = self.__dict__.setdefault('log_args_stats', {'evaluated': 0, 'skipped': 0})
        try:
            for a in call.args:
                if isinstance(a, ast.Starred):
                    raise Unsupported('starred log argument')
                self.eval(a)
            for kw in call.keywords:
                self.eval(kw.value)
            st['evaluated'] += 1
        except Unsupported:
            st['skipped'] += 1

    def is_log_call(self, v):
        """log.*(...), self.log.*(...), print(...) are dropped (DESIGN 2.1)."""
        if not isinstance(v, ast.Call):
            return False
        f = v.func
        if isinstance(f, ast.Name) and f.id == 'print':
            return True
        if isinstance(f, ast.Attribute):
            b = f.value
            if isinstance(b, ast.Name) and b.id in ('log', 'logging') and f.attr in (
                    'debug', 'info', 'warning', 'error', 'critical', 'exception', 'log', 'warn'):
                return True
            if (isinstance(b, ast.Attribute) and b.attr == 'log' and isinstance(b.value, ast.Name)
                    and b.value.id == 'self' and f.attr in ('debug', 'info', 'warning', 'error',
                                                            'critical', 'exception', 'log', 'warn')):
                return True
            if isinstance(b, ast.Name) and b.id == 'self' and f.attr in ('log', 'err') \
                    and self.hooks.get('drop_self_log', True):
                # tco.DataLinkConnection.log/err are pure logging helpers
                fr = self.frames[-1] if self.frames else None
                if fr is not None and fr.func is not None and fr.func.cls is not None:
                    m, _ = fr.func.cls.lookup(f.attr)
                    if isinstance(m, FuncVal) and self.world.is_logging_helper(m):
                        return True
        return False

    def st_Pass(self, s):
        pass

    def st_Return(self, s):
        raise ReturnEx(self.eval(s.value) if s.value is not None else None)

    def st_Break(self, s):
        raise BreakEx()

    def st_Continue(self, s):
        raise ContinueEx()

    def st_Global(self, s):
        pass

    def st_Nonlocal(self, s):
        raise Unsupported('nonlocal')

    def st_Assert(self, s):
        c = self.eval(s.test)
        if not self.branch(self.truth(c)):
            self.throw('AssertionError')

    def st_Delete(self, s):
        from . import natives
        for t in s.targets:
            if isinstance(t, ast.Subscript):
                obj = self.eval(t.value)
                idx = self.eval_index(t.slice)
                natives.delitem(self, obj, idx)
            elif isinstance(t, ast.Name):
                fr = self.frames[-1]
                fr.locals.pop(t.id, None)
            elif isinstance(t, ast.Attribute):
                obj = self.eval(t.value)
                if isinstance(obj, SObj) and t.attr in obj.fields:
                    del obj.fields[t.attr]
                else:
                    self.throw('AttributeError', t.attr)
            else:
                raise Unsupported('del target')

    def st_Assign(self, s):
        v = self.eval(s.value)
        for t in s.targets:
            self.assign(t, v)

    def st_AnnAssign(self, s):
        if s.value is not None:
            self.assign(s.target, self.eval(s.value))

    def st_AugAssign(self, s):
        from . import natives
        t = s.target
        if isinstance(t, ast.Name):
            cur = self.load_name(t.id)
            self.assign(t, natives.binop(self, s.op, cur, self.eval(s.value), inplace=True))
        elif isinstance(t, ast.Attribute):
            obj = self.eval(t.value)
            cur = self.getattr(obj, t.attr)
            self.setattr(obj, t.attr, natives.binop(self, s.op, cur, self.eval(s.value), inplace=True))
        elif isinstance(t, ast.Subscript):
            obj = self.eval(t.value)
            idx = self.eval_index(t.slice)
            cur = natives.getitem(self, obj, idx)
            natives.setitem(self, obj, idx, natives.binop(self, s.op, cur, self.eval(s.value), inplace=True))
        else:
            raise Unsupported('augassign target')

    def assign(self, t, v):
        from . import natives
        if isinstance(t, ast.Name):
            fr = self.frames[-1]
            if t.id in fr.globalnames:
                fr.module.globals[t.id] = v
            else:
                fr.locals[t.id] = v
        elif isinstance(t, ast.Attribute):
            self.setattr(self.eval(t.value), t.attr, v)
        elif isinstance(t, ast.Subscript):
            obj = self.eval(t.value)
            natives.setitem(self, obj, self.eval_index(t.slice), v)
        elif isinstance(t, (ast.Tuple, ast.List)):
            items = natives.unpack_iter(self, v, len(t.elts),
                                        star=any(isinstance(e, ast.Starred) for e in t.elts))
            if any(isinstance(e, ast.Starred) for e in t.elts):
                k = [i for i, e in enumerate(t.elts) if isinstance(e, ast.Starred)][0]
                after = len(t.elts) - k - 1
                head = items[:k]
                tail = items[len(items) - after:] if after else []
                mid = items[k:len(items) - after]
                for e, x in zip(t.elts[:k], head):
                    self.assign(e, x)
                self.assign(t.elts[k].value, SList(mid))
                for e, x in zip(t.elts[k + 1:], tail):
                    self.assign(e, x)
            else:
                for e, x in zip(t.elts, items):
                    self.assign(e, x)
        else:
            raise Unsupported('assign target %s' % t.__class__.__name__)

    def st_If(self, s):
        if self.branch(self.truth(self.eval(s.test))):
            self.exec_block(s.body)
        else:
            self.exec_block(s.orelse)

    def loop_ordinal(self, s):
        fr = self.frames[-1]
        f = fr.func
        if f is None:
            return None
        key = (id(f.node), id(s))
        cache = self.world.loop_ord_cache
        if key not in cache:
            kinds = {}
            for n in ast.walk(f.node):
                if isinstance(n, (ast.While, ast.For)):
                    pass
            # ordinal in source order among loops of that kind, nested defs excluded
            order = []

            def visit(n):
                for c in ast.iter_child_nodes(n):
                    if isinstance(c, (ast.FunctionDef, ast.Lambda, ast.ClassDef)):
                        continue
                    if isinstance(c, (ast.While, ast.For)):
                        order.append(c)
                    visit(c)
            visit(f.node)
            cnt = {}
            for n in order:
                k = 'While' if isinstance(n, ast.While) else 'For'
                cache[(id(f.node), id(n))] = (k, cnt.get(k, 0))
                cnt[k] = cnt.get(k, 0) + 1
        return cache.get(key)

    def loop_spec(self, s):
        fr = self.frames[-1]
        if fr.func is None:
            return None
        o = self.loop_ordinal(s)
        if o is None:
            return None
        return self.loop_specs.get((fr.func.qualname, o[0], o[1]))

    def st_While(self, s):
        spec = self.loop_spec(s)
        if spec is not None:
            return self.hooks['annotated_loop'](self, s, spec)
        n = 0
        while True:
            if not self.branch(self.truth(self.eval(s.test))):
                self.exec_block(s.orelse)
                return
            n += 1
            if n > self.max_unroll:
                raise Unsupported('while loop exceeds unroll bound %d without invariant (%s)'
                                  % (self.max_unroll, self.where(s)))
            try:
                self.exec_block(s.body)
            except BreakEx:
                return
            except ContinueEx:
                continue

    def st_For(self, s):
        from . import natives
        spec = self.loop_spec(s)
        it = self.eval(s.iter)
        if spec is not None:
            return self.hooks['annotated_loop'](self, s, spec, it)
        n = 0
        for x in natives.iterate(self, it, where=s):
            n += 1
            self.assign(s.target, x)
            try:
                self.exec_block(s.body)
            except BreakEx:
                return
            except ContinueEx:
                continue
        self.exec_block(s.orelse)

    def where(self, node):
        fr = self.frames[-1] if self.frames else None
        fn = fr.func.qualname if fr is not None and fr.func is not None else '?'
        return '%s:%s' % (fn, getattr(node, 'lineno', '?'))

    def st_With(self, s):
        self._with_items(s, 0)

    def _with_items(self, s, i):
        from . import natives
        if i == len(s.items):
            self.exec_block(s.body)
            return
        it = s.items[i]
        m = self.eval(it.context_expr)
        if isinstance(m, CtxGenInst):
            return self._with_ctxgen(s, i, it, m)
        v = natives.ctx_enter(self, m)
        try:
            if it.optional_vars is not None:
                self.assign(it.optional_vars, v)
            self._with_items(s, i + 1)
        except PyRaise as e:
            if not natives.ctx_exit(self, m, e.exc):
                raise
        except (ReturnEx, BreakEx, ContinueEx, BodyEscape):
            natives.ctx_exit(self, m, None)
            raise
        except (PathEnd, Unsupported):
            raise
        else:
            natives.ctx_exit(self, m, None)

    def _with_ctxgen(self, s, i, it, inst):
        """`with f(...) as x: body` for a @contextlib.contextmanager generator function f: the generator body runs
        inline and the rest of the with statement runs at its yield (in the frame of the with statement) - an
        exception of the body arrives at the yield as gen.throw() delivers it, a return/break/continue of the body
        unwinds the generator's finally clauses.  Exactly one yield per run is supported."""
        depth = len(self.frames)
        state = {'yielded': False}

        def hook(v):
            if state['yielded']:
                raise Unsupported('@contextmanager generator yields a second time')
            state['yielded'] = True
            saved = self.frames[depth:]
            del self.frames[depth:]
            try:
                if it.optional_vars is not None:
                    self.assign(it.optional_vars, v)
                self._with_items(s, i + 1)
            except (ReturnEx, BreakEx, ContinueEx) as e:
                raise BodyEscape(e)
            finally:
                self.frames[depth:] = saved
            return None
        self._ctxgen_run = hook
        try:
            self.call_function(inst.f, inst.args, inst.kwargs)
        except BodyEscape as b:
            raise b.inner
        finally:
            self._ctxgen_run = None
        if not state['yielded']:
            self.throw('RuntimeError', "generator didn't yield")

    def ex_Yield(self, e):
        hook = getattr(self.frames[-1], 'yield_hook', None)
        if hook is None:
            raise Unsupported('yield outside a @contextmanager generator used in a with statement')
        return hook(self.eval(e.value) if e.value is not None else None)

    def st_Raise(self, s):
        if s.exc is None:
            fr = self.frames[-1]
            cur = getattr(fr, 'handling', None)
            if cur is None:
                self.throw('RuntimeError', 'No active exception to reraise')
            raise PyRaise(cur)
        e = self.eval(s.exc)
        if isinstance(e, ClassVal):
            e = self.call(e, [], {})
        if not isinstance(e, SObj) or not e.cls.issubclass(self.world.builtin_class('BaseException')):
            self.throw('TypeError', 'exceptions must derive from BaseException')
        e.raised_at = self.where(s)
        raise PyRaise(e)

    def exc_matches(self, exc, spec):
        if isinstance(spec, tuple):
            return any(self.exc_matches(exc, x) for x in spec)
        if isinstance(spec, ClassVal):
            return exc.cls.issubclass(spec)
        if isinstance(spec, Missing):
            return False
        raise Unsupported('except clause with %r' % (spec,))

    def st_Try(self, s):
        fr = self.frames[-1]
        try:
            try:
                self.exec_block(s.body)
            except PyRaise as e:
                for h in s.handlers:
                    if h.type is None or self.exc_matches(e.exc, self.eval(h.type)):
                        if h.name:
                            fr.locals[h.name] = e.exc
                        saved = getattr(fr, 'handling', None)
                        fr.handling = e.exc
                        try:
                            self.exec_block(h.body)
                        finally:
                            fr.handling = saved
                            if h.name:
                                fr.locals.pop(h.name, None)
                        break
                else:
                    raise
            else:
                self.exec_block(s.orelse)
        except (PathEnd, Unsupported, PathBudget):
            raise
        except (PyRaise, ReturnEx, BreakEx, ContinueEx, BodyEscape):
            self.exec_block(s.finalbody)
            raise
        else:
            self.exec_block(s.finalbody)

    def st_FunctionDef(self, s):
        fr = self.frames[-1]
        f = self.make_function(s, fr.module, fr.env + [fr.locals], None,
                               (fr.func.qualname + '.<locals>.' if fr.func else
                                (fr.module.name + '.' if getattr(fr.module, 'name', None) else '')) + s.name)
        f = self.apply_decorators(s, f)
        fr.locals[s.name] = f

    def st_ClassDef(self, s):
        fr = self.frames[-1]
        c = self.world.make_class(self, s, fr.module, s.name, fr.env + [fr.locals])
        fr.locals[s.name] = c

    def st_Import(self, s):
        fr = self.frames[-1]
        for a in s.names:
            m = self.world.import_module(self, a.name)
            if a.asname:
                fr.locals[a.asname] = m
            else:
                top = a.name.split('.')[0]
                fr.locals[top] = self.world.import_module(self, top)

    def st_ImportFrom(self, s):
        fr = self.frames[-1]
        base = self.world.resolve_relative(fr.module, s.module, s.level)
        m = self.world.import_module(self, base)
        for a in s.names:
            if a.name == '*':
                src = m.native if isinstance(m.native, dict) else m.globals
                for k, v in src.items():
                    if not k.startswith('_'):
                        fr.locals[k] = v
                continue
            fr.locals[a.asname or a.name] = self.world.import_from(self, m, base, a.name)

    def make_function(self, node, module, env, cls, qualname):
        f = FuncVal(node, module, env, cls, qualname)
        a = node.args
        f.defaults = [self.eval(d) for d in a.defaults]
        f.kw_defaults = {}
        for x, d in zip(a.kwonlyargs, a.kw_defaults):
            if d is not None:
                f.kw_defaults[x.arg] = self.eval(d)
        return f

    def apply_decorators(self, s, f):
        for d in reversed(s.decorator_list):
            dv = self.eval(d)
            f = self.call(dv, [f], {})
        return f

    # ----------------------------------------------------------- expressions
    def eval(self, e):
        m = getattr(self, 'ex_' + e.__class__.__name__, None)
        if m is None:
            raise Unsupported('expression %s' % e.__class__.__name__)
        return m(e)

    def ex_Constant(self, e):
        v = e.value
        if isinstance(v, bytes):
            return SBytes.concrete(v)
        if v is Ellipsis:
            raise Unsupported('Ellipsis')
        return v

    def load_name(self, name):
        fr = self.frames[-1]
        if name in fr.locals:
            v = fr.locals[name]
            if getattr(v, 'is_loop_temp', False):
                # a local the loop body assigns, carried into the next iteration, but not declared in the loop
                # contract's havoc: its value at the loop head is unknown - undecided, never a silent pass
                raise Unsupported(v.why)
            return v
        if name in fr.localnames and name not in fr.globalnames and fr.func is not None:
            self.throw('UnboundLocalError', "local variable %r referenced before assignment" % name)
        for d in reversed(fr.env):
            if name in d:
                return d[name]
        g = fr.module.globals
        if name in g:
            v = g[name]
            if isinstance(v, Missing):
                raise Unsupported('use of %s.%s: %s' % (fr.module.name, name, v.why))
            return v
        b = self.world.builtins
        if name in b:
            return b[name]
        self.throw('NameError', "name %r is not defined" % name)

    def ex_Name(self, e):
        return self.load_name(e.id)

    def ex_NamedExpr(self, e):
        v = self.eval(e.value)
        self.assign(e.target, v)
        return v

    def ex_Attribute(self, e):
        return self.getattr(self.eval(e.value), e.attr)

    def ex_Tuple(self, e):
        return STuple(self.eval_list(e.elts))

    def ex_List(self, e):
        return SList(self.eval_list(e.elts))

    def ex_Set(self, e):
        from . import natives
        return natives.make_set(self, self.eval_list(e.elts))

    def eval_list(self, elts):
        from . import natives
        out = []
        for x in elts:
            if isinstance(x, ast.Starred):
                out.extend(natives.iterate(self, self.eval(x.value)))
            else:
                out.append(self.eval(x))
        return out

    def ex_Dict(self, e):
        from . import natives
        d = SDict()
        for k, v in zip(e.keys, e.values):
            if k is None:
                other = self.eval(v)
                for kk, (ok, vv) in other.d.items():
                    d.d[kk] = (ok, vv)
            else:
                kv = self.eval(k)
                natives.dict_set(self, d, kv, self.eval(v))
        return d

    def ex_BoolOp(self, e):
        # short circuit; result is the deciding operand (Python semantics)
        is_and = isinstance(e.op, ast.And)
        v = None
        for i, x in enumerate(e.values):
            v = self.eval(x)
            if i == len(e.values) - 1:
                return v
            t = self.truth(v)
            if self.hooks.get('merge_boolops') and isinstance(t, SBool):
                # pure boolean context merge is done by contract evaluator only
                pass
            d = self.branch(t)
            if is_and and not d:
                return v
            if (not is_and) and d:
                return v
        return v

    def ex_UnaryOp(self, e):
        from . import natives
        v = self.eval(e.operand)
        if isinstance(e.op, ast.Not):
            t = self.truth(v)
            if isinstance(t, bool):
                return not t
            return mk_bool(z3.Not(t.t))
        if isinstance(e.op, ast.USub):
            if isinstance(v, (int, float)) and not isinstance(v, bool):
                return -v
            return mk_int(-zint(v))
        if isinstance(e.op, ast.UAdd):
            return v
        if isinstance(e.op, ast.Invert):
            if isinstance(v, int):
                return ~v
            return mk_int(-zint(v) - 1)
        raise Unsupported('unary op')

    def ex_BinOp(self, e):
        from . import natives
        l = self.eval(e.left)
        r = self.eval(e.right)
        return natives.binop(self, e.op, l, r)

    def ex_Compare(self, e):
        from . import natives
        l = self.eval(e.left)
        res = True
        for i, (op, rn) in enumerate(zip(e.ops, e.comparators)):
            r = self.eval(rn)
            c = natives.compare(self, op, l, r)
            if i == len(e.ops) - 1 and res is True:
                return c
            # chained: short circuit
            if not self.branch(self.truth(c)):
                return False
            l = r
        return True

    def ex_IfExp(self, e):
        if self.branch(self.truth(self.eval(e.test))):
            return self.eval(e.body)
        return self.eval(e.orelse)

    def ex_Lambda(self, e):
        fr = self.frames[-1]
        return self.make_function(e, fr.module, fr.env + [fr.locals], None,
                                  (fr.func.qualname if fr.func else '') + '.<lambda>')

    def ex_Call(self, e):
        from . import natives
        # super() without arguments
        if isinstance(e.func, ast.Name) and e.func.id == 'super' and not e.args:
            fr = self.frames[-1]
            if fr.func is None or fr.func.cls is None:
                raise Unsupported('zero-argument super() outside a method')
            first = fr.func.node.args.args[0].arg
            return SuperVal(fr.func.cls, fr.locals[first])
        f = self.eval(e.func)
        args = []
        for a in e.args:
            if isinstance(a, ast.Starred):
                sv = self.eval(a.value)
                if isinstance(sv, RangeVal) and sv.step == 1 and not (
                        isinstance(sv.start, int) and isinstance(sv.stop, int)) and self.has_vararg(f):
                    n = self.range_len(sv)
                    st = sv.start
                    l = SList([])
                    l.mid = SymSeg(n, lambda i, st=st: mk_int(zint(st) + i), 0,
                                   tag=self.fresh_name('star!range'))
                    args.append(SymVarArgs(l))
                elif isinstance(sv, SBytes) and sv.concrete_len() is None:
                    args.extend(self.expand_star_bytes(f, len(args), sv))
                else:
                    args.extend(natives.iterate(self, sv))
            else:
                args.append(self.eval(a))
        kwargs = {}
        for k in e.keywords:
            if k.arg is None:
                d = self.eval(k.value)
                if not isinstance(d, SDict):
                    raise Unsupported('** of non-dict')
                for kk, (ok, vv) in d.d.items():
                    kwargs[ok] = vv
            else:
                kwargs[k.arg] = self.eval(k.value)
        self.cur_call = e
        return self.call(f, args, kwargs)

    def has_vararg(self, f):
        if isinstance(f, BoundMethod):
            f = f.func
        return isinstance(f, FuncVal) and f.node.args.vararg is not None

    def callee_arity(self, f):
        """(min, max) number of positional arguments, None if unknown/unbounded"""
        bound = 0
        if isinstance(f, BoundMethod):
            f, bound = f.func, 1
        if isinstance(f, ClassVal) and not f.builtin:
            init, _ = f.lookup('__init__')
            if isinstance(init, FuncVal):
                f, bound = init, 1
        if not isinstance(f, FuncVal) or f.node.args.vararg is not None:
            return None
        n = len(f.node.args.posonlyargs) + len(f.node.args.args) - bound
        return (n - len(f.defaults), n)

    def expand_star_bytes(self, f, given, sv):
        """f(*b) with a symbolic-length byte string: fork on the lengths the
        callee accepts, any other length is the TypeError Python raises"""
        ar = self.callee_arity(f)
        if ar is None or ar[1] - given > 16:
            from . import natives
            return list(natives.iterate(self, sv))
        from .natives import zlen
        for c in range(max(ar[0] - given, 0), ar[1] - given + 1):
            if self.branch(mk_bool(zlen(sv) == c)):
                return [mk_int(sv.at(i)) for i in range(c)]
        self.throw('TypeError', 'wrong number of positional arguments')

    def eval_index(self, sl):
        if isinstance(sl, ast.Slice):
            lo = self.eval(sl.lower) if sl.lower is not None else None
            hi = self.eval(sl.upper) if sl.upper is not None else None
            st = self.eval(sl.step) if sl.step is not None else None
            return slice(lo, hi, st)
        if isinstance(sl, ast.Tuple):
            return STuple(self.eval_list(sl.elts))
        return self.eval(sl)

    def ex_Subscript(self, e):
        from . import natives
        obj = self.eval(e.value)
        idx = self.eval_index(e.slice)
        return natives.getitem(self, obj, idx)

    def ex_Slice(self, e):
        return self.eval_index(e)

    def ex_Starred(self, e):
        raise Unsupported('starred expression')

    def ex_JoinedStr(self, e):
        parts = []
        for v in e.values:
            if isinstance(v, ast.Constant):
                parts.append(v.value)
            else:
                x = self.eval(v.value)
                if isinstance(x, str) and v.format_spec is None and v.conversion == -1:
                    parts.append(x)
                else:
                    return OPAQUE
        return ''.join(parts)

    def comprehension(self, e, elt_fn):
        from . import natives
        fr = self.frames[-1]
        # comprehension has its own scope for the loop variables
        loc = {}
        cfr = Frame(fr.func, fr.module, loc, set(), fr.env + [fr.locals])
        cfr.globalnames = fr.globalnames
        cfr.localnames = set()
        # make enclosing locals visible: lookups fall through env
        out = []

        def rec(i):
            if i == len(e.generators):
                out.append(elt_fn())
                return
            g = e.generators[i]
            if i == 0:
                self.frames.pop()
                try:
                    it = self.eval(g.iter)
                finally:
                    self.frames.append(cfr)
            else:
                it = self.eval(g.iter)
            for x in natives.iterate(self, it, where=e):
                self.assign(g.target, x)
                ok = True
                for c in g.ifs:
                    if not self.branch(self.truth(self.eval(c))):
                        ok = False
                        break
                if ok:
                    rec(i + 1)
        self.frames.append(cfr)
        try:
            rec(0)
        finally:
            self.frames.pop()
        return out

    def map_comprehension(self, e):
        """[f(x) for x in L] with L holding a symbolic segment: element-wise map
        (assumes the element expression is pure and total)."""
        from . import natives
        if len(e.generators) != 1 or e.generators[0].ifs:
            return None
        g = e.generators[0]
        it = self.eval(g.iter)
        if not (isinstance(it, SList) and it.mid is not None):
            return ('plain', it)
        fr = self.frames[-1]
        src = ast.unparse(e.elt) + ' for ' + ast.unparse(g.target)
        self.notes.append('element-wise map over a symbolic list assumes a pure, total element expression: [%s]' % src)

        def f(x):
            cfr = Frame(fr.func, fr.module, {}, set(), fr.env + [fr.locals])
            cfr.globalnames = fr.globalnames
            self.frames.append(cfr)
            try:
                self.assign(g.target, x)
                return self.eval(e.elt)
            finally:
                self.frames.pop()
        out = SList([f(x) for x in it.left], 'list')
        mid = it.mid
        out.mid = SymSeg(mid.length, lambda i: f(mid.elem(i)), mid.start, tag='%s|%s' % (mid.tag, src))
        out.mid.fmap = f
        out.mid.src = mid
        out.right = [f(x) for x in it.right]
        return ('mapped', out)

    def ex_ListComp(self, e):
        r = self.map_comprehension(e)
        if r is not None and r[0] == 'mapped':
            return r[1]
        return SList(self.comprehension(e, lambda: self.eval(e.elt)))

    def ex_GeneratorExp(self, e):
        return SList(self.comprehension(e, lambda: self.eval(e.elt)))

    def ex_SetComp(self, e):
        from . import natives
        return natives.make_set(self, self.comprehension(e, lambda: self.eval(e.elt)))

    def ex_DictComp(self, e):
        from . import natives
        pairs = self.comprehension(e, lambda: (self.eval(e.key), self.eval(e.value)))
        d = SDict()
        for k, v in pairs:
            natives.dict_set(self, d, k, v)
        return d

    # ------------------------------------------------------------ attributes
    def getattr(self, obj, name):
        from . import natives
        return natives.getattr_(self, obj, name)

    def setattr(self, obj, name, v):
        from . import natives
        return natives.setattr_(self, obj, name, v)
