"""Driver: ./check <Cxx> [--tier quick|thorough] [--replay FILE] [--only SUBSTR]

Exit codes: 0 held; 1 violation (VIOLATION line printed); 2 undecided;
3 checker error / failed self-check.
"""
import argparse
import glob
import hashlib
import importlib
import json
import multiprocessing
import os
import subprocess
import sys
import time
import traceback

HERE = os.path.dirname(os.path.dirname(os.path.abspath(__file__)))
REPO = os.environ.get('VERIF_REPO', '/repo')
NATIVE_PY = os.environ.get('VERIF_NATIVE_PY', '/venv/bin/python')

_CONTRACTS = []
_BYNAME = {}
_ASSUMED = []


def load_contracts():
    sys.path.insert(0, HERE)
    from pyvc import contracts as C
    for f in sorted(glob.glob(os.path.join(HERE, 'contracts', 'c*.py'))):
        importlib.import_module('contracts.' + os.path.basename(f)[:-3])
    return list(C.REGISTRY)


def _work(i):
    from pyvc.contracts import verify
    from contracts.common import world_factory
    c = _CONTRACTS[i]
    try:
        r = verify(world_factory, c, _BYNAME)
    except BaseException:   # noqa
        from pyvc.contracts import Result
        r = Result(c)
        r.undecided.append('checker error: ' + traceback.format_exc()[-1500:])
    return i, r


def obligation_key(name):
    return name


def native_replay(cases, timeout=600):
    """run cases through the native harness -> list of observations"""
    if not cases:
        return []
    env = dict(os.environ)
    env['VERIF_REPO'] = REPO
    env.pop('PYTHONPATH', None)
    p = subprocess.run([NATIVE_PY, os.path.join(HERE, 'harness', 'replay_main.py')],
                       input=json.dumps(cases).encode(), stdout=subprocess.PIPE, stderr=subprocess.PIPE,
                       env=env, timeout=timeout)
    if p.returncode != 0:
        raise RuntimeError('replay harness failed: ' + p.stderr.decode()[-2000:])
    return json.loads(p.stdout.decode())


def case_for(c, model, cid, witness=()):
    return {
        'id': cid, 'target': c.target, 'call': c.call, 'kwargs': list(c.kwargs),
        'params': (model or {}).get('params', {}), 'nondet': (model or {}).get('nondet', []),
        'clauses_return': [[n, s] for n, s in c.ensures],
        'clauses_raise': {k: [['%s#%d' % (k, i), s] for i, s in enumerate(v)] for k, v in c.raises.items()},
        'allowed_raises': list(c.raises),
        'reads': [[p, rd[0], rd[1], rd[2] if len(rd) > 2 else None] for p, rd in c.reads.items()],
        'witness': list(witness),
        'stubs': [_BYNAME[u].target for u in c.use if u in _BYNAME],
        'stub_names': {_BYNAME[u].target: u for u in c.use if u in _BYNAME},
    }


def confirm(c, short, obs):
    """Did the native run exhibit the failure of obligation `short` (name without contract prefix)?"""
    if obs is None or 'error' in obs:
        return False, 'native rebuild/run error: %s' % (obs or {}).get('error', '?')[-300:]
    if obs.get('hang'):
        return False, 'the native call blocks (a wait() without timeout is reached); blocking is not modelled'
    if obs.get('script_exhausted'):
        return False, 'the path starts from a havocked loop state: the oracle script does not replay from function entry'
    if short == 'raises':
        if obs['outcome'] == 'raise' and not obs.get('exc_allowed'):
            return True, '%s escapes at %s: %s' % (obs['exc_class'], obs.get('exc_where'), obs.get('exc_msg'))
        return False, 'native outcome: %s %s' % (obs['outcome'], obs.get('exc_class', ''))
    if short.startswith('raises:'):
        k = short[len('raises:'):]
        if obs['outcome'] == 'raise' and obs['clauses'].get(k) is False:
            return True, 'clause false natively'
        return False, 'native: %s' % obs.get('clauses')
    if short.startswith('reads:'):
        p = short[len('reads:'):]
        d = obs.get('reads_differs', {}).get(p)
        if d is True:
            return True, 'outcome depends on bytes outside the declared range: %s vs %s' % (
                obs.get('result') if obs['outcome'] == 'return' else obs.get('exc_class'),
                obs.get('reads_other', {}).get(p))
        return False, 'perturbing bytes outside the range did not change the outcome'
    if obs['outcome'] == 'return' and short in obs['clauses']:
        if obs['clauses'][short] is False:
            return True, 'clause false natively; result=%s' % json.dumps(obs.get('result'))[:300]
        return False, 'clause evaluates to %r natively' % (obs['clauses'][short],)
    # loop / call-site obligations: confirmed only through a visible symptom
    if obs['outcome'] == 'raise' and not obs.get('exc_allowed'):
        return True, 'symptom: %s escapes at %s' % (obs['exc_class'], obs.get('exc_where'))
    if obs['outcome'] == 'return' and any(v is False for v in obs['clauses'].values()):
        bad = [k for k, v in obs['clauses'].items() if v is False]
        return True, 'symptom: postcondition(s) %s false natively' % bad
    return False, 'no natively visible symptom (outcome %s)' % obs['outcome']


def main(argv=None):
    ap = argparse.ArgumentParser()
    ap.add_argument('prop')
    ap.add_argument('--tier', default=os.environ.get('VERIF_TIER', 'quick'))
    ap.add_argument('--replay')
    ap.add_argument('--only')
    ap.add_argument('--jobs', type=int, default=int(os.environ.get('VERIF_JOBS', '16')))
    ap.add_argument('--verbose', '-v', action='store_true')
    ap.add_argument('--no-evidence', action='store_true')
    a = ap.parse_args(argv)
    seed = int(os.environ.get('VERIF_SEED', '0') or 0)
    t0 = time.time()
    global _CONTRACTS, _BYNAME
    allc = load_contracts()
    _BYNAME = {c.name: c for c in allc}
    if a.replay:
        return do_replay(a, allc)
    mine = [c for c in allc if c.prop == a.prop and not c.assumed]
    global _ASSUMED
    _ASSUMED = ['assumed contract (not verified here): %s on %s - %s' % (c.name, c.target, c.note or '')
                for c in allc if c.prop == a.prop and c.assumed]
    if a.tier != 'thorough':
        mine = [c for c in mine if not getattr(c, 'thorough_only', False)]
    if a.only:
        mine = [c for c in mine if a.only in c.name]
    if not mine:
        print('no contracts registered for %s' % a.prop)
        return 3
    if a.tier == 'thorough':
        os.environ['PYVC_RECHECK'] = '1'
    for c in mine:
        if 'eval_log_args' not in c.hooks:
            c.hooks = dict(c.hooks, eval_log_args=a.prop not in LOG_ARGS_OFF)
    _CONTRACTS = mine
    ctx = multiprocessing.get_context('fork')
    results = [None] * len(mine)
    with ctx.Pool(min(a.jobs, len(mine))) as pool:
        for i, r in pool.imap_unordered(_work, range(len(mine))):
            results[i] = r
    return report(a, seed, mine, results, t0)


def second_solver(results):
    """thorough tier: discharged queries re-decided by independent solver builds (capped per contract)"""
    tot = {'queries': 0, 'skipped_over_cap': 0, 'tools': {}, 'disagreements': []}
    for r in results:
        st = getattr(r, 'recheck', None)
        if not st:
            continue
        tot['queries'] += st['queries']
        tot['skipped_over_cap'] += st['skipped']
        tot['disagreements'] += st['disagree']
        for t, e in st['tools'].items():
            x = tot['tools'].setdefault(t, {'unsat': 0, 'sat': 0, 'inconclusive': 0, 'time_s': 0.0})
            for k in x:
                x[k] = round(x[k] + e[k], 3)
    return tot


def load_known():
    p = os.path.join(HERE, 'known_findings.json')
    if os.path.exists(p):
        return json.load(open(p))
    return []


def report(a, seed, mine, results, t0):
    prop = a.prop
    known = [k for k in load_known() if k['property'] == prop and k.get('status', 'known') == 'known']
    os.makedirs(os.path.join(HERE, 'evidence', 'replay'), exist_ok=True)
    undecided = []
    checker_errors = []
    # group obligations by name
    ob = {}          # name -> dict(status counts, instances)
    failing = []     # (contract, obligation dict)
    for c, r in zip(mine, results):
        for u in (r.undecided if not c.expect_fail else []):
            (checker_errors if u.startswith('checker error') else undecided).append('%s: %s' % (c.name, u))
        for o in r.obligations:
            e = ob.setdefault(o['name'], {'contract': c.name, 'n': 0, 'discharged': 0, 'failed': 0,
                                          'unknown': 0, 'time_s': 0.0, 'detail': o['detail'],
                                          'sentinel': c.expect_fail, 'bounded': c.bounded})
            e['n'] += 1
            e[o['status']] += 1
            e['time_s'] += o['time_s']
            if o['status'] == 'failed' and not c.expect_fail:
                failing.append((c, o))
            if o['status'] == 'unknown' and not c.expect_fail:
                undecided.append('%s: solver returned unknown for %s' % (c.name, o['name']))
    # sentinels: contracts that must fail
    sentinel_ok = True
    sentinels = []
    for c, r in zip(mine, results):
        if c.expect_fail:
            failed = any(o['status'] == 'failed' for o in r.obligations)
            sentinels.append({'contract': c.name, 'failed_as_expected': failed})
            if not failed:
                sentinel_ok = False
                checker_errors.append('sentinel %s did not fail' % c.name)
    # vacuity: every non-sentinel contract must have explored >= 1 feasible path and produced obligations
    for c, r in zip(mine, results):
        if not r.obligations and not r.undecided:
            checker_errors.append('%s: zero obligations generated (vacuous)' % c.name)
    # native replay of failing instances (capped per obligation)
    cases = []
    per_ob = {}
    for idx, (c, o) in enumerate(failing):
        k = o['name']
        per_ob[k] = per_ob.get(k, 0) + 1
        if per_ob[k] > 60 or (o['model'] or {}).get('skipped') or not c.native:
            continue
        wit = [kf['witness'] for kf in known if kf['obligation'] == k]
        cs = case_for(c, o['model'], idx, wit)
        cases.append(cs)
    obs_by_id = {}
    try:
        for ob_ in native_replay(cases):
            obs_by_id[ob_['id']] = ob_
    except Exception as e:
        checker_errors.append('native replay failed: %s' % e)
    # cross-check: sample models of explored paths must behave natively as predicted
    xc_cases = []
    xc_expect = []
    for c, r in zip(mine, results):
        if c.expect_fail or not c.native:
            continue
        lim = 3 if a.tier == 'quick' else 12
        for s in [x for x in r.samples if not x.get('havocked')][:lim]:
            xc_cases.append(case_for(c, s, len(xc_cases)))
            xc_expect.append((c, s.get('outcome')))
    xc = {'inputs': len(xc_cases), 'agree': 0, 'disagree': []}
    try:
        for ob_, (c, exp) in zip(native_replay(xc_cases), xc_expect):
            if 'error' in ob_:
                if 'cannot rebuild' in ob_['error']:
                    # the sample holds a value the recipe cannot express (a havocked queue element): no input
                    xc['not_rebuildable'] = xc.get('not_rebuildable', 0) + 1
                    xc['inputs'] -= 1
                    continue
                xc['disagree'].append({'contract': c.name, 'error': ob_['error'][-300:]})
                continue
            if ob_.get('hang'):
                xc['blocked'] = xc.get('blocked', 0) + 1
                xc['inputs'] -= 1
                continue
            got = 'return' if ob_['outcome'] == 'return' else ob_['exc_class']
            okc = (exp == 'return' and got == 'return') or \
                  (exp != 'return' and got != 'return' and got.split('.')[-1] == str(exp).split('.')[-1])
            if okc:
                xc['agree'] += 1
            else:
                xc['disagree'].append({'contract': c.name, 'symbolic': exp, 'native': got,
                                       'where': ob_.get('exc_where'), 'msg': ob_.get('exc_msg')})
    except Exception as e:
        checker_errors.append('cross-check replay failed: %s' % e)
    # bounded re-execution: failures on paths that start from a havocked loop
    # state do not replay from function entry; search a reachable failing input
    # by running the same contract with its loops unrolled (<= 3 iterations)
    import copy as _copy
    unconf = {}
    for idx, (c, o) in enumerate(failing):
        name = o['name']
        short = name[len(c.name) + 1:] if name.startswith(c.name + '/') else name.split('/')[-1]
        obs = obs_by_id.get(idx)
        if obs is not None and confirm(c, short, obs)[0]:
            continue
        if c.loops:
            unconf.setdefault(c.name, (c, set()))[1].add(short)
    confirmed_by_name = set()
    for o_c, (c, o) in enumerate(failing):
        obs = obs_by_id.get(o_c)
        short = o['name'][len(c.name) + 1:] if o['name'].startswith(c.name + '/') else o['name'].split('/')[-1]
        if obs is not None and confirm(c, short, obs)[0]:
            confirmed_by_name.add(o['name'])
    bounded_models = {}
    todo = [(cn, v) for cn, v in unconf.items()
            if any((cn + '/' + sh) not in confirmed_by_name for sh in v[1])][:8]
    if todo:
        global _CONTRACTS
        bl = []
        for cn, (c, shorts) in todo:
            c2 = _copy.copy(c)
            c2.loops = {}
            c2.max_unroll = 3
            c2.budget_s = 90
            bl.append(c2)
        _CONTRACTS = bl
        ctx = multiprocessing.get_context('fork')
        try:
            with ctx.Pool(min(a.jobs, len(bl))) as pool:
                bres = dict(pool.imap_unordered(_work, range(len(bl))))
        except Exception as e:
            bres = {}
            checker_errors.append('bounded re-execution failed: %s' % e)
        bcases = []
        bmeta = []
        for i, c2 in enumerate(bl):
            r2 = bres.get(i)
            if r2 is None:
                continue
            seen_n = {}
            for o2 in r2.obligations:
                if o2['status'] != 'failed' or not o2['model'] or o2['model'].get('skipped'):
                    continue
                seen_n[o2['name']] = seen_n.get(o2['name'], 0) + 1
                if seen_n[o2['name']] > 4:
                    continue
                wit = [kf['witness'] for kf in known if kf['obligation'] == o2['name']]
                bcases.append(case_for(c2, o2['model'], len(bcases), wit))
                bmeta.append((c2, o2))
        try:
            for ob_, (c2, o2) in zip(native_replay(bcases), bmeta):
                sh2 = o2['name'][len(c2.name) + 1:] if o2['name'].startswith(c2.name + '/') else o2['name']
                ok2, why2 = confirm(c2, sh2, ob_)
                if ok2:
                    bounded_models.setdefault(c2.name, []).append((o2, ob_, why2))
        except Exception as e:
            checker_errors.append('bounded replay failed: %s' % e)
    violations = []
    known_hits = {}
    lines = []
    reported = set()
    for idx, (c, o) in enumerate(failing):
        name = o['name']
        short = name[len(c.name) + 1:] if name.startswith(c.name + '/') else name.split('/')[-1]
        obs = obs_by_id.get(idx)
        if obs is None and c.native and (per_ob.get(name, 0) > 60 or (o['model'] or {}).get('skipped')):
            continue
        okc, why = confirm(c, short, obs)
        if not c.native:
            okc, why = False, 'not natively replayable (idealised functions stand for real cryptography)'
        if not okc and c.name in bounded_models:
            # same obligation first, any confirmed failure of the contract as a symptom otherwise
            cands = [x for x in bounded_models[c.name] if x[0]['name'] == name] or bounded_models[c.name]
            o2, obs2, why2 = cands[0]
            okc, why = True, 'reachable input found by bounded re-execution (loops unrolled <= 3): ' + why2
            obs = obs2
            o = dict(o)
            o['model'] = o2['model']
        matched = None
        if okc and obs is not None:
            kfs = [kf for kf in known if kf['obligation'] == name]
            for kf, w in zip(kfs, obs.get('witness', [])):
                if w is True:
                    matched = kf
                    break
        if matched is not None:
            known_hits.setdefault(matched['what'], 0)
            known_hits[matched['what']] += 1
            continue
        key = (name, okc)
        h = hashlib.sha1((name + json.dumps(o['model'], sort_keys=True, default=str)).encode()).hexdigest()[:10]
        path = os.path.join(HERE, 'evidence', 'replay', '%s-%s.json' % (prop, h))
        rec = {'property': prop, 'obligation': name, 'contract': c.name, 'function': c.target,
               'clause': o['detail'], 'tier': a.tier, 'seed': seed, 'raised_at': o.get('where'),
               'solver': {'name': 'z3 5.1 (python API)', 'result': 'sat', 'time_s': o['time_s']},
               'inputs': o['model'], 'observed': obs, 'confirmed': okc, 'why': why,
               'note': None if okc else 'no-failing-input-found',
               'case': case_for(c, o['model'], 0)}
        json.dump(rec, open(path, 'w'), indent=1, default=str)
        violations.append(rec)
        if key not in reported:
            reported.add(key)
            lines.append('VIOLATION property=%s replay=%s obligation=%s %s%s' % (
                prop, os.path.relpath(path, HERE), name, ('(' + why[:160] + ')') if okc else '',
                '' if okc else ' no-failing-input-found'))
    # native bounded stand-ins (labelled bounded, never counted): real code under CPython, see harness/
    nb_table = []
    if prop in NATIVE_BOUNDED and not a.only:
        try:
            nb_table = native_bounded(prop, a, known, known_hits, lines, seed)
        except Exception as e:
            checker_errors.append('native bounded harness failed: %s' % e)
    for what, n in known_hits.items():
        print('KNOWN-FINDING: property=%s %s (%d failing path instance(s), all replayed and matched)'
              % (prop, what, n))
    for l in lines:
        print(l)
    if xc['disagree']:
        checker_errors.append('CPython cross-check disagreement: %s' % json.dumps(xc['disagree'])[:600])
    # evidence
    named = {k: v for k, v in ob.items() if not v['sentinel'] and not v['bounded']}
    bounded = {k: v for k, v in ob.items() if v['bounded'] and not v['sentinel']}
    known_names = set(kf['obligation'] for kf in known)
    counted = {k: v for k, v in named.items() if k not in known_names}
    n_ob = len(counted)
    n_dis = sum(1 for v in counted.values() if v['discharged'] == v['n'])
    wall = time.time() - t0
    ev = {
        'property_id': prop, 'tier': a.tier, 'seed': seed, 'level': LEVEL.get(prop, 'proof'),
        'coverage': {
            'obligations': n_ob, 'discharged': n_dis,
            'explanation': 'contract-based deductive verification: %d named obligations generated from the current '
                           'source and discharged by z3 (see obligation_table); what is not decided is stated in '
                           'MANIFEST level_note and DESIGN.md section 6' % n_ob,
            'checker_cmd': './check %s --tier %s' % (prop, a.tier),
            'trusted_base': TRUSTED,
            'path_level_vcs': sum(v['n'] for v in ob.values()),
            'functions_under_contract': [
                {'contract': c.name, 'target': c.target, 'paths': r.paths, 'normal_paths': r.normal_paths,
                 'raise_paths': r.raise_paths, 'obligation_instances': len(r.obligations),
                 'solver_calls': r.solver_calls, 'solver_time_s': round(r.solver_time, 3),
                 'wall_s': round(r.wall, 3), 'bounded': c.bounded, 'sentinel': c.expect_fail,
                 'log_calls_with_arguments_evaluated': getattr(r, 'log_args', {}).get('evaluated', 0),
                 'log_calls_with_arguments_skipped': getattr(r, 'log_args', {}).get('skipped', 0),
                 'queries_retried_with_larger_budget': getattr(r, 'retries', 0),
                 'notes': r.notes[:8], 'undecided': r.undecided[:4]}
                for c, r in zip(mine, results)],
            'obligation_table': [
                {'name': k, 'instances': v['n'], 'discharged': v['discharged'], 'failed': v['failed'],
                 'unknown': v['unknown'], 'solver_time_s': round(v['time_s'], 3), 'backend': 'z3-5.1.0',
                 'clause': v['detail'], 'known_finding': k in known_names}
                for k, v in sorted(named.items())],
            'bounded_checks': [
                {'name': k, 'bound': v['bounded'], 'instances': v['n'], 'discharged': v['discharged'],
                 'failed': v['failed']} for k, v in sorted(bounded.items())] + nb_table,
            'sentinels': sentinels,
            'known_findings': [{'what': w, 'instances': n} for w, n in known_hits.items()],
            'cross_check': xc,
            'second_solver': second_solver(results),
            'sources': sorted(set((p, h) for r in results for (p, h) in r.sources.values())),
            'samples': [{'obligation': k, 'clause': v['detail']} for k, v in list(sorted(named.items()))[:6]],
            'solver_time_s': round(sum(r.solver_time for r in results), 3),
            'undecided': undecided[:20],
        },
        'assumptions': [LOG_ASSUMPTION[a.prop not in LOG_ARGS_OFF]] + ASSUMPTIONS + _ASSUMED + sorted(set(n for r in results for n in r.notes))[:40],
        'wall_s': round(wall, 2),
        'violations': len(lines),
    }
    if not a.no_evidence and not a.only:
        os.makedirs(os.path.join(HERE, 'evidence'), exist_ok=True)
        json.dump(ev, open(os.path.join(HERE, 'evidence', '%s.json' % prop), 'w'), indent=1, default=str)
    print('%s: %d named obligations, %d discharged, %d path-level VCs, %d contracts, %d known-finding obligations, '
          '%d bounded; cross-check %d/%d; wall %.1fs' % (
              prop, n_ob, n_dis, ev['coverage']['path_level_vcs'], len(mine), len(known_names & set(named)),
              len(bounded) + len(nb_table), xc['agree'], xc['inputs'], wall))
    ss = ev['coverage']['second_solver']
    if ss['queries']:
        print('%s: second solvers re-decided %d discharged queries (%d over the per-contract cap skipped): %s' % (
            prop, ss['queries'], ss['skipped_over_cap'],
            '; '.join('%s unsat %d, sat %d, inconclusive %d, %.0fs' % (t, e['unsat'], e['sat'], e['inconclusive'],
                                                                      e['time_s']) for t, e in sorted(ss['tools'].items()))))
    if a.verbose:
        for k, v in sorted(ob.items()):
            if v['discharged'] != v['n']:
                print('   open: %s %s' % (k, {x: v[x] for x in ('n', 'discharged', 'failed', 'unknown')}))
    for u in undecided[:30]:
        print('UNDECIDED: %s' % u)
    for e in checker_errors[:30]:
        print('CHECKER-ERROR: %s' % e)
    if lines:
        return 1
    if checker_errors:
        return 3
    if undecided:
        return 2
    return 0


NATIVE_BOUNDED = {'C01': 'harness/bounded_tags.py', 'C02': 'harness/bounded_tags.py',
                  'C03': 'harness/bounded_tags.py', 'C08': 'harness/bounded_cards.py'}


def native_bounded(prop, a, known, known_hits, lines, seed):
    """runs the bounded stand-in harness under /venv/bin/python on the real code; failures are violations with the
    concrete failing case as replay input, unless a known finding's witness (an expression over the case) matches"""
    import subprocess
    script = os.path.join(HERE, NATIVE_BOUNDED[prop])
    out = subprocess.run(['/venv/bin/python', script, prop, '--tier', a.tier, '--jobs', str(a.jobs)],
                         capture_output=True, text=True, timeout=3000)
    if out.returncode != 0:
        raise RuntimeError('exit %d: %s' % (out.returncode, out.stderr[-400:]))
    d = json.loads(out.stdout)
    table = []
    if not d['obligations']:
        raise RuntimeError('no bounded obligations evaluated')
    for nm, e in sorted(d['obligations'].items()):
        table.append({'name': nm, 'bound': d['bound'], 'instances': e['n'], 'discharged': e['n'] - e['failed'],
                      'failed': e['failed'], 'engine': 'CPython run of the real code against a simulated tag memory'})
        for f in e['fails']:
            matched = None
            for kf in known:
                if kf['obligation'] == nm:
                    try:
                        if eval(kf['witness'], {}, dict(f['case'])):
                            matched = kf
                    except Exception:
                        pass
            if matched is not None:
                known_hits[matched['what']] = known_hits.get(matched['what'], 0) + 1
                continue
            h = hashlib.sha1((nm + json.dumps(f['case'], sort_keys=True)).encode()).hexdigest()[:10]
            path = os.path.join(HERE, 'evidence', 'replay', '%s-%s.json' % (prop, h))
            json.dump({'property': prop, 'obligation': nm, 'kind': 'native-bounded', 'script': NATIVE_BOUNDED[prop],
                       'case': f['case'], 'observed': f['detail'], 'confirmed': True, 'tier': a.tier, 'seed': seed},
                      open(path, 'w'), indent=1)
            ln = 'VIOLATION property=%s replay=%s obligation=%s (bounded stand-in, real code under CPython: %s)' % (
                prop, os.path.relpath(path, HERE), nm, f['detail'][:160])
            if not any(nm in x for x in lines):
                lines.append(ln)
    return table


def do_replay(a, allc):
    rec = json.load(open(a.replay if os.path.isabs(a.replay) else os.path.join(HERE, a.replay)))
    if rec.get('kind') == 'native-bounded':
        import subprocess
        out = subprocess.run(['/venv/bin/python', os.path.join(HERE, rec['script']), '--case',
                              json.dumps(rec['case'])], capture_output=True, text=True, timeout=600)
        res = json.loads(out.stdout) if out.returncode == 0 else []
        bad = [r for r in res if r['obligation'] == rec['obligation'] and not r['ok']]
        print(json.dumps({'obligation': rec['obligation'], 'case': rec['case'], 'observed': res,
                          'reproduced': bool(bad)}, indent=1))
        return 1 if bad else 0
    obs = native_replay([rec['case']])[0]
    c = _BYNAME.get(rec['contract'])
    name = rec['obligation']
    short = name[len(rec['contract']) + 1:] if name.startswith(rec['contract'] + '/') else name.split('/')[-1]
    okc, why = confirm(c, short, obs) if c is not None else (False, 'contract no longer registered')
    print(json.dumps({'obligation': name, 'clause': rec.get('clause'), 'inputs': rec.get('inputs'),
                      'observed': obs, 'reproduced': okc, 'why': why}, indent=1, default=str))
    return 1 if okc else 0


LEVEL = {'C09': 'other'}
TRUSTED = [
    'pyvc symbolic executor (encoding of Python semantics, DESIGN.md 2.2)',
    'z3 5.1.0', 'CPython ast module',
    'spec functions in /verif/specs as the independent reading of the external standards',
    'environment models in /verif/models (assumed contracts on dependencies)',
]
LOG_ARGS_OFF = {'C13', 'C14'}
LOG_ASSUMPTION = {
    True: 'logging calls (log.*, self.log.*) are dropped; their argument expressions are evaluated first wherever the '
          'executor can evaluate them (an exception raised there leaves the function), str(obj)/__str__ of instances '
          'inside them is not run unless a contract asks for it, and what cannot be evaluated is assumed not to raise',
    False: 'logging calls (log.*, self.log.*) are side-effect free and do not raise; their arguments are not evaluated '
           '(the host-link functions index tables by the symbolic command code inside log arguments, which multiplies '
           'the paths beyond the budget)',
}
ASSUMPTIONS = [
    'Python ints are mathematical integers (exact); floats in timeouts are treated as reals',
    'threads are not executed: each function runs sequentially; locks/conditions are ghost state',
]


if __name__ == '__main__':
    sys.exit(main())
