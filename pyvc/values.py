"""Symbolic value domain of pyvc.

Concrete Python ints/bools/None/str/float stand for themselves.  Everything
that can carry solver terms is one of the classes below.
"""
import z3


class Unsupported(Exception):
    """The construct is outside the encoded semantics: the path is undecided."""


class PathEnd(Exception):
    """Current path ends here (infeasible, loop body done, assumed false)."""


class SInt(object):
    __slots__ = ('t',)

    def __init__(self, t):
        self.t = t

    def __repr__(self):
        return 'SInt(%s)' % self.t


class SBool(object):
    __slots__ = ('t',)

    def __init__(self, t):
        self.t = t

    def __repr__(self):
        return 'SBool(%s)' % self.t


def mk_int(t):
    """Wrap a z3 arithmetic term, folding numerals to Python numbers."""
    if isinstance(t, (int, float)):
        return t
    t = z3.simplify(t)
    if z3.is_int_value(t):
        return t.as_long()
    if z3.is_bv_value(t):
        return t.as_long()
    if z3.is_rational_value(t):
        return float(t.numerator_as_long()) / float(t.denominator_as_long())
    return SInt(t)


def mk_bool(t):
    if isinstance(t, bool):
        return t
    t = z3.simplify(t)
    if z3.is_true(t):
        return True
    if z3.is_false(t):
        return False
    return SBool(t)


def zint(v):
    """z3 term of a numeric value."""
    if isinstance(v, SInt):
        return v.t
    if isinstance(v, SBool):
        return z3.If(v.t, z3.IntVal(1), z3.IntVal(0))
    if isinstance(v, bool):
        return z3.IntVal(1 if v else 0)
    if isinstance(v, int):
        return z3.IntVal(v)
    if isinstance(v, float):
        return z3.RealVal(repr(v))
    raise Unsupported('not a number: %r' % (v,))


def zbool(v):
    if isinstance(v, SBool):
        return v.t
    if isinstance(v, bool):
        return z3.BoolVal(v)
    raise Unsupported('not a bool: %r' % (v,))


def is_num(v):
    return isinstance(v, (int, float, SInt, SBool))


def is_symbolic(v):
    return isinstance(v, (SInt, SBool))


def is_bv(v):
    """machine-integer mode: an SInt whose term is a bit-vector"""
    return isinstance(v, SInt) and isinstance(v.t, z3.BitVecRef)


def bv_of(v, width):
    if isinstance(v, SInt):
        if isinstance(v.t, z3.BitVecRef):
            return v.t
        return z3.Int2BV(v.t, width)
    if isinstance(v, SBool):
        return z3.If(v.t, z3.BitVecVal(1, width), z3.BitVecVal(0, width))
    return z3.BitVecVal(int(v), width)


class SStr(object):
    """A string with symbolic decimal holes (struct formats) or opaque text.

    parts: list of str | SInt.  opaque=True means the text is unknown (results
    of str.format etc.); such strings may only flow into exception messages.
    """
    def __init__(self, parts=None, opaque=False):
        self.parts = parts or []
        self.opaque = opaque

    def __repr__(self):
        return 'SStr(%r%s)' % (self.parts, ', opaque' if self.opaque else '')


OPAQUE = SStr(opaque=True)


class SBytes(object):
    """bytes / bytearray / memoryview: (length, index function).

    length: int | z3 Int term.  at(i): i is an int or z3 Int term, result is
    an int or z3 Int term in 0..255.  `mutable` distinguishes bytearray
    (reference semantics; mutation replaces length/at in place).
    """
    def __init__(self, length, at, mutable=False, conc=None, base=None):
        self.length = length
        self._at = at
        self.mutable = mutable
        self.conc = conc        # tuple of ints when fully concrete
        self.watch = None       # callable(lo, hi) for reads-clauses
        self.pending = None     # deferred read of the parent range (slices)
        self.origin = None      # (z3 function, offset): contiguous view of an input byte string
        self.parts = None       # list of SBytes when built by concatenation
        self.base = base        # name of the uninterpreted function (inputs)

    @staticmethod
    def concrete(b, mutable=False):
        t = tuple(b)
        return SBytes(len(t), None, mutable, conc=t)

    def commit(self):
        """the content of this slice is inspected: report the read"""
        if self.pending is not None:
            f, self.pending = self.pending, None
            f()

    def at(self, i):
        if self.pending is not None:
            self.commit()
        if self.conc is not None:
            if isinstance(i, int):
                return self.conc[i]
            i = z3.simplify(i)
            if z3.is_int_value(i):
                return self.conc[i.as_long()]
            r = z3.IntVal(0)
            for k in range(len(self.conc) - 1, -1, -1):
                r = z3.If(i == k, z3.IntVal(self.conc[k]), r)
            return r
        return self._at(i)

    def is_concrete(self):
        return self.conc is not None

    def concrete_len(self):
        return self.length if isinstance(self.length, int) else None

    def tobytes(self):
        return bytes(self.conc)

    def __repr__(self):
        if self.conc is not None:
            return 'SBytes(%r%s)' % (bytes(self.conc), ',mut' if self.mutable else '')
        return 'SBytes(len=%s%s)' % (self.length, ',mut' if self.mutable else '')


class SList(object):
    """list / deque with a concrete left part, an optional symbolic middle
    segment (start, length, elem function) and a concrete right part."""
    def __init__(self, items=None, kind='list', mid=None):
        self.left = list(items) if items is not None else []
        self.mid = mid           # None | SymSeg
        self.right = []
        self.kind = kind         # 'list' | 'deque'

    @property
    def items(self):
        if self.mid is not None:
            raise Unsupported('concrete view of a list with symbolic segment')
        if self.right:
            self.left.extend(self.right)
            self.right = []
        return self.left

    def __repr__(self):
        return 'SList(%r,%r,%r)' % (self.left, self.mid, self.right)


class SymSeg(object):
    """Symbolic segment of a list: elements elem(start+k) for 0 <= k < length."""
    def __init__(self, length, elem, start=0, tag=None):
        self.length = length     # z3 Int term or int
        self.elem = elem         # callable(index term) -> value
        self.start = start
        self.tag = tag

    def __repr__(self):
        return 'SymSeg(%s+%s)' % (self.start, self.length)


class STuple(tuple):
    pass


class SDict(object):
    """dict / defaultdict with concrete (hashable) keys."""
    def __init__(self, default_factory=None):
        self.d = {}              # key -> (origkey, value)
        self.default_factory = default_factory
        self.sym = None          # optional SymMap fallback for symbolic keys

    def __repr__(self):
        return 'SDict(%r)' % ({k: v[1] for k, v in self.d.items()},)


class SSet(object):
    """set: concrete-keyed members `d` plus, for sets of ints, symbolic intervals `ranges` [(lo, hi), ...]
    (members lo <= x < hi) and removed intervals `minus` (set difference with an interval set)"""
    def __init__(self, items=()):
        self.d = {}
        self.ranges = []
        self.minus = None
        self.pred = None         # (lo, hi, z3 predicate): arbitrary further members within [lo, hi)
        for k, v in items:
            self.d[k] = v

    def __repr__(self):
        return 'SSet(%r)' % (list(self.d),)


class SObj(object):
    """Heap object of a repo (or model, or builtin exception) class."""
    _count = 0

    def __init__(self, cls):
        self.cls = cls
        self.fields = {}
        SObj._count += 1
        self.oid = SObj._count

    def __repr__(self):
        return '<%s #%d>' % (self.cls.qualname, self.oid)


class ClassVal(object):
    def __init__(self, name, qualname, bases, module=None, builtin=False):
        self.name = name
        self.qualname = qualname
        self.bases = bases
        self.attrs = {}
        self.module = module
        self.builtin = builtin
        self.mro = self._c3()

    def _c3(self):
        seqs = [list(b.mro) for b in self.bases] + [list(self.bases)]
        res = [self]
        while True:
            seqs = [s for s in seqs if s]
            if not seqs:
                return res
            for s in seqs:
                cand = s[0]
                if not any(cand in t[1:] for t in seqs):
                    break
            else:
                raise Unsupported('inconsistent MRO for ' + self.qualname)
            res.append(cand)
            for s in seqs:
                if s[0] is cand:
                    del s[0]

    def lookup(self, name, after=None):
        mro = self.mro
        if after is not None:
            mro = mro[mro.index(after) + 1:]
        for c in mro:
            if name in c.attrs:
                return c.attrs[name], c
        return None, None

    def issubclass(self, other):
        return other in self.mro

    def __repr__(self):
        return '<class %s>' % self.qualname


class FuncVal(object):
    def __init__(self, node, module, env, cls=None, qualname=None):
        self.node = node         # ast.FunctionDef | ast.Lambda
        self.module = module
        self.env = env           # list of enclosing local dicts (innermost last)
        self.cls = cls
        self.qualname = qualname or getattr(node, 'name', '<lambda>')
        self.defaults = []
        self.kw_defaults = {}
        self.locals = None       # set of local names (computed lazily)

    def __repr__(self):
        return '<function %s>' % self.qualname


class BoundMethod(object):
    def __init__(self, self_obj, func):
        self.self_obj = self_obj
        self.func = func

    def __repr__(self):
        return '<bound %r of %r>' % (self.func, self.self_obj)


class NativeMethod(object):
    def __init__(self, obj, name):
        self.obj = obj
        self.name = name

    def __repr__(self):
        return '<native method %s of %r>' % (self.name, self.obj)


class NativeFunc(object):
    def __init__(self, name, fn):
        self.name = name
        self.fn = fn             # fn(ex, args, kwargs)

    def __repr__(self):
        return '<native %s>' % self.name


class PropertyVal(object):
    def __init__(self, fget, fset=None):
        self.fget = fget
        self.fset = fset

    def setter(self, f):
        return PropertyVal(self.fget, f)


class StaticMethodVal(object):
    def __init__(self, f):
        self.f = f


class ClassMethodVal(object):
    def __init__(self, f):
        self.f = f


class SuperVal(object):
    def __init__(self, cls, obj):
        self.cls = cls
        self.obj = obj


class ModuleVal(object):
    def __init__(self, name, globs=None, native=None):
        self.name = name
        self.globals = globs if globs is not None else {}
        self.native = native     # dict of native attrs
        self.loaded = False

    def __repr__(self):
        return '<module %s>' % self.name


class LockVal(object):
    def __init__(self, reentrant):
        self.reentrant = reentrant
        self.held = 0

    def __repr__(self):
        return '<lock held=%s>' % self.held


class CondVal(object):
    def __init__(self, lock):
        self.lock = lock
        self.notified = 0
        self.notified_all = 0     # notify_all() calls: every waiter is woken, not just one
        self.waits = 0


class Missing(object):
    """Placeholder for a name whose definition could not be interpreted."""
    def __init__(self, why):
        self.why = why

    def __repr__(self):
        return '<missing: %s>' % self.why


class RangeVal(object):
    def __init__(self, start, stop, step):
        self.start, self.stop, self.step = start, stop, step


class IterVal(object):
    """iterator over a concrete python list of values"""
    def __init__(self, items):
        self.items = items
        self.pos = 0


class LazyVal(object):
    """list element whose shape alternative (None or an object, ...) is chosen
    only when the program first inspects it"""
    def __init__(self, thunk, link=None):
        self.thunk = thunk
        self.forced = False
        self.value = None
        self.pristine = None
        self.link = link

    def force(self, ex):
        if not self.forced:
            if self.link is not None:
                self.link.force(ex)
                self.value = self.link.pristine_copy()
            else:
                self.value = self.thunk(ex)
                from .contracts import deep_copy
                snap = deep_copy(self.value, {})
                self.pristine = lambda: snap
            self.forced = True
        return self.value

    def pristine_copy(self):
        return self.pristine() if self.pristine is not None else self.value


def force(ex, v):
    return v.force(ex) if isinstance(v, LazyVal) else v


class SymVarArgs(object):
    """f(*seq) with a symbolic-length sequence: the callee's *args is bound to
    this list (a list, not a tuple: only length, indexing and iteration differ
    in nothing the verified code uses)"""
    def __init__(self, slist):
        self.slist = slist
