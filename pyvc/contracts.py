"""Contract DSL, shapes, and the per-contract verification driver."""
import ast
import os
import time
import z3

from .values import *   # noqa
from .interp import Exec, PyRaise, Frame, BreakEx, ContinueEx, ReturnEx, assigned_names
from . import natives as N


# =================================================================== shapes
class Shape(object):
    def sym(self, ex, name):
        raise NotImplementedError

    def sym_at(self, ex, name, idx):
        raise Unsupported('shape %s cannot be a list element' % self.__class__.__name__)


class Int(Shape):
    def __init__(self, lo=None, hi=None):
        self.lo, self.hi = lo, hi

    def sym(self, ex, name):
        if self.lo is not None and self.lo == self.hi:
            return self.lo
        return ex.fresh_int(name, self.lo, self.hi)

    def sym_at(self, ex, name, idx):
        f = z3.Function(name, z3.IntSort(), z3.IntSort())
        t = f(idx)
        if self.lo is not None:
            ex.fact(t >= self.lo)
        if self.hi is not None:
            ex.fact(t <= self.hi)
        return mk_int(t)


def Byte():
    return Int(0, 255)


class BV(Shape):
    """machine integer: unsigned bit-vector of the given width with value <= hi"""
    def __init__(self, width, hi=None):
        self.width, self.hi = width, hi

    def sym(self, ex, name):
        t = z3.BitVec(ex.fresh_name(name), self.width)
        if self.hi is not None:
            ex.assume(z3.ULE(t, self.hi))
        return SInt(t)


class Bool(Shape):
    def sym(self, ex, name):
        return ex.fresh_bool(name)

    def sym_at(self, ex, name, idx):
        f = z3.Function(name, z3.IntSort(), z3.BoolSort())
        return mk_bool(f(idx))


class Const(Shape):
    def __init__(self, v):
        self.v = v

    def sym(self, ex, name):
        v = self.v
        if isinstance(v, bytes):
            return SBytes.concrete(v)
        if isinstance(v, bytearray):
            return SBytes.concrete(bytes(v), True)
        if isinstance(v, tuple):
            return STuple(Const(x).sym(ex, name) for x in v)
        if isinstance(v, list):
            return SList([Const(x).sym(ex, name) for x in v])
        if isinstance(v, dict):
            d = SDict()
            for k, x in v.items():
                N.dict_set(ex, d, Const(k).sym(ex, name), Const(x).sym(ex, name))
            return d
        return v

    def sym_at(self, ex, name, idx):
        return self.sym(ex, name)


class Bytes(Shape):
    def __init__(self, min=0, max=None, mutable=False):
        self.min, self.max, self.mutable = min, max, mutable

    def sym(self, ex, name):
        return ex.fresh_bytes(name, self.min, self.max, self.mutable)

    def sym_at(self, ex, name, idx):
        fl = z3.Function(name + '.len', z3.IntSort(), z3.IntSort())
        fa = z3.Function(name, z3.IntSort(), z3.IntSort(), z3.IntSort())
        ln = fl(idx)
        ex.fact(ln >= self.min)
        if self.max is not None:
            ex.fact(ln <= self.max)
        if self.min == self.max:
            ln = self.min

        def at(j):
            t = fa(idx, N._z(j))
            ex.fact(z3.And(t >= 0, t <= 255))
            return t
        return SBytes(ln, at, self.mutable)


class Any(Shape):
    """a value nothing is known about; inspecting it makes the path undecided"""
    def sym(self, ex, name):
        return Missing('havocked value %s' % name)

    def sym_at(self, ex, name, idx):
        return Missing('havocked value %s' % name)


class BVBytes(Shape):
    """byte string of n octets held as bit-vector terms (machine-integer mode)"""
    def __init__(self, n, width=32, mutable=True):
        self.n, self.width, self.mutable = n, width, mutable

    def sym(self, ex, name):
        ts = []
        for i in range(self.n):
            t = z3.BitVec(ex.fresh_name('%s[%d]' % (name, i)), self.width)
            ex.assume(z3.ULE(t, 255))
            ts.append(t)
        if not ts:
            return SBytes.concrete(b'', self.mutable)
        return N.bytes_from_terms(ts, self.mutable)


class Opt(Shape):
    def __init__(self, s):
        self.s = s

    def sym(self, ex, name):
        if ex.choose(2) == 0:
            return None
        return self.s.sym(ex, name)


class OneOf(Shape):
    def __init__(self, *ss):
        self.ss = ss

    def sym(self, ex, name):
        k = ex.choose(len(self.ss))
        s = self.ss[k]
        return s.sym(ex, name) if isinstance(s, Shape) else Const(s).sym(ex, name)


class Tup(Shape):
    def __init__(self, *ss):
        self.ss = ss

    def sym(self, ex, name):
        return STuple(s.sym(ex, '%s.%d' % (name, i)) for i, s in enumerate(self.ss))

    def sym_at(self, ex, name, idx):
        return STuple(s.sym_at(ex, '%s.%d' % (name, i), idx) for i, s in enumerate(self.ss))


class Fixed(Shape):
    """list with a concrete number of (shaped) elements"""
    def __init__(self, items, kind='list'):
        self.items, self.kind = items, kind

    def sym(self, ex, name):
        return SList([s.sym(ex, '%s[%d]' % (name, i)) for i, s in enumerate(self.items)], self.kind)


class SliceOf(Shape):
    """slice(start, stop) with shaped bounds"""
    def __init__(self, a, b):
        self.a, self.b = a, b

    def sym(self, ex, name):
        return slice(self.a.sym(ex, name + '.start'), self.b.sym(ex, name + '.stop'), None)


class IntSet(Shape):
    """an arbitrary set of integers within [lo, hi): membership is an uninterpreted predicate"""
    def __init__(self, lo, hi):
        self.lo, self.hi = lo, hi

    def sym(self, ex, name):
        nm = ex.fresh_name(name)
        st = SSet()
        st.pred = (self.lo, self.hi, z3.Function(nm + '!member', z3.IntSort(), z3.BoolSort()))
        return st


class ListOf(Shape):
    """list/deque of symbolic length"""
    def __init__(self, s, min=0, max=None, kind='list'):
        self.s, self.min, self.max, self.kind = s, min, max, kind

    def sym(self, ex, name):
        nm = ex.fresh_name(name)
        n = ex.fresh_int(nm + '.n', self.min, self.max)
        l = SList([], self.kind)
        if isinstance(n, int):
            l.left = [self.s.sym(ex, '%s[%d]' % (nm, i)) for i in range(n)]
            return l
        s = self.s
        l.mid = SymSeg(n, lambda i: s.sym_at(ex, nm + '.e', i), 0, tag=nm)
        return l


class LazyList(Shape):
    """list with a concrete number of elements, each instantiated (and its
    alternatives forked) only when first inspected"""
    def __init__(self, items, kind='list'):
        self.items, self.kind = items, kind

    def sym(self, ex, name):
        out = []
        for i, s in enumerate(self.items):
            def thunk(ex_, s=s, i=i):
                v = s.sym(ex_, '%s[%d]' % (name, i))
                if ex_.ghost.get('live_env') is not None:
                    tmp = dict(ex_.ghost['live_env'])
                    tmp['__result__'] = v
                    resolve_refs(ex_, tmp)
                    v = tmp['__result__']
                return v
            out.append(LazyVal(thunk))
        return SList(out, self.kind)


class HeadTail(Shape):
    """list/deque: concrete head elements followed by a symbolic-length tail"""
    def __init__(self, head, tail, kind='deque'):
        self.head, self.tail, self.kind = head, tail, kind

    def sym(self, ex, name):
        l = self.tail.sym(ex, name)
        l.kind = self.kind
        l.left = [s.sym(ex, '%s[%d]' % (name, i)) for i, s in enumerate(self.head)] + l.left
        return l


class DictOf(Shape):
    """dict with the given concrete keys"""
    def __init__(self, items, default_factory=None):
        self.items = items
        self.default_factory = default_factory

    def sym(self, ex, name):
        d = SDict()
        if self.default_factory:
            d.default_factory = ex.world.builtins['int']
        for k, s in self.items.items():
            v = s.sym(ex, '%s[%r]' % (name, k)) if isinstance(s, Shape) else Const(s).sym(ex, name)
            N.dict_set(ex, d, Const(k).sym(ex, name), v)
        return d


class Lock(Shape):
    def __init__(self, reentrant=True, held=0):
        self.reentrant, self.held = reentrant, held

    def sym(self, ex, name):
        l = LockVal(self.reentrant)
        l.held = self.held
        l.name = name
        return l


def _lock_sym_at(self, ex, name, idx):
    return self.sym(ex, name)


Lock.sym_at = _lock_sym_at


class Log(Shape):
    """a logging.Logger (calls are no-ops)"""
    def sym(self, ex, name):
        from .world import LOGGER
        return LOGGER

    def sym_at(self, ex, name, idx):
        return self.sym(ex, name)


class Cond(Shape):
    def __init__(self, of):
        self.of = of     # sibling field name holding the lock


class Ref(Shape):
    """reference to a previously built parameter (aliasing / back pointers)"""
    def __init__(self, path):
        self.path = path

    def sym(self, ex, name):
        return ('__ref__', self.path)

    def sym_at(self, ex, name, idx):
        return ('__ref__', self.path)


class Obj(Shape):
    def __init__(self, cls, _partial=True, **fields):
        self.cls = cls
        self.fields = fields
        self.partial = _partial

    def sym(self, ex, name, roots=None):
        c = ex.world.resolve_class(ex, self.cls)
        o = SObj(c)
        o.partial = self.partial
        o.symname = name
        ex.heap.append(o)
        later = []
        for k, s in self.fields.items():
            if isinstance(s, (Cond, Ref)):
                later.append((k, s))
                continue
            if not isinstance(s, Shape):
                s = Const(s)
            o.fields[k] = s.sym(ex, '%s.%s' % (name, k))
        for k, s in later:
            if isinstance(s, Cond):
                o.fields[k] = CondVal(o.fields[s.of])
            else:
                o.fields[k] = ('__ref__', s.path)
        return o

    def sym_at(self, ex, name, idx):
        c = ex.world.resolve_class(ex, self.cls)
        o = SObj(c)
        o.partial = self.partial
        o.symname = name
        later = []
        for k, s in self.fields.items():
            if isinstance(s, Cond):
                later.append((k, s))
                continue
            if not isinstance(s, Shape):
                s = Const(s)
            o.fields[k] = s.sym_at(ex, '%s.%s' % (name, k), idx)
        for k, s in later:
            o.fields[k] = CondVal(o.fields[s.of])
        return o


class Func(Shape):
    """an interpreted python function given as source (callbacks, stubs)"""
    def __init__(self, src):
        self.src = src

    def sym(self, ex, name):
        node = ast.parse(self.src.strip(), mode='eval').body
        fr = ex.frames[-1] if ex.frames else None
        m = ex.world.spec_module(ex)
        f = FuncVal(node, m, [], None, name)
        return f


def resolve_refs(ex, env):
    """replace ('__ref__', path) placeholders by the referenced objects"""
    seen = set()

    def get(path):
        parts = path.split('.')
        v = env[parts[0]]
        for p in parts[1:]:
            v = v.fields[p]
        return v

    def isref(x):
        return isinstance(x, tuple) and len(x) == 2 and x[0] == '__ref__'

    def walk(v):
        if isinstance(v, SObj):
            if id(v) in seen:
                return
            seen.add(id(v))
            for k, x in list(v.fields.items()):
                if isref(x):
                    v.fields[k] = get(x[1])
                else:
                    walk(x)
        elif isinstance(v, SList):
            for part in (v.left, v.right):
                for i, x in enumerate(part):
                    if isref(x):
                        part[i] = get(x[1])
                    elif isinstance(x, LazyVal):
                        if x.forced:
                            walk(x.value)
                    else:
                        walk(x)
        elif isinstance(v, tuple):
            for x in v:
                walk(x)
        elif isinstance(v, SDict):
            for _, x in v.d.values():
                walk(x)
    for k, v in list(env.items()):
        if isinstance(v, tuple) and len(v) == 2 and v[0] == '__ref__':
            env[k] = get(v[1])
    for v in env.values():
        walk(v)


# ============================================================ value copying
def deep_copy(v, memo):
    """structure-preserving copy of a value graph (entry-state snapshot)"""
    if isinstance(v, (SObj, SList, SDict, SBytes, LockVal, CondVal, SSet)):
        if id(v) in memo:
            return memo[id(v)]
    if isinstance(v, SObj):
        o = SObj.__new__(SObj)
        o.cls, o.oid, o.fields = v.cls, v.oid, {}
        for a in ('partial', 'symname'):
            if hasattr(v, a):
                setattr(o, a, getattr(v, a))
        memo[id(v)] = o
        for k, x in v.fields.items():
            o.fields[k] = deep_copy(x, memo)
        return o
    if isinstance(v, LazyVal):
        if v.forced:
            return deep_copy(v.value, memo)
        return LazyVal(None, link=v)
    if isinstance(v, SList):
        l = SList([], v.kind)
        memo[id(v)] = l
        l.left = [deep_copy(x, memo) for x in v.left]
        l.right = [deep_copy(x, memo) for x in v.right]
        l.mid = v.mid
        return l
    if isinstance(v, SDict):
        d = SDict(v.default_factory)
        memo[id(v)] = d
        for k, (ok, x) in v.d.items():
            d.d[k] = (ok, deep_copy(x, memo))
        d.sym = [(k, deep_copy(x, memo)) for k, x in v.sym] if v.sym else None
        return d
    if isinstance(v, SSet):
        s = N.copy_set(v)
        memo[id(v)] = s
        return s
    if isinstance(v, SBytes):
        if not v.mutable:
            return v
        b = SBytes(v.length, v._at, True, conc=v.conc, base=v.base)
        memo[id(v)] = b
        return b
    if isinstance(v, LockVal):
        l = LockVal(v.reentrant)
        l.held = v.held
        memo[id(v)] = l
        return l
    if isinstance(v, CondVal):
        c = CondVal(deep_copy(v.lock, memo))
        c.notified, c.waits = v.notified, v.waits
        c.notified_all = v.notified_all
        memo[id(v)] = c
        return c
    if isinstance(v, STuple):
        return STuple(deep_copy(x, memo) for x in v)
    if isinstance(v, tuple):
        return tuple(deep_copy(x, memo) for x in v)
    return v


def concretize(ex, v, m, memo=None, depth=0):
    """value under model m -> JSON-able recipe"""
    if memo is None:
        memo = {}

    def ev(t):
        r = m.eval(t, model_completion=True)
        if z3.is_int_value(r):
            return r.as_long()
        if z3.is_rational_value(r):
            return float(r.numerator_as_long()) / float(r.denominator_as_long())
        if z3.is_true(r):
            return True
        if z3.is_false(r):
            return False
        raise Unsupported('model value %s' % r)
    if v is None or isinstance(v, (bool, int, float, str)):
        return v
    if isinstance(v, LazyVal):
        if v.forced:
            return concretize(ex, v.value, m, memo)
        if v.link is not None and v.link.forced:
            return concretize(ex, v.link.pristine_copy(), m, memo)
        return None
    if isinstance(v, SInt):
        if isinstance(v.t, z3.BitVecRef):
            return m.eval(v.t, model_completion=True).as_long()
        return ev(v.t)
    if isinstance(v, SBool):
        return ev(v.t)
    if isinstance(v, SStr):
        return '<opaque>'
    if isinstance(v, SBytes):
        n = v.length if isinstance(v.length, int) else ev(v.length)
        if n > 2400:
            ex.ghost['truncated'] = True     # the recipe is not the model: not an input for the CPython cross-check
        n = max(0, min(n, 2400))
        saved = ex.collect_facts
        ex.collect_facts = []
        try:
            bs = []
            for i in range(n):
                t = v.at(i)
                if isinstance(t, z3.BitVecRef):
                    t = m.eval(t, model_completion=True).as_long()
                bs.append((t if isinstance(t, int) else ev(t)) % 256)
        finally:
            ex.collect_facts = saved
        return {'__bytes__': bytes(bs).hex(), 'mutable': v.mutable}
    if isinstance(v, tuple):
        return {'__tuple__': [concretize(ex, x, m, memo) for x in v]}
    if isinstance(v, SList):
        items = [concretize(ex, x, m, memo) for x in v.left]
        if v.mid is not None:
            n = v.mid.length if isinstance(v.mid.length, int) else ev(zint(v.mid.length))
            st = v.mid.start if isinstance(v.mid.start, int) else ev(zint(v.mid.start))
            saved = ex.collect_facts
            ex.collect_facts = []
            try:
                for k in range(max(0, min(n, 512))):
                    items.append(concretize(ex, v.mid.elem(z3.IntVal(st + k)), m, memo))
            finally:
                ex.collect_facts = saved
        items += [concretize(ex, x, m, memo) for x in v.right]
        return {'__list__' if v.kind == 'list' else '__deque__': items}
    if isinstance(v, SDict):
        return {'__dict__': [[concretize(ex, ok, m, memo), concretize(ex, x, m, memo)]
                             for (ok, x) in v.d.values()],
                'default': v.default_factory is not None}
    if isinstance(v, SSet):
        return {'__set__': [concretize(ex, x, m, memo) for x in v.d.values()]}
    if isinstance(v, SObj):
        if id(v) in memo:
            return {'__ref__': memo[id(v)]}
        memo[id(v)] = v.oid
        memo.setdefault('_keep', []).append(v)
        return {'__obj__': v.cls.qualname, 'id': v.oid,
                'fields': {k: concretize(ex, x, m, memo) for k, x in v.fields.items()
                           if not isinstance(x, N.LazyField)}}
    if isinstance(v, LockVal):
        if id(v) in memo:
            return {'__ref__': memo[id(v)]}
        memo[id(v)] = 'L%d' % len(memo)
        memo.setdefault('_keep', []).append(v)
        return {'__lock__': v.reentrant, 'id': memo[id(v)], 'held': v.held}
    if isinstance(v, CondVal):
        return {'__cond__': concretize(ex, v.lock, m, memo)}
    if isinstance(v, ClassVal):
        return {'__class__': v.qualname}
    if v.__class__.__name__ == 'Logger':
        return {'__logger__': 'verif'}
    if isinstance(v, FuncVal):
        if isinstance(v.node, ast.Lambda):
            return {'__lambda__': ast.unparse(v.node)}
        return {'__func__': v.qualname}
    if isinstance(v, BoundMethod):
        return {'__method__': [concretize(ex, v.self_obj, m, memo), v.func.node.name]}
    if isinstance(v, slice):
        return {'__slice__': [concretize(ex, x, m, memo) for x in (v.start, v.stop, v.step)]}
    return {'__repr__': repr(v)}


# ================================================================ contracts
class LoopSpec(object):
    def __init__(self, invariant=(), decreases=None, havoc=None, index='_k', temps=(), entry=None):
        # entry: ghost locals bound to the value of an expression when the loop is first reached (before the
        # havoc), usable in invariants, variants and havoc expressions ("old" at loop entry)
        self.entry = entry or {}
        self.invariant = list(invariant)
        self.decreases = decreases
        self.havoc = havoc or {}
        self.index = index
        self.temps = set(temps)


class Contract(object):
    def __init__(self, target, prop, params, name=None, requires=(), ensures=(), raises=None,
                 loops=None, returns=None, modifies=None, reads=None, setup=None, inline=True,
                 use=(), kwargs=None, bounded=None, note=None, max_paths=None, max_unroll=None,
                 hooks=None, sentinel_of=None, expect_fail=False, call=None, timeout_ms=None,
                 ghost=None, apply_at_calls=False, cases=None, budget_s=None, assumed=False, bounds=(), native=True,
                 idle_loops=()):
        # loops (tags as in obligation names) that this contract expects never to be entered
        self.idle_loops = tuple(idle_loops)
        self.target = target
        self.prop = prop
        self.params = params
        self.name = name or target
        self.requires = list(requires)
        self.ensures = [(e if isinstance(e, tuple) else ('post.%d' % i, e)) for i, e in enumerate(ensures)]
        self.raises = raises if raises is not None else {}
        self.loops = loops or {}
        self.returns = returns
        self.modifies = modifies or {}
        self.reads = reads or {}
        self.setup = setup
        self.inline = inline
        self.use = list(use)
        self.kwargs = kwargs or {}
        self.bounded = bounded
        self.note = note
        self.max_paths = max_paths
        self.max_unroll = max_unroll
        self.hooks = hooks or {}
        self.sentinel_of = sentinel_of
        self.expect_fail = expect_fail
        self.call = call
        self.timeout_ms = timeout_ms
        self.ghost = ghost or {}
        self.apply_at_calls = apply_at_calls
        self.cases = cases
        self.budget_s = budget_s
        self.assumed = assumed
        self.bounds = list(bounds)
        self.native = native


REGISTRY = []


def contract(*a, **k):
    c = Contract(*a, **k)
    REGISTRY.append(c)
    return c


# ------------------------------------------------------- clause evaluation
class ClauseError(Exception):
    pass


def parse_clause(src):
    return ast.parse(src.strip(), mode='eval').body


class SpecExec(Exec):
    """Exec with the clause-language special forms old(), implies(), ..."""

    def ex_Call(self, e):
        if isinstance(e.func, ast.Name):
            nm = e.func.id
            if nm == 'old' and 'old_env' in self.ghost and self.ghost.get('spec_mode'):
                fr = self.frames[-1]
                saved = fr.locals
                fr.locals = dict(self.ghost['old_env'])
                try:
                    return self.eval(e.args[0])
                finally:
                    fr.locals = saved
            if nm == 'implies' and self.ghost.get('spec_mode'):
                pol = self.ghost.get('polarity')
                self.ghost['polarity'] = {'+': '-', '-': '+'}.get(pol)
                try:
                    a = self.truth(self.eval(e.args[0]))
                finally:
                    self.ghost['polarity'] = pol
                if a is False:
                    return True
                if a is True:
                    return self.truth(self.eval(e.args[1]))
                # evaluate the consequent under the antecedent
                if self.check(a.t) == z3.unsat:
                    return True
                mark = self.push_scope()
                self.solver.add(a.t)
                self.pc.append(a.t)
                try:
                    b = self.truth(self.eval(e.args[1]))
                finally:
                    extra = self.pop_scope(mark)[1:]
                    for t in extra:
                        self.solver.add(z3.Implies(a.t, t))
                        self.pc.append(z3.Implies(a.t, t))
                if isinstance(b, bool):
                    return True if b else mk_bool(z3.Not(a.t))
                return mk_bool(z3.Implies(a.t, b.t))
        if self.ghost.get('spec_mode') and self.ghost.get('polarity') is not None:
            pol = self.ghost['polarity']
            self.ghost['polarity'] = None
            try:
                return Exec.ex_Call(self, e)
            finally:
                self.ghost['polarity'] = pol
        return Exec.ex_Call(self, e)

    def ex_UnaryOp(self, e):
        if isinstance(e.op, ast.Not) and self.ghost.get('spec_mode'):
            pol = self.ghost.get('polarity')
            self.ghost['polarity'] = {'+': '-', '-': '+'}.get(pol)
            try:
                return Exec.ex_UnaryOp(self, e)
            finally:
                self.ghost['polarity'] = pol
        return Exec.ex_UnaryOp(self, e)

    def ex_BoolOp(self, e):
        if not self.ghost.get('spec_mode'):
            return Exec.ex_BoolOp(self, e)
        is_and = isinstance(e.op, ast.And)
        acc = []
        marks = []
        try:
            for x in e.values:
                v = self.eval(x)
                t = self.truth(v)
                if isinstance(t, bool):
                    if is_and and not t:
                        return False
                    if (not is_and) and t:
                        return True
                    continue
                acc.append(t.t)
                # later operands are evaluated under the assumption that this
                # one does not already decide the result (short circuit)
                guard = t.t if is_and else z3.Not(t.t)
                if self.check(guard) == z3.unsat:
                    break
                marks.append((self.push_scope(), guard))
                self.solver.add(guard)
                self.pc.append(guard)
        finally:
            for mark, guard in reversed(marks):
                extra = self.pop_scope(mark)[1:]
                for c in extra:
                    self.solver.add(z3.Implies(guard, c))
                    self.pc.append(z3.Implies(guard, c))
        if not acc:
            return True if is_and else False
        return mk_bool(z3.And(acc) if is_and else z3.Or(acc))

    def ex_IfExp(self, e):
        if not self.ghost.get('spec_mode'):
            return Exec.ex_IfExp(self, e)
        pol = self.ghost.get('polarity')
        self.ghost['polarity'] = None
        try:
            c = self.truth(self.eval(e.test))
        finally:
            self.ghost['polarity'] = pol
        if isinstance(c, bool):
            return self.eval(e.body if c else e.orelse)
        if self.branch(c):
            return self.eval(e.body)
        return self.eval(e.orelse)


def eval_clause(ex, src, locals_, module, env=None, polarity=None):
    """Evaluate a contract expression in spec mode -> bool | SBool | value"""
    node = src if isinstance(src, ast.AST) else parse_clause(src)
    g = dict(module.globals) if module is not None else {}
    g.update(ex.world.spec_globals(ex))
    m = ModuleVal('<spec>', g)
    fr = Frame(None, m, locals_, set(), env or [])
    saved = (ex.ghost.get('spec_mode'), ex.ghost.get('polarity'))
    ex.ghost['spec_mode'] = True
    ex.ghost['polarity'] = polarity
    ex.frames.append(fr)
    try:
        return ex.eval(node)
    finally:
        ex.frames.pop()
        ex.ghost['spec_mode'], ex.ghost['polarity'] = saved


def clause_truth(ex, src, locals_, module, env=None, polarity=None, what='clause'):
    try:
        v = eval_clause(ex, src, locals_, module, env, polarity)
        saved = ex.ghost.get('polarity')
        ex.ghost['polarity'] = polarity
        try:
            return ex.truth(v)
        finally:
            ex.ghost['polarity'] = saved
    except PyRaise as e:
        raise Unsupported('%s %r raised %s%r' % (what, src if isinstance(src, str) else ast.unparse(src),
                                                   e.exc.cls.name, tuple(e.exc.fields.get('args', ()))))


def seq_conj(ex, clauses, env, mod):
    """conjunction where each clause is evaluated under the previous ones"""
    acc = []
    mark = ex.push_scope()
    try:
        for r in clauses:
            t = clause_truth(ex, r, env, mod, None, None, 'requires')
            if t is False:
                return False
            if t is True:
                continue
            if ex.check(t.t) == z3.unsat:
                return False
            acc.append(t.t)
            ex.solver.add(t.t)
            ex.pc.append(t.t)
    finally:
        ex.pop_scope(mark)
    return mk_bool(z3.And(acc)) if acc else True


# ----------------------------------------------------------- annotated loop
def lvalue_assign(ex, path, v, locals_, module=None, env=None):
    node = parse_clause(path)
    node.ctx = ast.Store()
    g = dict(module.globals) if module is not None else {}
    g.update(ex.world.spec_globals(ex))
    fr = Frame(None, ModuleVal('<spec>', g), locals_, set(), env or [])
    ex.frames.append(fr)
    try:
        ex.assign(node, v)
    finally:
        ex.frames.pop()


LOOPS_ENTERED = set()
LOOPS_SEEN = set()


def annotated_loop(ex, node, spec, it=None):
    fr = ex.frames[-1]
    fname = fr.func.qualname
    kind, ordn = ex.loop_ordinal(node)
    tag = '%s/loop:%s%d' % (fname, kind, ordn)
    is_for = isinstance(node, ast.For)
    mod = fr.module
    n = None
    if is_for:
        if isinstance(it, RangeVal):
            if isinstance(it.step, int) and it.step == 1:
                n = ex.range_len(it)
                elem = lambda k: mk_int(zint(it.start) + zint(k))   # noqa
            elif all(isinstance(x, int) for x in (it.start, it.stop, it.step)):
                n = len(range(it.start, it.stop, it.step))
                elem = lambda k: mk_int(it.start + zint(k) * it.step)   # noqa
            else:
                # stepped range: the trip count n is characterised (nonlinear) by
                # start + (n-1)*step < stop <= start + n*step for a positive step
                if not ex.branch(mk_bool(zint(it.step) > 0)):
                    raise Unsupported('annotated for over range with non-positive step')
                n = ex.fresh_int('range!n', 0, None)
                zs, ze, zst = zint(it.start), zint(it.stop), zint(it.step)
                ex.assume(mk_bool(z3.If(zs >= ze, zint(n) == 0,
                                        z3.And(zint(n) >= 1, zs + (zint(n) - 1) * zst < ze,
                                               zs + zint(n) * zst >= ze))))
                elem = lambda k: mk_int(zint(it.start) + zint(k) * zint(it.step))   # noqa
        elif isinstance(it, SList):
            n = ex.seq_len(it)
            snap = deep_copy(it, {})
            elem = lambda k: N.list_getitem(ex, snap, k)   # noqa
        elif isinstance(it, SBytes):
            n = it.length if isinstance(it.length, int) else SInt(it.length)
            snap = N.snapshot(it)
            elem = lambda k: mk_int(snap.at(k if isinstance(k, int) else k.t))  # noqa
        elif it.__class__.__name__ == 'EnumVal':
            sq = it.seq
            n = sq.length if isinstance(sq.length, int) else SInt(sq.length)
            snap_e = N.snapshot(sq)
            st_e = it.start
            elem = lambda k: STuple((mk_int(zint(st_e) + zint(k)),     # noqa
                                     mk_int(snap_e.at(k if isinstance(k, int) else k.t))))
        elif isinstance(it, tuple):
            n = len(it)
            elem = lambda k: N.getitem(ex, it, k)  # noqa
        elif it.__class__.__name__ == 'CountVal':
            n = ex.fresh_int('count!inf', 0, None)      # no upper bound: the loop only ends by break/raise
            elem = lambda k: mk_int(zint(it.start) + zint(k) * zint(it.step))  # noqa
            ex.ghost['infinite_iter'] = True
        else:
            raise Unsupported('annotated for over %r' % (it,))
        fr.locals[spec.index] = 0
        fr.locals[spec.index + '_n'] = n
    LOOPS_SEEN.add(tag)
    for gname, gsrc in spec.entry.items():
        fr.locals[gname] = eval_clause(ex, gsrc, fr.locals, mod, fr.env)
    # 1. invariant holds on entry
    for i, inv in enumerate(spec.invariant):
        ex.oblige('%s/inv-init#%d' % (tag, i), clause_truth(ex, inv, fr.locals, mod, fr.env, '+', 'invariant'),
                  detail=inv)
    # 2. havoc
    exempt_vals = set()
    exempt_fields = set()
    k = None
    if is_for:
        k = ex.fresh_int(spec.index, 0, None)
        ex.assume(mk_bool(zint(k) <= zint(n)))
        fr.locals[spec.index] = k
    for lv, shp in spec.havoc.items():
        if isinstance(shp, str):
            v = eval_clause(ex, shp, fr.locals, mod, fr.env)
        elif callable(shp) and not isinstance(shp, Shape):
            v = shp(ex, fr)
        else:
            v = shp.sym(ex, 'loop!' + lv)
            if ex.ghost.get('live_env') is not None:
                tmp = dict(ex.ghost['live_env'])
                tmp['__result__'] = v
                resolve_refs(ex, tmp)
                v = tmp['__result__']
        exempt_vals.add(id(v))
        tnode = parse_clause(lv)
        if isinstance(tnode, ast.Attribute):
            exempt_fields.add((id(eval_clause(ex, tnode.value, fr.locals, mod, fr.env)), tnode.attr))
        lvalue_assign(ex, lv, v, fr.locals, mod, fr.env)
    ex.ghost['havocked'] = True
    body_names, _ = assigned_names(node.body + ([ast.Assign(targets=[node.target], value=None)]
                                                if False else []))
    target_names, pre_loop = set(), {}
    if is_for:
        tn, _ = assigned_names([ast.Assign(targets=[node.target], value=ast.Constant(0))])
        body_names |= tn
        target_names = set(tn)
        pre_loop = {nm: fr.locals[nm] for nm in tn if nm in fr.locals}
    for nm in body_names:
        if nm not in spec.havoc:
            fr.locals[nm] = LoopTemp(nm, tag)
    # 3. assume invariant
    for inv in spec.invariant:
        ex.assume(clause_truth(ex, inv, fr.locals, mod, fr.env, None, 'invariant'))
    if ex.check() == z3.unsat:
        raise PathEnd()
    # 4. guard
    if is_for and it.__class__.__name__ == 'CountVal':
        cond = True
    elif is_for:
        cond = mk_bool(zint(k) < zint(n))
    else:
        cond = ex.truth(ex.eval(node.test))
    if not ex.branch(cond):
        if is_for and it.__class__.__name__ != 'CountVal':
            # after the loop the target holds the last element; after zero iterations it keeps what it held
            # before the loop (reading it then is an UnboundLocalError if it held nothing)
            if ex.branch(mk_bool(zint(k) > 0)):
                ex.assign(node.target, elem(mk_int(zint(k) - 1)))
            else:
                for nm in target_names:
                    if nm in pre_loop:
                        fr.locals[nm] = pre_loop[nm]
                    else:
                        fr.locals.pop(nm, None)
        ex.exec_block(node.orelse)
        return
    LOOPS_ENTERED.add(tag)
    v0 = None
    if spec.decreases is not None:
        v0 = eval_clause(ex, spec.decreases, fr.locals, mod, fr.env)
    if is_for:
        ex.assign(node.target, elem(k))
    snap = heap_snapshot(ex, exempt_vals)
    try:
        ex.exec_block(node.body)
    except ContinueEx:
        pass
    except BreakEx:
        # a path that leaves the loop carries its real state out; only state flowing back to the loop head
        # must be covered by the havoc set
        return
    check_frame(ex, snap, exempt_vals, exempt_fields, tag)
    if is_for:
        fr.locals[spec.index] = mk_int(zint(k) + 1)
    for i, inv in enumerate(spec.invariant):
        ex.oblige('%s/inv-preserve#%d' % (tag, i),
                  clause_truth(ex, inv, fr.locals, mod, fr.env, '+', 'invariant'), detail=inv)
    if spec.decreases is not None:
        v1 = eval_clause(ex, spec.decreases, fr.locals, mod, fr.env)
        ex.oblige('%s/decreases' % tag, mk_bool(z3.And(zint(v0) >= 0, zint(v1) < zint(v0))),
                  detail=spec.decreases)
    elif not is_for or it.__class__.__name__ == 'CountVal':
        ex.notes.append('%s: no variant given, termination of this loop is not proved' % tag)
    raise PathEnd()


class LoopTemp(Missing):
    is_loop_temp = True      # reading it is an error of the loop contract (interp.load_name), never a value

    def __init__(self, name, tag):
        Missing.__init__(self, 'loop-local %r of %s read before assignment in this iteration '
                               '(declare it in havoc)' % (name, tag))


def reachable(ex):
    seen = {}
    stack = []
    for fr in ex.frames:
        stack.extend(fr.locals.values())
        for d in fr.env:
            stack.extend(d.values())
    stack.extend(ex.heap)
    while stack:
        v = stack.pop()
        if isinstance(v, (SObj, SList, SDict, SBytes)):
            if id(v) in seen:
                continue
            if isinstance(v, SBytes) and not v.mutable:
                continue
            seen[id(v)] = v
            if isinstance(v, SObj):
                stack.extend(v.fields.values())
            elif isinstance(v, SList):
                stack.extend(v.left)
                stack.extend(v.right)
            elif isinstance(v, SDict):
                stack.extend(x for _, x in v.d.values())
        elif isinstance(v, tuple):
            stack.extend(v)
        elif isinstance(v, BoundMethod):
            stack.append(v.self_obj)
    return seen


def shallow(v):
    if isinstance(v, SObj):
        return dict(v.fields)
    if isinstance(v, SList):
        return (list(v.left), v.mid, list(v.right))
    if isinstance(v, SDict):
        return dict(v.d)
    if isinstance(v, SBytes):
        return (v.length, v._at, v.conc)


def heap_snapshot(ex, exempt):
    return {k: (v, shallow(v)) for k, v in reachable(ex).items() if k not in exempt}


def same(a, b):
    if a is b:
        return True
    if isinstance(a, (SInt, SBool)) and isinstance(b, (SInt, SBool)):
        return a.t.eq(b.t)
    if isinstance(a, (int, str, bool, float)) and type(a) == type(b):
        return a == b
    if isinstance(a, tuple) and isinstance(b, tuple) and len(a) == len(b):
        return all(same(x, y) for x, y in zip(a, b))
    if isinstance(a, SBytes) and isinstance(b, SBytes) and a.conc is not None:
        return a.conc == b.conc
    return False


def check_frame(ex, snap, exempt_vals, exempt_fields, tag):
    for k, (v, old) in snap.items():
        if isinstance(v, SObj):
            for f, x in v.fields.items():
                if (k, f) in exempt_fields:
                    continue
                if f not in old or not same(old[f], x):
                    raise Unsupported('%s: loop body modifies %s.%s which is not declared in havoc'
                                      % (tag, getattr(v, 'symname', v.cls.name), f))
        elif isinstance(v, SList):
            if len(v.left) != len(old[0]) or len(v.right) != len(old[2]) or v.mid is not old[1] or \
                    not all(same(a, b) for a, b in zip(v.left + v.right, old[0] + old[2])):
                raise Unsupported('%s: loop body modifies a list that is not declared in havoc' % tag)
        elif isinstance(v, SDict):
            if set(v.d) != set(old) or not all(same(v.d[q][1], old[q][1]) for q in old):
                raise Unsupported('%s: loop body modifies a dict that is not declared in havoc' % tag)
        elif isinstance(v, SBytes):
            if v._at is not old[1] or v.conc != old[2]:
                raise Unsupported('%s: loop body modifies a bytearray that is not declared in havoc' % tag)


def eval_in(ex, fr, node):
    ex.frames.append(fr)
    try:
        return ex.eval(node)
    finally:
        ex.frames.pop()


Exec.eval_in = eval_in


# --------------------------------------------------------- modular callee
def apply_contract(ex, c, f, args, kwargs):
    """Use contract c in place of the body of f (assert pre, havoc, assume post)."""
    node = f.node
    names = [x.arg for x in node.args.args]
    env = {}
    for i, a in enumerate(args):
        if i < len(names):
            env[names[i]] = a
    if node.args.vararg is not None:
        rest = list(args[len(names):])
        if rest and isinstance(rest[-1], SymVarArgs):
            env[node.args.vararg.arg] = rest[-1].slist
        else:
            env[node.args.vararg.arg] = STuple(rest)
    for k, v in kwargs.items():
        env[k] = v
    nd = len(f.defaults)
    for i, nm in enumerate(names):
        if nm not in env and i >= len(names) - nd:
            env[nm] = f.defaults[i - (len(names) - nd)]
    mod = f.module
    ex.ghost.setdefault('call_args', {})[c.name] = dict(env)
    ex.ghost.setdefault('call_exc', {})[c.name] = None
    caller = ex.frames[-1].func.qualname if ex.frames and ex.frames[-1].func else '?'
    for i, r in enumerate(c.requires):
        rname = '#%d' % i
        if isinstance(r, tuple):
            rname, r = '.' + r[0], r[1]
        ex.oblige('%s/call-pre:%s%s' % (caller, c.name, rname), clause_truth(ex, r, env, mod, None, '+'),
                  detail=r)
    for pname, rd in c.reads.items():
        lo_src, hi_src = rd[0], rd[1]
        b = env.get(pname)
        if isinstance(b, SBytes) and b.watch is not None:
            b.watch(eval_clause(ex, lo_src, env, mod), eval_clause(ex, hi_src, env, mod))
    old_env = {k: deep_copy(v, {}) for k, v in env.items()}
    for lv, shp in c.modifies.items():
        lvalue_assign(ex, lv, shp.sym(ex, 'mod!' + lv), env, mod)
    rs = list(c.raises.items())
    k = ex.choose(1 + len(rs))
    saved_old = ex.ghost.get('old_env')
    ex.ghost['old_env'] = old_env
    try:
        if k == 0:
            if isinstance(c.returns, str):
                n_nd = len(ex.nondet)
                try:
                    res = eval_clause(ex, c.returns, env, mod)
                except PyRaise as pr:
                    del ex.nondet[n_nd:]
                    ex.nondet.append(('call:' + c.target, STuple(('raise', pr.exc.cls, pr.exc.fields.get('errno')))))
                    raise
                del ex.nondet[n_nd:]      # the stub returns the value itself
            else:
                res = c.returns.sym(ex, 'ret!' + c.name.split(':')[-1]) if c.returns is not None else None
            if ex.ghost.get('live_env') is not None:
                tmp = dict(ex.ghost['live_env'])
                tmp['__result__'] = res
                resolve_refs(ex, tmp)
                res = tmp['__result__']
            env2 = dict(env)
            env2['result'] = res
            for nm, e in c.ensures:
                ex.assume(clause_truth(ex, e, env2, mod, None, None))
            if ex.check() == z3.unsat:
                raise PathEnd()
            ex.nondet.append(('call:' + c.target, STuple(('return', res))))
            ex.ghost.setdefault('call_ret', {})[c.name] = deep_copy(res, {})
            return res
        ename, clauses = rs[k - 1]
        cls = ex.world.resolve_class(ex, ename)
        exc = SObj(cls)
        exc.fields['args'] = STuple()
        exc.partial = False
        exc.fields['errno'] = ex.fresh_int('errno!' + c.name.split(':')[-1])
        exc.fields['strerr'] = OPAQUE
        if cls.issubclass(ex.world.bclasses['OSError']):
            exc.fields['strerror'] = OPAQUE
        env2 = dict(env)
        env2['exc'] = exc
        for e in clauses:
            ex.assume(clause_truth(ex, e, env2, mod, None, None))
        if ex.check() == z3.unsat:
            raise PathEnd()
        ex.nondet.append(('call:' + c.target, STuple(('raise', cls, exc.fields.get('errno')))))
        ex.ghost['call_exc'][c.name] = (ename.split(':')[-1], exc.fields.get('errno'))
        raise PyRaise(exc)
    finally:
        ex.ghost['old_env'] = saved_old


# ------------------------------------------------------------------ verify
class Result(object):
    def __init__(self, contract):
        self.contract = contract.name
        self.prop = contract.prop
        self.target = contract.target
        self.obligations = []    # dicts
        self.paths = 0
        self.normal_paths = 0
        self.raise_paths = {}
        self.undecided = []
        self.notes = []
        self.solver_time = 0.0
        self.solver_calls = 0
        self.log_args = {'evaluated': 0, 'skipped': 0}
        self.retries = 0
        self.recheck = None
        self.wall = 0.0
        self.sources = {}
        self.bounded = contract.bounded
        self.samples = []


def resolve_target(ex, target):
    modname, path = target.split(':')
    m = ex.world.import_module(ex, modname)
    v = m
    owner = None
    for p in path.split('.'):
        owner = v
        if isinstance(v, ModuleVal):
            v = ex.world.module_attr(ex, v, p)
        elif isinstance(v, ClassVal):
            f, _ = v.lookup(p)
            if f is None:
                raise Unsupported('no attribute %s on %s' % (p, v.qualname))
            v = f
        else:
            raise Unsupported('cannot resolve %s' % target)
    return v, owner


def verify(world_factory, c, registry_by_name=None):
    t_start = time.time()
    world = world_factory()
    ex = SpecExec(world, timeout_ms=c.timeout_ms or 10000,
                  max_paths=c.max_paths or 4000, max_unroll=c.max_unroll or 40)
    res = Result(c)
    global LAST_EX
    LAST_EX = ex
    ex.ob_prefix = c.name
    ex.hooks['annotated_loop'] = annotated_loop
    ex.hooks['apply_contract'] = apply_contract
    ex.hooks['current_contract'] = c
    ex.hooks.update(c.hooks)
    if os.environ.get('PYVC_RECHECK') == '1' and not c.expect_fail:
        ex.hooks['recheck'] = True
    for key, ls in c.loops.items():
        ex.loop_specs[key] = ls
    if registry_by_name:
        for u in c.use:
            uc = registry_by_name[u]
            fq = uc.target.replace(':', '.')
            ex.call_contracts[fq] = uc
    # boot: load target module once, outside path exploration
    ex.reset_path([])
    ex.pending = []
    boot_fr = Frame(None, ModuleVal('<boot>', {}), {}, set(), [])
    ex.frames = [boot_fr]
    try:
        fn, owner = resolve_target(ex, c.target)
        world.spec_globals(ex)
    except PyRaise as e:
        res.undecided.append('cannot load target: %s %r' % (e.exc.cls.name, e.exc.fields.get('args')))
        res.wall = time.time() - t_start
        return res
    except Unsupported as e:
        res.undecided.append('cannot load target: %s' % e)
        res.wall = time.time() - t_start
        return res
    raw = fn
    is_classmethod = isinstance(fn, ClassMethodVal)
    if isinstance(fn, (StaticMethodVal, ClassMethodVal)):
        raw = fn.f
    if isinstance(fn, PropertyVal):
        raw = fn.fget if c.call != 'setter' else fn.fset
    qual = raw.qualname if isinstance(raw, FuncVal) else c.target
    ex.hooks['target_func'] = raw
    short = c.name
    raises_resolved = []

    def conc_hook(ex_, m):
        init = ex_.ghost.get('init_env', {})
        memo = {}
        out = {'params': {k: concretize(ex_, v, m, memo) for k, v in init.items()},
               'nondet': [[kind, concretize(ex_, v, m, memo)] for kind, v in ex_.nondet]}
        return out
    ex.hooks['concretize'] = conc_hook
    samples = []

    def cases_body():
        boot = Frame(None, ModuleVal('<boot>', {}), {}, set(), [])
        ex.frames = [boot]
        env = {}
        for pname, shp in c.params.items():
            env[pname] = (shp if isinstance(shp, Shape) else Const(shp)).sym(ex, pname)
        mod = raw.module if isinstance(raw, FuncVal) else None
        for r in c.requires:
            ex.assume(clause_truth(ex, r, env, mod, None, None, 'requires'))
        ex.ghost['init_env'] = dict(env)
        disj = []
        for cn in c.cases:
            cc = registry_by_name[cn]
            disj.append(seq_conj(ex, cc.requires, env, mod))
            for nm, e in c.ensures:
                if (nm, e) not in cc.ensures:
                    raise Unsupported('case %s lacks ensures %s of the summary' % (cn, nm))
            if not set(cc.raises) <= set(c.raises) or cc.reads != c.reads:
                raise Unsupported('case %s has a different raises/reads clause than the summary' % cn)
        ex.oblige('%s/cases-exhaustive' % short, N.vor(ex, disj),
                  detail='the preconditions of %d case contracts cover the summary precondition' % len(c.cases))

    def body():
        boot = Frame(None, ModuleVal('<boot>', {}), {}, set(), [])
        ex.frames = [boot]
        for k, v in c.ghost.items():
            ex.ghost[k] = v
        env = {}
        for pname, shp in c.params.items():
            if not isinstance(shp, Shape):
                shp = Const(shp)
            env[pname] = shp.sym(ex, pname)
        resolve_refs(ex, env)
        ex.ghost['live_env'] = env
        if c.setup is not None:
            c.setup(ex, env)
        mod = raw.module if isinstance(raw, FuncVal) else None
        for r in c.requires + c.bounds:
            ex.assume(clause_truth(ex, r, env, mod, None, None, 'requires'))
        if ex.check(full=True) != z3.sat:
            raise PathEnd()
        old_env = {}
        memo = {}
        for k, v in env.items():
            old_env[k] = deep_copy(v, memo)
        ex.ghost['old_env'] = old_env
        ex.ghost['init_env'] = old_env
        # reads-clauses
        for pname, rd in c.reads.items():
            lo_src, hi_src = rd[0], rd[1]
            b = env[pname]
            lo = eval_clause(ex, lo_src, env, mod)
            hi = eval_clause(ex, hi_src, env, mod)

            def watch(a, z, lo=lo, hi=hi, pname=pname):
                if ex.ghost.get('spec_mode'):
                    return
                empty = mk_bool(zint(z) <= zint(a))
                inside = mk_bool(z3.And(zint(a) >= zint(lo), zint(z) <= zint(hi)))
                g = N.vor(ex, [empty, inside])
                ex.oblige('%s/reads:%s' % (short, pname), g,
                          detail='every index of %s inspected lies in [%s, %s)' % (pname, lo_src, hi_src))
            b.watch = watch
        args = []
        kwargs = {}
        sig = [x.arg for x in raw.node.args.args] if isinstance(raw, FuncVal) else list(env)
        if is_classmethod:
            args.append(owner)
            sig = sig[1:]
        for nm in sig:
            if nm in env:
                args.append(env[nm])
            else:
                break
        for nm in env:
            if nm not in sig[:len(args) + (0 if not is_classmethod else 0)] and nm in c.kwargs:
                kwargs[nm] = env[nm]
        if isinstance(raw, FuncVal):
            va, kw = raw.node.args.vararg, raw.node.args.kwarg
            if va is not None and va.arg in env:
                args.extend(N.iterate(ex, env[va.arg]))
            if kw is not None and kw.arg in env:
                for kk, (ok, vv) in env[kw.arg].d.items():
                    kwargs[ok] = vv
        outcome = None
        try:
            result = ex.call(raw, args, kwargs)
            outcome = ('return', result)
        except PyRaise as e:
            outcome = ('raise', e.exc)
        env2 = dict(env)
        if outcome[0] == 'return':
            res.normal_paths += 1
            env2['result'] = outcome[1]
            for nm, e in c.ensures:
                ex.oblige('%s/%s' % (short, nm), clause_truth(ex, e, env2, mod, None, '+', 'ensures'),
                          detail=e)
            if not c.ensures:
                ex.oblige('%s/returns' % short, True)
        else:
            exc = outcome[1]
            matched = None
            for ename, clauses in c.raises.items():
                cls = world.resolve_class(ex, ename)
                if exc.cls.issubclass(cls):
                    matched = (ename, clauses)
                    break
            if matched is None:
                ex.oblige('%s/raises' % short, False,
                          detail='%s%r escapes (allowed: %s)' % (
                              exc.cls.qualname, tuple(x for x in exc.fields.get('args', ()) if isinstance(x, (str, int))),
                              sorted(c.raises) or 'nothing'),
                          where=getattr(exc, 'raised_at', None))
            else:
                res.raise_paths[matched[0]] = res.raise_paths.get(matched[0], 0) + 1
                env2['exc'] = exc
                ex.oblige('%s/raises' % short, True)
                for i, e in enumerate(matched[1]):
                    ex.oblige('%s/raises:%s#%d' % (short, matched[0], i),
                              clause_truth(ex, e, env2, mod, None, '+', 'raises clause'), detail=e)
        if len([x for x in samples if not x.get('havocked')]) < 3 and len(samples) < 12:
            r, m = ex.model()
            if m is not None:
                try:
                    ex.ghost['truncated'] = False
                    s = conc_hook(ex, m)
                    s['outcome'] = outcome[0] if outcome[0] == 'return' else exc.cls.qualname
                    s['havocked'] = bool(ex.ghost.get('havocked')) or bool(ex.ghost.get('truncated'))
                    samples.append(s)
                except Exception:
                    pass

    if c.budget_s:
        ex.budget_s = c.budget_s
    LOOPS_SEEN.clear()
    LOOPS_ENTERED.clear()
    try:
        ex.explore(cases_body if c.cases else body)
    except Exception as e:   # checker crash: reported, never a verdict
        import traceback
        res.undecided.append('checker error: %s' % traceback.format_exc()[-1500:])
    res.paths = ex.paths
    res.undecided += ex.undecided
    # vacuity guard: an annotated loop whose body is never entered on any path proves nothing about its
    # invariant (a contradictory precondition or an over-constrained input shape looks exactly like this)
    if not c.expect_fail and not getattr(c, 'allow_idle_loops', False) and not res.undecided:
        for tg in sorted(LOOPS_SEEN - LOOPS_ENTERED):
            if any(tg.endswith(x) for x in c.idle_loops):
                continue
            res.undecided.append('checker error: annotated loop %s is reached but its body is never entered '
                                 '(vacuous loop contract)' % tg)
    res.recheck = ex.recheck_stats
    for dmsg in ex.recheck_stats['disagree'][:5]:
        res.undecided.append('checker error: solver disagreement: ' + dmsg)
    res.notes = list(dict.fromkeys(ex.notes))
    res.solver_time = ex.solver_time
    res.solver_calls = ex.solver_calls
    res.log_args = dict(getattr(ex, 'log_args_stats', {'evaluated': 0, 'skipped': 0}))
    res.retries = getattr(ex, 'retries', 0)
    res.samples = samples
    for o in ex.obligations:
        res.obligations.append({'name': o.name, 'status': o.status, 'path': o.path, 'detail': o.detail,
                                'model': o.model, 'time_s': round(o.time_s, 4), 'where': o.where})
    res.sources = {k: v for k, v in world.sources.items()}
    res.wall = time.time() - t_start
    return res
