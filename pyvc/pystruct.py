"""Symbolic struct.pack / unpack / unpack_from / calcsize.

Standard sizes only (formats with an explicit byte-order character), plus
native order restricted to the codes whose native layout has no padding
(x c b B ? s p).  Anything else is Unsupported.
"""
import struct as _struct
import z3

from .values import *   # noqa
from . import natives as N

SIZES = {'x': 1, 'c': 1, 'b': 1, 'B': 1, '?': 1, 'h': 2, 'H': 2, 'i': 4, 'I': 4, 'l': 4, 'L': 4,
         'q': 8, 'Q': 8, 's': 1, 'p': 1}
SIGNED = set('bhilq')


def parse(ex, fmt):
    """-> (order, [(count, code)]) ; count int | SInt"""
    if isinstance(fmt, SBytes) and fmt.conc is not None:
        fmt = bytes(fmt.conc).decode('latin')
    parts = fmt.parts if isinstance(fmt, SStr) else [fmt]
    if isinstance(fmt, SStr) and fmt.opaque:
        raise Unsupported('struct format is an opaque string')
    if not isinstance(fmt, (str, SStr)):
        ex.throw('TypeError', 'Struct() argument 1 must be a str or bytes object')
    toks = []
    order = '@'
    first = True
    pending = None       # count
    for p in parts:
        if isinstance(p, (SInt, int)) and not isinstance(p, bool) and not isinstance(p, str):
            if pending is not None:
                raise Unsupported('struct format: adjacent counts')
            if isinstance(p, int) and p < 0:
                ex.throw('struct.error', 'bad char in struct format')
            if isinstance(p, SInt):
                if ex.branch(mk_bool(p.t < 0)):
                    ex.throw('struct.error', 'bad char in struct format')
            pending = p
            first = False
            continue
        i = 0
        while i < len(p):
            ch = p[i]
            if first and ch in '@=<>!':
                order = ch
                first = False
                i += 1
                continue
            first = False
            if ch.isspace():
                i += 1
                continue
            if ch.isdigit():
                j = i
                while j < len(p) and p[j].isdigit():
                    j += 1
                if pending is not None:
                    if isinstance(pending, int):
                        pending = int(str(pending) + p[i:j])
                    else:
                        raise Unsupported('struct format: symbolic count followed by digits')
                else:
                    pending = int(p[i:j])
                i = j
                continue
            if ch not in SIZES:
                ex.throw('struct.error', 'bad char in struct format')
            toks.append((pending if pending is not None else 1, ch, pending is not None))
            pending = None
            i += 1
    if pending is not None:
        ex.throw('struct.error', 'repeat count given without format specifier')
    if order == '@':
        for c, ch, _ in toks:
            if ch not in 'xcbB?sp':
                raise Unsupported('struct native alignment for %r' % ch)
    return order, toks


def total_size(toks):
    tot = 0
    sym = None
    for c, ch, _ in toks:
        sz = SIZES[ch]
        if isinstance(c, int):
            tot += c * sz
        else:
            sym = (c.t * sz) if sym is None else sym + c.t * sz
    if sym is None:
        return tot
    return mk_int(sym + tot)


def n_values(toks):
    n = 0
    for c, ch, _ in toks:
        if ch == 'x':
            continue
        if ch in 'sp':
            n += 1
        else:
            if not isinstance(c, int):
                raise Unsupported('struct: symbolic repeat count of a non-string code')
            n += c
    return n


def calcsize(ex, a, k):
    order, toks = parse(ex, a[0])
    return total_size(toks)


def decode(ex, buf, base, order, toks):
    out = []
    off = base
    little = order in '<' or (order in '@=' and True)
    for c, ch, _ in toks:
        sz = SIZES[ch]
        if ch == 'x':
            off = mk_int(zint(off) + zint(c))
            continue
        if ch == 's':
            out.append(N.bytes_slice(ex, SBytes(buf.length, buf._at, False, conc=buf.conc),
                                     slice(off, mk_int(zint(off) + zint(c)), None), False))
            off = mk_int(zint(off) + zint(c))
            continue
        if ch == 'p':
            # pascal string: a length octet (clamped to count-1) followed by the data
            if not isinstance(c, int) or c < 1:
                raise Unsupported('struct p code with symbolic count')
            b0 = mk_int(buf.at(off if isinstance(off, int) else off.t))
            ln = b0 if isinstance(b0, int) and b0 <= c - 1 else mk_int(z3.If(zint(b0) > c - 1, c - 1, zint(b0)))
            out.append(N.bytes_slice(ex, SBytes(buf.length, buf._at, False, conc=buf.conc),
                                     slice(mk_int(zint(off) + 1), mk_int(zint(off) + 1 + zint(ln)), None), False))
            off = mk_int(zint(off) + c)
            continue
        for _ in range(c):
            if ch == 'c':
                out.append(N.bytes_slice(ex, buf, slice(off, mk_int(zint(off) + 1), None), False))
            else:
                t = z3.IntVal(0)
                for b in range(sz):
                    idx = mk_int(zint(off) + b)
                    byte = N._z(buf.at(idx if isinstance(idx, int) else idx.t))
                    shift = b if little else (sz - 1 - b)
                    t = t + byte * (1 << (8 * shift))
                if ch in SIGNED:
                    t = z3.If(t >= (1 << (8 * sz - 1)), t - (1 << (8 * sz)), t)
                v = mk_int(t)
                if ch == '?':
                    v = ex.truth(v)
                out.append(v)
            off = mk_int(zint(off) + sz)
    return STuple(out)


def need_buffer(ex, b):
    if not isinstance(b, SBytes):
        ex.throw('TypeError', "a bytes-like object is required, not '%s'" % N.tname(b))


def unpack_from(ex, a, k):
    fmt = a[0]
    buf = a[1] if len(a) > 1 else k['buffer']
    offset = a[2] if len(a) > 2 else k.get('offset', 0)
    need_buffer(ex, buf)
    order, toks = parse(ex, fmt)
    tot = total_size(toks)
    n = buf.length if isinstance(buf.length, int) else SInt(buf.length)
    if not is_num(offset):
        ex.throw('TypeError', 'offset must be an integer')
    if ex.branch(mk_bool(zint(offset) < 0)):
        # negative offsets count from the end
        if ex.branch(mk_bool(zint(offset) + zint(n) < 0)):
            ex.throw('struct.error', 'offset out of range')
        offset = mk_int(zint(offset) + zint(n))
    ok = mk_bool(zint(offset) + zint(tot) <= zint(n))
    if not ex.branch(ok):
        ex.throw('struct.error', 'unpack_from requires a buffer of at least N bytes')
    if buf.watch is not None and not (isinstance(tot, int) and tot == 0):
        buf.watch(offset, mk_int(zint(offset) + zint(tot)))
    if buf.conc is not None and isinstance(offset, int) and isinstance(tot, int) and isinstance(fmt, str):
        return M_from_native(_struct.unpack_from(fmt, bytes(buf.conc), offset))
    return decode(ex, buf, offset, order, toks)


def M_from_native(t):
    return STuple(SBytes.concrete(x) if isinstance(x, bytes) else x for x in t)


def unpack(ex, a, k):
    fmt, buf = a[0], a[1]
    need_buffer(ex, buf)
    order, toks = parse(ex, fmt)
    tot = total_size(toks)
    n = buf.length if isinstance(buf.length, int) else SInt(buf.length)
    if not ex.branch(mk_bool(zint(tot) == zint(n))):
        ex.throw('struct.error', 'unpack requires a buffer of N bytes')
    if buf.watch is not None and not (isinstance(tot, int) and tot == 0):
        buf.watch(0, tot)
    if buf.conc is not None and isinstance(fmt, str):
        return M_from_native(_struct.unpack(fmt, bytes(buf.conc)))
    return decode(ex, buf, 0, order, toks)


RANGES = {'b': (-128, 127), 'B': (0, 255), 'h': (-2 ** 15, 2 ** 15 - 1), 'H': (0, 2 ** 16 - 1),
          'i': (-2 ** 31, 2 ** 31 - 1), 'I': (0, 2 ** 32 - 1), 'l': (-2 ** 31, 2 ** 31 - 1),
          'L': (0, 2 ** 32 - 1), 'q': (-2 ** 63, 2 ** 63 - 1), 'Q': (0, 2 ** 64 - 1)}


def pack(ex, a, k):
    fmt = a[0]
    vals = list(a[1:])
    order, toks = parse(ex, fmt)
    if n_values(toks) != len(vals):
        ex.throw('struct.error', 'pack expected %d items for packing (got %d)' % (n_values(toks), len(vals)))
    little = order in '<@='
    out = SBytes.concrete(b'')
    vi = 0
    for c, ch, _ in toks:
        sz = SIZES[ch]
        if ch == 'x':
            if not isinstance(c, int):
                raise Unsupported('symbolic pad count')
            out = N.bytes_concat(out, SBytes.concrete(bytes(c)))
            continue
        if ch == 's':
            v = vals[vi]
            vi += 1
            if not isinstance(v, SBytes):
                ex.throw('struct.error', "argument for 's' must be a bytes object")
            # truncate or pad with zeros to c bytes
            n = v.length if isinstance(v.length, int) else SInt(v.length)
            if isinstance(c, int) and isinstance(n, int):
                piece = N.bytes_slice(ex, v, slice(0, c, None), False)
                if n < c:
                    piece = N.bytes_concat(piece, SBytes.concrete(bytes(c - n)))
            else:
                vat = v.at
                zn = zint(n)

                def at(i, vat=vat, zn=zn):
                    zi = N._z(i)
                    cnd = z3.simplify(zi < zn)
                    if z3.is_true(cnd):
                        return vat(i)
                    if z3.is_false(cnd):
                        return z3.IntVal(0)
                    return z3.If(cnd, N._z(vat(zi)), z3.IntVal(0))
                piece = SBytes(c if isinstance(c, int) else c.t, at, False)
            out = N.bytes_concat(out, piece)
            continue
        if ch == 'p':
            raise Unsupported('struct p code')
        for _ in range(c):
            v = vals[vi]
            vi += 1
            if ch == 'c':
                if not isinstance(v, SBytes) or not ex.branch(mk_bool(N.zlen(v) == 1)):
                    ex.throw('struct.error', 'char format requires a bytes object of length 1')
                out = N.bytes_concat(out, N.bytes_slice(ex, v, slice(0, 1, None), False))
                continue
            if ch == '?':
                t = ex.truth(v)
                out = N.bytes_concat(out, N.bytes_from_terms([zint(t) if not isinstance(t, bool) else int(t)]))
                continue
            if not is_num(v) or N.is_real(v):
                ex.throw('struct.error', 'required argument is not an integer')
            lo, hi = RANGES[ch]
            if not ex.branch(mk_bool(z3.And(zint(v) >= lo, zint(v) <= hi))):
                ex.throw('struct.error', "'%s' format requires %d <= number <= %d" % (ch, lo, hi))
            if isinstance(v, bool):
                v = int(v)
            if isinstance(v, int):
                bs = (v % (1 << (8 * sz))).to_bytes(sz, 'little' if little else 'big')
                out = N.bytes_concat(out, SBytes.concrete(bs))
                continue
            zv = zint(v)
            if lo < 0:
                zv = z3.If(zv < 0, zv + (1 << (8 * sz)), zv)
            terms = []
            for b in range(sz):
                t = mk_int((zv / (1 << (8 * b))) % 256) if b else mk_int(zv % 256)
                terms.append(t if isinstance(t, int) else t.t)
            if not little:
                terms.reverse()
            out = N.bytes_concat(out, N.bytes_from_terms(terms))
    return out
