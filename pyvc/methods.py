"""Native methods of built-in container types."""
import z3

from .values import *   # noqa
from .interp import PathEnd, PyRaise
from . import natives as N


def call_method(ex, obj, name, args, kwargs):
    if isinstance(obj, SBytes):
        return bytes_method(ex, obj, name, args, kwargs)
    if isinstance(obj, SList):
        return list_method(ex, obj, name, args, kwargs)
    if isinstance(obj, SDict):
        return dict_method(ex, obj, name, args, kwargs)
    if isinstance(obj, SSet):
        return set_method(ex, obj, name, args, kwargs)
    if isinstance(obj, (str, SStr)):
        return str_method(ex, obj, name, args, kwargs)
    if isinstance(obj, slice) and name == 'indices':
        if obj.step not in (None, 1):
            raise Unsupported('slice.indices with a step')
        n = args[0]
        lo, ln = N.norm_slice(ex, n, obj.start, obj.stop)
        return STuple((lo, mk_int(zint(lo) + zint(ln)), 1))
    if isinstance(obj, tuple):
        if name == 'index':
            for i, x in enumerate(obj):
                if ex.branch(N.veq(ex, x, args[0])):
                    return i
            ex.throw('ValueError', 'tuple.index(x): x not in tuple')
        if name == 'count':
            return sum(1 for x in obj if ex.branch(N.veq(ex, x, args[0])))
    if isinstance(obj, LockVal):
        if name == 'acquire':
            N.lock_acquire(ex, obj)
            return True
        if name == 'release':
            N.lock_release(ex, obj)
            return None
        if name == 'locked':
            return obj.held > 0
        if name in ('__enter__',):
            N.lock_acquire(ex, obj)
            return True
        if name == '__exit__':
            N.lock_release(ex, obj)
            return None
    if isinstance(obj, CondVal):
        if name in ('acquire', '__enter__'):
            N.lock_acquire(ex, obj.lock)
            return True
        if name in ('release', '__exit__'):
            N.lock_release(ex, obj.lock)
            return None
        if name in ('notify', 'notify_all', 'notifyAll'):
            if obj.lock.held == 0:
                ex.throw('RuntimeError', 'cannot notify on un-acquired lock')
            obj.notified += 1
            if name != 'notify':
                obj.notified_all += 1
            ex.events.append((name, obj))
            return None
        if name == 'wait':
            if obj.lock.held == 0:
                ex.throw('RuntimeError', 'cannot wait on un-acquired lock')
            obj.waits += 1
            timeout = args[0] if args else kwargs.get('timeout')
            ex.events.append(('wait', obj, timeout))
            h = ex.hooks.get('on_wait')
            if h:
                return h(ex, obj, timeout)
            return True
    if isinstance(obj, SuperVal):
        return super_native(ex, obj, name, args, kwargs)
    if isinstance(obj, SObj):
        return obj_native(ex, obj, name, args, kwargs)
    if isinstance(obj, ClassVal):
        return class_native(ex, obj, name, args, kwargs)
    if isinstance(obj, PropertyVal) and name == 'setter':
        return PropertyVal(obj.fget, args[0])
    if is_num(obj):
        if name == 'bit_length' and isinstance(obj, int):
            return obj.bit_length()
        if name == 'to_bytes':
            length = args[0] if args else kwargs['length']
            order = args[1] if len(args) > 1 else kwargs.get('byteorder', 'big')
            if not isinstance(length, int):
                raise Unsupported('to_bytes symbolic length')
            if not ex.branch(mk_bool(z3.And(zint(obj) >= 0, zint(obj) < (1 << (8 * length))))):
                ex.throw('OverflowError', 'int too big to convert')
            ts = [mk_int((zint(obj) / (1 << (8 * k))) % 256) for k in range(length)]
            ts = [t if isinstance(t, int) else t.t for t in ts]
            if order == 'big':
                ts.reverse()
            return N.bytes_from_terms(ts)
    raise Unsupported('method %s of %r' % (name, obj))


def super_native(ex, sv, name, args, kwargs):
    o = sv.obj
    if name == '__init__':
        ex.world.builtin_init(ex, o, args, kwargs)
        return None
    if name == '__setattr__':
        o.fields[args[0]] = args[1]
        return None
    if name == '__getattribute__' or name == '__getattr__':
        nm = args[0]
        if nm in o.fields:
            return o.fields[nm]
        ex.throw('AttributeError', nm)
    if name in ('__str__', '__repr__'):
        return OPAQUE
    if name == '__new__':
        return SObj(args[0])
    if name in ('__enter__',):
        return o
    if name == '__exit__':
        return None
    if name == '__eq__':
        return o is args[0]
    raise Unsupported('super().%s' % name)


def obj_native(ex, o, name, args, kwargs):
    if name in ('__str__', '__repr__'):
        return OPAQUE
    if name == '__init__':
        ex.world.builtin_init(ex, o, args, kwargs)
        return None
    if name == '__setattr__':
        o.fields[args[0]] = args[1]
        return None
    if name == '__eq__':
        return o is args[0]
    if name == '__ne__':
        return o is not args[0]
    if name == 'with_traceback':
        return o
    raise Unsupported('object method %s' % name)


def class_native(ex, c, name, args, kwargs):
    if name == '__setattr__':       # object.__setattr__(self, name, value)
        args[0].fields[args[1]] = args[2]
        return None
    if name == '__getattribute__':
        o, nm = args
        if nm in o.fields:
            return o.fields[nm]
        return ex.getattr(o, nm)
    if name == '__init__':
        ex.world.builtin_init(ex, args[0], args[1:], kwargs)
        return None
    if name == '__new__':
        return SObj(args[0])
    if name in ('__str__', '__repr__'):
        return OPAQUE
    if c.name == 'bytearray' or c.name == 'bytes':
        if name == 'fromhex':
            s = args[0]
            if isinstance(s, str):
                try:
                    return SBytes.concrete(bytes.fromhex(s), c.name == 'bytearray')
                except ValueError as e:
                    ex.throw('ValueError', str(e))
            raise Unsupported('fromhex of symbolic string')
        if name == 'join':
            return bytes_method(ex, args[0], 'join', args[1:], kwargs)
    if c.name == 'int' and name == 'from_bytes':
        b = args[0]
        order = args[1] if len(args) > 1 else kwargs.get('byteorder', 'big')
        n = b.concrete_len()
        if n is None:
            raise Unsupported('int.from_bytes of symbolic length')
        idx = list(range(n))
        if order == 'big':
            idx.reverse()
        t = z3.IntVal(0)
        for k, i in enumerate(idx):
            t = t + N._z(b.at(i)) * (1 << (8 * k))
        return mk_int(t)
    if c.name == 'dict' and name == 'fromkeys':
        d = SDict()
        for k in N.iterate(ex, args[0]):
            N.dict_set(ex, d, k, args[1] if len(args) > 1 else None)
        return d
    if c.name == 'str' and name in N.STR_METHODS:
        return str_method(ex, args[0], name, args[1:], kwargs)
    if c.name == 'Condition' or c.name == 'Lock':
        pass
    raise Unsupported('%s.%s' % (c.name, name))


# ------------------------------------------------------------------ bytes
def need_mut(ex, b):
    if not b.mutable:
        ex.throw('AttributeError', "'bytes' object has no such (mutating) attribute")


def replace_bytes(b, new):
    b.length, b._at, b.conc = new.length, new._at, new.conc
    N.clone_meta(new, b)


def byte_value(ex, v):
    if not is_num(v):
        ex.throw('TypeError', 'an integer is required')
    if is_bv(v):
        if not ex.branch(mk_bool(z3.ULE(v.t, 255))):
            ex.throw('ValueError', 'byte must be in range(0, 256)')
        return v
    if not ex.branch(mk_bool(z3.And(zint(v) >= 0, zint(v) <= 255))):
        ex.throw('ValueError', 'byte must be in range(0, 256)')
    return v


def to_bytes_arg(ex, v):
    if isinstance(v, SBytes):
        return v
    if isinstance(v, (SList, tuple)):
        items = list(N.iterate(ex, v))
        for x in items:
            byte_value(ex, x)
        return N.bytes_from_terms([x if isinstance(x, int) else zint(x) for x in items])
    if isinstance(v, str) or v is None or is_num(v):
        ex.throw('TypeError', "can't concat/extend with %s" % N.tname(v))
    raise Unsupported('bytes argument %r' % (v,))


def bytes_method(ex, b, name, args, kwargs):
    if name == 'startswith' or name == 'endswith':
        p = args[0]
        if isinstance(p, tuple):
            return N.vor(ex, [bytes_method(ex, b, name, [x], {}) for x in p])
        if not isinstance(p, SBytes):
            ex.throw('TypeError', 'startswith first arg must be bytes')
        n = p.concrete_len()
        if n is None:
            raise Unsupported('startswith with symbolic-length prefix')
        if b.conc is not None and p.conc is not None:
            return getattr(bytes(b.conc), name)(bytes(p.conc))
        if name == 'startswith':
            cs = [N.zlen(b) >= n] + [N._z(b.at(i)) == N._z(p.at(i)) for i in range(n)]
        else:
            cs = [N.zlen(b) >= n] + [N._z(b.at(z3.simplify(N.zlen(b) - n + i))) == N._z(p.at(i))
                                      for i in range(n)]
        return mk_bool(z3.And(cs))
    if name in ('decode',):
        if b.conc is not None:
            try:
                return bytes(b.conc).decode(*[a for a in args if isinstance(a, str)])
            except UnicodeDecodeError:
                ex.throw('UnicodeDecodeError', 'invalid')
        enc = next((a for a in args if isinstance(a, str)), kwargs.get('encoding', 'utf-8'))
        errs = args[1] if len(args) > 1 and isinstance(args[1], str) else kwargs.get('errors', 'strict')
        if errs == 'strict' and enc.lower().replace('_', '-') in ('ascii', 'us-ascii', 'utf-8', 'utf8') \
                and not getattr(b, 'ascii_only', False):
            # octets above 7Fh: ascii always fails, utf-8 fails for some continuations - an exceptional path
            # exists as soon as one such octet can occur
            i = ex.fresh_int('decode!i', 0, None)
            bad = mk_bool(z3.And(zint(i) < N.zlen(b), N._z(b.at(zint(i))) >= 128))
            if ex.branch(bad):
                ex.throw('UnicodeDecodeError', 'invalid start byte')
        return OPAQUE
    if name == 'hex':
        if b.conc is not None:
            return bytes(b.conc).hex()
        return OPAQUE
    if name in ('tobytes',):
        return N.clone_meta(b, SBytes(b.length, b._at, False, conc=b.conc))
    if name == 'release':
        return None
    if name == 'copy':
        return N.clone_meta(b, SBytes(b.length, b._at, b.mutable, conc=b.conc))
    if name == 'tolist':
        n = b.concrete_len()
        if n is None:
            raise Unsupported('tolist symbolic')
        return SList([mk_int(b.at(i)) for i in range(n)])
    if name == 'append':
        need_mut(ex, b)
        v = byte_value(ex, args[0])
        replace_bytes(b, N.bytes_concat(N.snapshot(b), N.bytes_from_terms([v if isinstance(v, int) else zint(v)]), True))
        return None
    if name == 'extend':
        need_mut(ex, b)
        replace_bytes(b, N.bytes_concat(N.snapshot(b), to_bytes_arg(ex, args[0]), True))
        return None
    if name == 'clear':
        need_mut(ex, b)
        replace_bytes(b, SBytes.concrete(b'', True))
        return None
    if name == 'pop':
        need_mut(ex, b)
        n = b.length if isinstance(b.length, int) else SInt(b.length)
        i = args[0] if args else -1
        if ex.branch(mk_bool(zint(n) == 0)):
            ex.throw('IndexError', 'pop from empty bytearray')
        j = N.norm_index(ex, n, i, 'pop index')
        v = mk_int(b.at(j if isinstance(j, int) else j.t))
        N.bytes_setslice(ex, b, slice(j, mk_int(zint(j) + 1), None), SBytes.concrete(b''))
        return v
    if name == 'insert':
        need_mut(ex, b)
        i, v = args
        v = byte_value(ex, v)
        n = b.length if isinstance(b.length, int) else SInt(b.length)
        lo, _ = N.norm_slice(ex, n, i, None)
        N.bytes_setslice(ex, b, slice(lo, lo, None), N.bytes_from_terms([v if isinstance(v, int) else zint(v)]))
        return None
    if name == 'join':
        items = list(N.iterate(ex, args[0]))
        out = SBytes.concrete(b'')
        for k, x in enumerate(items):
            if not isinstance(x, SBytes):
                ex.throw('TypeError', 'sequence item %d: expected a bytes-like object' % k)
            if k and not (b.conc is not None and len(b.conc) == 0):
                out = N.bytes_concat(out, b)
            out = N.bytes_concat(out, x)
        return SBytes(out.length, out._at, b.mutable, conc=out.conc)
    if name == 'reverse':
        need_mut(ex, b)
        replace_bytes(b, N.bytes_slice(ex, N.snapshot(b), slice(None, None, -1), True))
        return None
    if name in ('index', 'find', 'rfind', 'count'):
        x = args[0]
        if b.conc is not None and all(isinstance(a, int) or (isinstance(a, SBytes) and a.conc is not None)
                                      for a in args):
            cargs = [a if isinstance(a, int) else bytes(a.conc) for a in args]
            try:
                return getattr(bytes(b.conc), name)(*cargs)
            except ValueError:
                ex.throw('ValueError', 'subsection not found')
        if name in ('index', 'find') and is_num(x) and len(args) == 1:
            n = b.concrete_len()
            if n is not None:
                for i in range(n):
                    if ex.branch(mk_bool(N._z(b.at(i)) == zint(x))):
                        return i
                if name == 'find':
                    return -1
                ex.throw('ValueError', 'subsection not found')
        raise Unsupported('bytes.%s symbolic' % name)
    if name == 'remove':
        need_mut(ex, b)
        n = b.concrete_len()
        if n is None:
            raise Unsupported('bytearray.remove symbolic length')
        for i in range(n):
            if ex.branch(mk_bool(N._z(b.at(i)) == zint(args[0]))):
                N.bytes_setslice(ex, b, slice(i, i + 1, None), SBytes.concrete(b''))
                return None
        ex.throw('ValueError', 'value not found in bytearray')
    if b.conc is not None:
        cargs = []
        for a in args:
            if isinstance(a, SBytes) and a.conc is not None:
                cargs.append(bytes(a.conc))
            elif isinstance(a, (int, str)) or a is None:
                cargs.append(a)
            else:
                raise Unsupported('bytes.%s with symbolic argument' % name)
        try:
            r = getattr(bytes(b.conc), name)(*cargs)
        except ValueError as e:
            ex.throw('ValueError', str(e))
        return from_native(r, b.mutable)
    if name in ('strip', 'lstrip', 'rstrip'):
        # over-approximation: some byte string that is not longer than the original (content not related)
        r = ex.fresh_bytes('stripped', mutable=b.mutable)
        if getattr(b, 'ascii_only', False):
            r.ascii_only = True        # a part of ASCII-only octets is ASCII-only
        ex.assume(mk_bool(N.zlen(r) <= N.zlen(b)))
        ex.ghost['havocked'] = True
        return r
    if name in ('lower', 'upper') and not args:
        snap = N.snapshot(b)
        lo, hi, d = (65, 90, 32) if name == 'lower' else (97, 122, -32)

        def at(i, _s=snap):
            t = N._z(_s.at(i))
            return z3.If(z3.And(t >= lo, t <= hi), t + d, t)
        return SBytes(snap.length, at, b.mutable)
    if name == 'split' and not args and not kwargs:
        # whitespace split of symbolic octets, exact but BOUNDED: the length must have a small concrete upper bound
        # (the path forks over the length and over "is this octet white space" for every position)
        n = b.concrete_len()
        if n is None:
            for cand in range(9):
                if ex.branch(mk_bool(N.zlen(b) == cand)):
                    n = cand
                    break
            if n is None:
                raise Unsupported('bytes.split() on symbolic bytes that may be longer than 8 octets')
        snap = N.snapshot(b)
        parts, start = [], None
        for i in range(n):
            t = N._z(snap.at(i))
            ws = ex.branch(mk_bool(z3.Or(t == 32, z3.And(t >= 9, t <= 13))))
            if ws:
                if start is not None:
                    parts.append(N.bytes_slice(ex, snap, slice(start, i, None), b.mutable))
                    start = None
            elif start is None:
                start = i
        if start is not None:
            parts.append(N.bytes_slice(ex, snap, slice(start, n, None), b.mutable))
        return SList(parts)
    raise Unsupported('bytes.%s on symbolic bytes' % name)


def from_native(r, mutable=False):
    if isinstance(r, (bytes, bytearray)):
        return SBytes.concrete(bytes(r), mutable)
    if isinstance(r, list):
        return SList([from_native(x) for x in r])
    if isinstance(r, tuple):
        return STuple(from_native(x) for x in r)
    return r


# ------------------------------------------------------------------- list
def list_popleft(ex, l, errname='pop from an empty deque'):
    if l.left:
        return l.left.pop(0)
    if l.mid is not None:
        ln = l.mid.length
        nz = mk_bool(zint(ln) > 0)
        if ex.branch(nz):
            x = l.mid.elem(z3.simplify(zint(l.mid.start)))
            for h, (fn, fmap) in ex.ghost.get('measures', {}).get(str(l.mid.tag), {}).items():
                if fmap is not None:
                    s0 = zint(l.mid.start)
                    ex.fact(fn(s0, zint(ln)) == zint(fmap(x)) + fn(s0 + 1, zint(ln) - 1))
            l.mid = SymSeg(mk_int(zint(ln) - 1), l.mid.elem, mk_int(zint(l.mid.start) + 1), l.mid.tag)
            if isinstance(l.mid.length, int) and l.mid.length == 0:
                l.mid = None
            return x
        l.mid = None
    if l.right:
        return l.right.pop(0)
    ex.throw('IndexError', errname)


def list_popright(ex, l, errname='pop from empty list'):
    if l.right:
        return l.right.pop()
    if l.mid is not None:
        ln = l.mid.length
        if ex.branch(mk_bool(zint(ln) > 0)):
            x = l.mid.elem(z3.simplify(zint(l.mid.start) + zint(ln) - 1))
            l.mid = SymSeg(mk_int(zint(ln) - 1), l.mid.elem, l.mid.start, l.mid.tag)
            if isinstance(l.mid.length, int) and l.mid.length == 0:
                l.mid = None
            return x
        l.mid = None
    if l.left:
        return l.left.pop()
    ex.throw('IndexError', errname)


def list_append(l, x):
    if l.mid is None:
        l.items.append(x)
    else:
        l.right.append(x)


def list_method(ex, l, name, args, kwargs):
    if name == 'append':
        list_append(l, args[0])
        return None
    if name == 'appendleft':
        l.left.insert(0, args[0])
        return None
    if name == 'popleft':
        return list_popleft(ex, l)
    if name == 'pop':
        if not args or args[0] == -1:
            return list_popright(ex, l, 'pop from empty list' if l.kind == 'list' else 'pop from an empty deque')
        if args[0] == 0:
            return list_popleft(ex, l, 'pop from empty list')
        if l.mid is not None:
            raise Unsupported('list.pop(i) with symbolic segment')
        items = l.items
        i = args[0]
        if isinstance(i, SInt):
            v = N.select_concrete(ex, items, i)
            raise Unsupported('list.pop(symbolic)')
        j = N.norm_index(ex, len(items), i, 'pop index')
        return items.pop(j)
    if name == 'extend':
        N.list_extend(ex, l, args[0])
        return None
    if name == 'extendleft':
        for x in N.iterate(ex, args[0]):
            l.left.insert(0, x)
        return None
    if name == 'clear':
        l.left, l.mid, l.right = [], None, []
        return None
    if name == 'rotate':
        n = args[0] if args else 1
        if n == -1:
            if isinstance(ex.seq_len(l), int) and ex.seq_len(l) == 0:
                return None
            if l.mid is not None and not l.left and not l.right:
                if not ex.branch(mk_bool(zint(l.mid.length) > 0)):
                    return None
            x = list_popleft(ex, l)
            list_append(l, x)
            return None
        if l.mid is None and isinstance(n, int):
            items = l.items
            if items:
                k = n % len(items)
                items[:] = items[-k:] + items[:-k] if k else items
            return None
        raise Unsupported('deque.rotate')
    if l.mid is not None:
        raise Unsupported('list.%s with symbolic segment' % name)
    items = l.items
    if name == 'insert':
        i = args[0]
        if not isinstance(i, int):
            raise Unsupported('insert at symbolic index')
        items.insert(i, args[1])
        return None
    if name == 'remove':
        for i in range(len(items)):
            x = N.force_item(ex, items, i)
            if ex.branch(N.veq(ex, x, args[0])):
                del items[i]
                return None
        ex.throw('ValueError', 'list.remove(x): x not in list')
    if name == 'index':
        lo = args[1] if len(args) > 1 else 0
        for i in range(len(items)):
            if i < lo:
                continue
            x = N.force_item(ex, items, i)
            if ex.branch(ex.truth(N.veq(ex, x, args[0]))):
                return i
        ex.throw('ValueError', 'x is not in list')
    if name == 'count':
        t = z3.IntVal(0)
        for x in items:
            e = N.veq(ex, x, args[0])
            t = t + zint(e if not isinstance(e, bool) else int(e))
        return mk_int(t)
    if name == 'reverse':
        items.reverse()
        return None
    if name == 'copy':
        return SList(list(items), l.kind)
    if name == 'sort':
        key = kwargs.get('key')
        rev = kwargs.get('reverse', False)
        items[:] = sort_values(ex, items, key, rev)
        return None
    raise Unsupported('list.%s' % name)


def sort_values(ex, items, key=None, reverse=False):
    keys = [ex.call(key, [x], {}) if key is not None else x for x in items]
    ck = []
    for k in keys:
        if isinstance(k, SBytes) and k.conc is not None:
            ck.append(bytes(k.conc))
        elif isinstance(k, (int, str, bool, float)):
            ck.append(k)
        elif isinstance(k, SBool):
            # stable two-way partition on a symbolic boolean key
            ck.append(ex.branch(k))
        elif isinstance(k, tuple) and all(isinstance(x, (int, str)) for x in k):
            ck.append(tuple(k))
        else:
            raise Unsupported('sort with symbolic keys')
    order = sorted(range(len(items)), key=lambda i: ck[i], reverse=bool(reverse))
    return [items[i] for i in order]


def list_extend(ex, l, other):
    if isinstance(other, SList) and other.mid is not None:
        if l.mid is None and not l.right:
            l.left = l.items + other.left
            l.mid = other.mid
            l.right = list(other.right)
            return
        raise Unsupported('extend with symbolic segment')
    for x in N.iterate(ex, other):
        list_append(l, x)


N.list_extend = list_extend


# ------------------------------------------------------------------- dict
def dict_method(ex, d, name, args, kwargs):
    if name == 'get':
        found, v = N.dict_lookup(ex, d, args[0])
        if found:
            return v
        return args[1] if len(args) > 1 else None
    if name == 'setdefault':
        found, v = N.dict_lookup(ex, d, args[0])
        if found:
            return v
        v = args[1] if len(args) > 1 else None
        N.dict_set(ex, d, args[0], v)
        return v
    if name == 'keys':
        return SList([ok for (ok, _) in d.d.values()])
    if name == 'values':
        if d.sym:
            raise Unsupported('values() of dict with symbolic keys')
        return SList([v for (_, v) in d.d.values()])
    if name == 'items':
        if d.sym:
            raise Unsupported('items() of dict with symbolic keys')
        return SList([STuple((ok, v)) for (ok, v) in d.d.values()])
    if name == 'pop':
        try:
            k = N.key_of(ex, args[0])
        except N.SymKey:
            for kk, (ok, v) in list(d.d.items()):
                if ex.branch(N.veq(ex, args[0], ok)):
                    del d.d[kk]
                    return v
            if len(args) > 1:
                return args[1]
            ex.throw('KeyError', args[0])
        if k in d.d:
            return d.d.pop(k)[1]
        if len(args) > 1:
            return args[1]
        ex.throw('KeyError', args[0])
    if name == 'update':
        if args:
            o = args[0]
            if isinstance(o, SDict):
                for kk, (ok, v) in o.d.items():
                    d.d[kk] = (ok, v)
            else:
                for pair in N.iterate(ex, o):
                    k, v = N.unpack_iter(ex, pair, 2)
                    N.dict_set(ex, d, k, v)
        for k, v in kwargs.items():
            d.d[k] = (k, v)
        return None
    if name == 'copy':
        n = SDict(d.default_factory)
        n.d = dict(d.d)
        n.sym = list(d.sym) if d.sym else None
        return n
    if name == 'clear':
        d.d.clear()
        d.sym = None
        return None
    raise Unsupported('dict.%s' % name)


def set_method(ex, s, name, args, kwargs):
    if name == 'add':
        s.d[N.key_of(ex, args[0])] = args[0]
        return None
    if name in ('remove', 'discard'):
        k = N.key_of(ex, args[0])
        if k in s.d:
            del s.d[k]
        elif name == 'remove':
            ex.throw('KeyError', args[0])
        return None
    if name in ('union', 'update'):
        t = s if name == 'update' else N.copy_set(s)
        for a in args:
            if isinstance(a, RangeVal) and a.step == 1 and N.range_is_big(a):
                if t.minus is not None:
                    raise Unsupported('update of an interval-set difference')
                t.ranges.append((a.start, a.stop))
                continue
            if isinstance(a, SSet) and (a.ranges or a.minus is not None or a.pred is not None):
                if a.minus is not None or t.minus is not None or a.pred is not None:
                    raise Unsupported('union with an interval-set difference')
                t.d.update(a.d)
                t.ranges += a.ranges
                continue
            for x in N.iterate(ex, a):
                t.d[N.key_of(ex, x)] = x
        return None if name == 'update' else t
    if name in ('difference', 'difference_update'):
        t = s if name == 'difference_update' else SSet(s.d.items())
        for a in args:
            for x in N.iterate(ex, a):
                t.d.pop(N.key_of(ex, x), None)
        return None if name == 'difference_update' else t
    if name == 'intersection':
        keys = set(s.d)
        for a in args:
            keys &= set(N.key_of(ex, x) for x in N.iterate(ex, a))
        return SSet((k, s.d[k]) for k in s.d if k in keys)
    if name == 'copy':
        return SSet(s.d.items())
    if name == 'clear':
        s.d.clear()
        return None
    if name == 'issubset':
        o = set(N.key_of(ex, x) for x in N.iterate(ex, args[0]))
        return set(s.d) <= o
    if name == 'issuperset':
        o = set(N.key_of(ex, x) for x in N.iterate(ex, args[0]))
        return set(s.d) >= o
    raise Unsupported('set.%s' % name)


# -------------------------------------------------------------------- str
def str_method(ex, s, name, args, kwargs):
    if name == 'format':
        if isinstance(s, SStr) and getattr(s, 'braces', False):
            # the format string itself was built from data that may contain '{' or '}' (repr of symbolic octets,
            # text taken from them): str.format may find a malformed or unexpected replacement field in it
            k = ex.choose(4)
            ex.ghost['havocked'] = True      # over-approximating fork: not a path for the CPython cross-check
            if k:
                N.assume_some_brace(ex, getattr(s, 'sources', []))
            if k == 1:
                ex.throw('ValueError', "Single '}' encountered in format string")
            if k == 2:
                ex.throw('KeyError', 'replacement field name taken from data')
            if k == 3:
                ex.throw('IndexError', 'Replacement index out of range for positional args tuple')
        N.format_check(ex, s, args, kwargs)
        if _all_conc([s] + args + list(kwargs.values())):
            return _try_format(s, args, kwargs)
        vals = args + list(kwargs.values())
        return N.opaque_str(braces=getattr(s, 'braces', False) or any(N.may_carry_braces(v) for v in vals),
                            sources=N.brace_sources([s] + vals))
    if isinstance(s, SStr):
        if name == 'encode':
            raise Unsupported('encode of symbolic string')
        return OPAQUE
    if name == 'encode':
        try:
            return SBytes.concrete(s.encode(*[a for a in args if isinstance(a, str)]))
        except UnicodeEncodeError:
            ex.throw('UnicodeEncodeError', 'encode')
    if name == 'join':
        items = list(N.iterate(ex, args[0]))
        if all(isinstance(x, str) for x in items):
            return s.join(items)
        if any(not isinstance(x, (str, SStr)) for x in items):
            ex.throw('TypeError', 'sequence item: expected str instance')
        return OPAQUE
    cargs = []
    for a in args:
        if isinstance(a, (str, int)) or a is None:
            cargs.append(a)
        elif isinstance(a, tuple) and all(isinstance(x, str) for x in a):
            cargs.append(tuple(a))
        else:
            if name in ('startswith', 'endswith', 'index', 'find'):
                raise Unsupported('str.%s with symbolic argument' % name)
            return OPAQUE
    try:
        r = getattr(s, name)(*cargs)
    except ValueError as e:
        ex.throw('ValueError', str(e))
    except TypeError as e:
        ex.throw('TypeError', str(e))
    return from_native(r)


def _all_conc(vs):
    return all(isinstance(v, (str, int, float)) and not isinstance(v, bool) or v is None for v in vs)


def _try_format(s, args, kwargs):
    try:
        return s.format(*args, **kwargs)
    except Exception:
        return OPAQUE
