"""The program under verification: module loader, classes, builtins."""
import ast
import errno as _errno
import hashlib
import os
import z3

from .values import *   # noqa
from .interp import PyRaise, Frame, assigned_names
from . import natives as N
from . import methods as M
from . import pystruct


EXC_TREE = {
    'BaseException': 'object',
    'Exception': 'BaseException', 'SystemExit': 'BaseException', 'KeyboardInterrupt': 'BaseException',
    'GeneratorExit': 'BaseException',
    'ArithmeticError': 'Exception', 'ZeroDivisionError': 'ArithmeticError', 'OverflowError': 'ArithmeticError',
    'AssertionError': 'Exception', 'AttributeError': 'Exception', 'BufferError': 'Exception',
    'EOFError': 'Exception', 'ImportError': 'Exception', 'ModuleNotFoundError': 'ImportError',
    'LookupError': 'Exception', 'IndexError': 'LookupError', 'KeyError': 'LookupError',
    'MemoryError': 'Exception', 'NameError': 'Exception', 'UnboundLocalError': 'NameError',
    'OSError': 'Exception', 'TimeoutError': 'OSError', 'ConnectionError': 'OSError',
    'FileNotFoundError': 'OSError', 'PermissionError': 'OSError', 'InterruptedError': 'OSError',
    'BrokenPipeError': 'ConnectionError', 'ConnectionRefusedError': 'ConnectionError',
    'ConnectionResetError': 'ConnectionError', 'ConnectionAbortedError': 'ConnectionError',
    'FileExistsError': 'OSError', 'BlockingIOError': 'OSError', 'ChildProcessError': 'OSError',
    'IsADirectoryError': 'OSError', 'NotADirectoryError': 'OSError', 'ProcessLookupError': 'OSError',
    'RuntimeError': 'Exception', 'NotImplementedError': 'RuntimeError', 'RecursionError': 'RuntimeError',
    'StopIteration': 'Exception', 'SyntaxError': 'Exception', 'SystemError': 'Exception',
    'TypeError': 'Exception', 'ValueError': 'Exception', 'UnicodeError': 'ValueError',
    'UnicodeDecodeError': 'UnicodeError', 'UnicodeEncodeError': 'UnicodeError',
    'Warning': 'Exception', 'DeprecationWarning': 'Warning', 'UserWarning': 'Warning',
    'struct.error': 'Exception', 'binascii.Error': 'ValueError',
    # python-libusb1: every error is a USBError
    'usb1.USBError': 'Exception', 'usb1.USBErrorTimeout': 'usb1.USBError', 'usb1.USBErrorNoDevice': 'usb1.USBError',
    'usb1.USBErrorPipe': 'usb1.USBError', 'usb1.USBErrorIO': 'usb1.USBError', 'usb1.USBErrorAccess': 'usb1.USBError',
    'usb1.USBErrorBusy': 'usb1.USBError', 'usb1.USBErrorOverflow': 'usb1.USBError', 'usb1.USBErrorOther': 'usb1.USBError',
}

OSERROR_BY_ERRNO = {}
for _n, _c in (('EAGAIN', 'BlockingIOError'), ('EALREADY', 'BlockingIOError'), ('EWOULDBLOCK', 'BlockingIOError'),
               ('EINPROGRESS', 'BlockingIOError'), ('EPIPE', 'BrokenPipeError'), ('ESHUTDOWN', 'BrokenPipeError'),
               ('ECHILD', 'ChildProcessError'), ('ECONNABORTED', 'ConnectionAbortedError'),
               ('ECONNREFUSED', 'ConnectionRefusedError'), ('ECONNRESET', 'ConnectionResetError'),
               ('EEXIST', 'FileExistsError'), ('ENOENT', 'FileNotFoundError'), ('EINTR', 'InterruptedError'),
               ('EISDIR', 'IsADirectoryError'), ('ENOTDIR', 'NotADirectoryError'), ('EACCES', 'PermissionError'),
               ('EPERM', 'PermissionError'), ('ESRCH', 'ProcessLookupError'), ('ETIMEDOUT', 'TimeoutError')):
    OSERROR_BY_ERRNO[getattr(_errno, _n)] = _c

PLAIN_CLASSES = ['int', 'bool', 'str', 'bytes', 'bytearray', 'list', 'tuple', 'dict', 'set', 'frozenset',
                 'float', 'type', 'NoneType', 'memoryview', 'function', 'deque', 'range', 'module', 'slice',
                 'defaultdict', 'Lock', 'Condition', 'Thread']


class World(object):
    def __init__(self, roots):
        """roots: dict top-level package/module name -> directory or file"""
        self.roots = roots
        self.modules = {}
        self.sources = {}        # module name -> (path, sha256)
        self.loop_ord_cache = {}
        self.classes = {}
        self._logging_helpers = {}
        self.bclasses = {}
        obj = ClassVal('object', 'object', [], builtin=True)
        self.bclasses['object'] = obj
        for n in PLAIN_CLASSES:
            base = [self.bclasses['int']] if n == 'bool' else [obj]
            if n == 'defaultdict':
                base = [self.bclasses['dict']]
            self.bclasses[n] = ClassVal(n, n, base, builtin=True)
        pending = dict(EXC_TREE)
        while pending:
            for n, b in list(pending.items()):
                if b in self.bclasses:
                    self.bclasses[n] = ClassVal(n.split('.')[-1], n, [self.bclasses[b]], builtin=True)
                    del pending[n]
        self.bclasses['IOError'] = self.bclasses['OSError']
        self.bclasses['EnvironmentError'] = self.bclasses['OSError']
        self.bclasses['Thread'].attrs['start'] = NativeFunc('Thread.start', _thread_start)
        self.builtins = self.make_builtins()
        self.native_modules = self.make_native_modules()
        self.boot = None

    def builtin_class(self, name):
        return self.bclasses[name]

    # ------------------------------------------------------------- modules
    def find_source(self, name):
        parts = name.split('.')
        if parts[0] not in self.roots:
            return None
        base = self.roots[parts[0]]
        p = os.path.join(base, *parts[1:])
        if os.path.isdir(p):
            f = os.path.join(p, '__init__.py')
            return (f, True) if os.path.exists(f) else None
        if os.path.exists(p + '.py'):
            return (p + '.py', False)
        return None

    def import_module(self, ex, name):
        if name in self.modules:
            return self.modules[name]
        if name in self.native_modules:
            m = self.native_modules[name]
            self.modules[name] = m
            return m
        src = self.find_source(name)
        if src is None:
            if name.split('.')[0] in self.roots:
                ex.throw('ImportError', 'No module named %r' % name)
            m = ModuleVal(name, native=UnknownModule(name))
            self.modules[name] = m
            return m
        # parents first
        if '.' in name:
            parent = self.import_module(ex, name.rsplit('.', 1)[0])
        path, is_pkg = src
        with open(path, 'rb') as f:
            data = f.read()
        self.sources[name] = (path, hashlib.sha256(data).hexdigest())
        tree = ast.parse(data, path)
        m = ModuleVal(name)
        m.path = path
        m.is_pkg = is_pkg
        m.tree = tree
        m.globals['__name__'] = name
        m.globals['__file__'] = path
        self.modules[name] = m
        if '.' in name:
            parent.globals[name.rsplit('.', 1)[1]] = m
        self.exec_module(ex, m)
        return m

    def exec_module(self, ex, m):
        fr = Frame(None, m, m.globals, set(), [])
        saved = ex.frames
        ex.frames = [fr]
        try:
            for st in m.tree.body:
                try:
                    ex.exec_stmt(st)
                except Unsupported as e:
                    names, _ = assigned_names([st])
                    for n in names:
                        m.globals[n] = Missing('module-level statement at %s:%d not interpreted: %s'
                                               % (m.name, st.lineno, e))
                except PyRaise as e:
                    names, _ = assigned_names([st])
                    for n in names:
                        m.globals.setdefault(n, Missing('module-level statement at %s:%d raised %s'
                                                        % (m.name, st.lineno, e.exc.cls.name)))
        finally:
            ex.frames = saved

    def resolve_relative(self, module, name, level):
        if level == 0:
            return name
        base = module.name if getattr(module, 'is_pkg', False) else module.name.rsplit('.', 1)[0]
        for _ in range(level - 1):
            base = base.rsplit('.', 1)[0]
        return base + ('.' + name if name else '')

    def import_from(self, ex, m, base, name):
        if m.native is not None:
            return self.module_attr(ex, m, name)
        if name in m.globals:
            return m.globals[name]
        # submodule?
        sub = base + '.' + name
        if self.find_source(sub) is not None:
            return self.import_module(ex, sub)
        ex.throw('ImportError', 'cannot import name %r from %r' % (name, base))

    def module_attr(self, ex, m, name):
        if m.native is not None:
            if isinstance(m.native, dict):
                if name in m.native:
                    return m.native[name]
                ex.throw('AttributeError', 'module %r has no attribute %r' % (m.name, name))
            return m.native.getattr(ex, name)
        if name in m.globals:
            v = m.globals[name]
            if isinstance(v, Missing):
                raise Unsupported('use of %s.%s: %s' % (m.name, name, v.why))
            return v
        sub = m.name + '.' + name
        if self.find_source(sub) is not None and sub in self.modules:
            return self.modules[sub]
        ex.throw('AttributeError', 'module %r has no attribute %r' % (m.name, name))

    # -------------------------------------------------------------- classes
    def make_class(self, ex, node, module, qualprefix, env):
        bases = []
        for b in node.bases:
            bv = ex.eval(b)
            if not isinstance(bv, ClassVal):
                raise Unsupported('base class %r' % (bv,))
            bases.append(bv)
        if not bases:
            bases = [self.bclasses['object']]
        qn = (module.name + '.' if module is not None else '') + qualprefix
        c = ClassVal(node.name, qn, bases, module)
        c.node = node
        fr = Frame(None, module, c.attrs, set(), env)
        fr.class_ctx = c
        ex.frames.append(fr)
        try:
            for st in node.body:
                if isinstance(st, ast.FunctionDef):
                    f = ex.make_function(st, module, env, c, qn + '.' + st.name)
                    v = f
                    for d in reversed(st.decorator_list):
                        dv = ex.eval(d)
                        v = ex.call(dv, [v], {})
                    c.attrs[st.name] = v
                elif isinstance(st, ast.ClassDef):
                    c.attrs[st.name] = self.make_class(ex, st, module, qualprefix + '.' + st.name, env)
                else:
                    try:
                        ex.exec_stmt(st)
                    except Unsupported as e:
                        names, _ = assigned_names([st])
                        for n in names:
                            c.attrs[n] = Missing('class-level statement not interpreted: %s' % e)
        finally:
            ex.frames.pop()
        self.classes[qn] = c
        return c

    def is_logging_helper(self, f):
        """A method whose body consists only of log calls (tco log/err)."""
        k = id(f.node)
        if k not in self._logging_helpers:
            ok = True
            for st in f.node.body:
                if isinstance(st, ast.Expr) and isinstance(st.value, ast.Constant):
                    continue
                if isinstance(st, ast.Expr) and isinstance(st.value, ast.Call):
                    fn = st.value.func
                    if (isinstance(fn, ast.Attribute) and isinstance(fn.value, ast.Name)
                            and fn.value.id == 'log'):
                        continue
                ok = False
            self._logging_helpers[k] = ok
        return self._logging_helpers[k]

    # ---------------------------------------------------- builtin instances
    def builtin_init(self, ex, o, args, kwargs):
        """__init__ of a builtin base (exceptions, object)."""
        if o.cls.issubclass(self.bclasses['BaseException']):
            o.fields['args'] = STuple(args)
            if o.cls.issubclass(self.bclasses['OSError']):
                if len(args) >= 2:
                    o.fields['errno'] = args[0]
                    o.fields['strerror'] = args[1]
                else:
                    o.fields.setdefault('errno', None)
                    o.fields.setdefault('strerror', None)
            if o.cls.issubclass(self.bclasses['StopIteration']):
                o.fields['value'] = args[0] if args else None
            if o.cls.issubclass(self.bclasses['SystemExit']):
                o.fields['code'] = args[0] if args else None
        elif o.cls.issubclass(self.bclasses['Thread']):
            o.fields.setdefault('name', kwargs.get('name'))
            o.fields.setdefault('_target', kwargs.get('target'))
        elif args or kwargs:
            ex.throw('TypeError', '%s() takes no arguments' % o.cls.name)

    def builtin_new(self, ex, cls, args, kwargs):
        if cls.issubclass(self.bclasses['BaseException']):
            if cls is self.bclasses['OSError'] and len(args) >= 2 and isinstance(args[0], int):
                # OSError(errno, strerror) constructs the errno-specific subclass
                sub = OSERROR_BY_ERRNO.get(args[0])
                if sub:
                    cls = self.bclasses[sub]
            o = SObj(cls)
            self.builtin_init(ex, o, args, kwargs)
            return o
        fn = self.builtins.get(cls.name)
        if isinstance(fn, ClassVal) and cls.name in CONSTRUCTORS:
            return CONSTRUCTORS[cls.name](ex, args, kwargs)
        if cls.name == 'object':
            return SObj(cls)
        if cls is self.bclasses['Thread']:
            # threading.Thread(...) / threading.Timer(...): an object that is never run (see _thread_start)
            o = SObj(cls)
            o.fields['name'] = kwargs.get('name')
            o.fields['_target'] = kwargs.get('target', args[1] if len(args) > 1 else None)
            o.fields['daemon'] = False
            return o
        raise Unsupported('construct builtin %s' % cls.name)

    # -------------------------------------------------------------- builtins
    def make_builtins(self):
        b = {}
        for n, c in self.bclasses.items():
            if '.' not in n and n not in ('function', 'module', 'NoneType', 'deque', 'defaultdict',
                                          'Lock', 'Condition', 'Thread'):
                b[n] = c
        for name, fn in BUILTIN_FUNCS.items():
            b[name] = NativeFunc(name, fn)
        b['None'] = None
        b['True'] = True
        b['False'] = False
        b['NotImplemented'] = Missing('NotImplemented')
        b['__debug__'] = True
        return b

    def make_native_modules(self):
        mods = {}

        def mod(name, d):
            mods[name] = ModuleVal(name, native=d)
            return mods[name]
        mod('struct', {
            'pack': NativeFunc('struct.pack', pystruct.pack),
            'unpack': NativeFunc('struct.unpack', pystruct.unpack),
            'unpack_from': NativeFunc('struct.unpack_from', pystruct.unpack_from),
            'calcsize': NativeFunc('struct.calcsize', pystruct.calcsize),
            'error': self.bclasses['struct.error'],
        })
        e = {k: getattr(_errno, k) for k in dir(_errno) if k.startswith('E')}
        ec = SDict()
        for k, v in _errno.errorcode.items():
            ec.d[k] = (k, v)
        e['errorcode'] = ec
        mod('errno', e)
        mod('os', {
            'strerror': NativeFunc('os.strerror', lambda ex, a, k: OPAQUE),
            'urandom': NativeFunc('os.urandom', _urandom),
            'system': NativeFunc('os.system', _os_system),
            'getenv': NativeFunc('os.getenv', lambda ex, a, k: None),
            'environ': SDict(),
            'name': 'posix',
            'path': Missing('os.path'),
        })
        mod('time', {
            'time': NativeFunc('time.time', _time_time),
            'sleep': NativeFunc('time.sleep', lambda ex, a, k: None),
        })
        mod('threading', {
            'Lock': NativeFunc('threading.Lock', lambda ex, a, k: LockVal(False)),
            'RLock': NativeFunc('threading.RLock', lambda ex, a, k: LockVal(True)),
            'Condition': NativeFunc('threading.Condition',
                                    lambda ex, a, k: CondVal(a[0] if a else LockVal(True))),
            'Thread': self.bclasses['Thread'],
            'Timer': self.bclasses['Thread'],
            'current_thread': Missing('threading.current_thread'),
        })
        mod('collections', {
            'deque': NativeFunc('collections.deque', _deque),
            'defaultdict': NativeFunc('collections.defaultdict', _defaultdict),
            'namedtuple': Missing('namedtuple'),
            'OrderedDict': NativeFunc('OrderedDict', lambda ex, a, k: CONSTRUCTORS['dict'](ex, a, k)),
        })
        lg = LoggingModule()
        mods['logging'] = ModuleVal('logging', native=lg)
        mod('binascii', {
            'hexlify': NativeFunc('hexlify', _hexlify),
            'unhexlify': NativeFunc('unhexlify', _unhexlify),
            'Error': self.bclasses['binascii.Error'],
        })
        mod('usb1', {k.split('.')[1]: self.bclasses[k] for k in self.bclasses if k.startswith('usb1.')})
        mod('select', {'select': NativeFunc('select.select', _select)})
        mod('contextlib', {'contextmanager': NativeFunc('contextlib.contextmanager', _contextmanager)})
        mod('random', {
            'choice': NativeFunc('random.choice', _random_choice),
            'randint': NativeFunc('random.randint', lambda ex, a, k: ex.fresh_int('randint', a[0], a[1])),
        })
        mod('itertools', {
            'islice': Missing('islice'), 'count': NativeFunc('itertools.count', _count),
            'chain': NativeFunc('chain', lambda ex, a, k: SList([x for it in a for x in N.iterate(ex, it)])),
        })
        mod('operator', {})
        mod('functools', {'reduce': NativeFunc('reduce', _reduce)})
        mod('sys', {'platform': 'linux', 'version_info': STuple((3, 12, 1)), 'maxsize': 2 ** 63 - 1,
                    'stdout': Missing('stdout'), 'stderr': Missing('stderr')})
        mod('math', {'ceil': NativeFunc('ceil', _ceil), 'log': Missing('math.log'),
                     'floor': NativeFunc('floor', _floor)})
        mods['re'] = ModuleVal('re', native=ReModule())
        mod('pyDes', {'triple_des': NativeFunc('triple_des', lambda ex, a, k: TripleDes(a[0], a[2] if len(a) > 2 else None)),
                      'CBC': 1, 'ECB': 0})
        mod('pyvc_rt', {
            'nondet_int': NativeFunc('nondet_int', _nd_int),
            'nondet_bool': NativeFunc('nondet_bool', _nd_bool),
            'nondet_bytes': NativeFunc('nondet_bytes', _nd_bytes),
            'nondet_bytearray': NativeFunc('nondet_bytearray', lambda ex, a, k: _nd_bytes(ex, a, k, True)),
            'ghost': NativeFunc('ghost', _ghost),
            'assume': NativeFunc('assume', lambda ex, a, k: ex.assume(ex.truth(a[0]))),
            'require': NativeFunc('require', _require),
            'same_entries': NativeFunc('same_entries', _same_entries),
            'call_arg': NativeFunc('call_arg', _call_arg),
            'ideal': NativeFunc('ideal', _ideal),
            'call_ret': NativeFunc('call_ret', _call_ret),
            'call_raised': NativeFunc('call_raised', _call_raised),
            'call_kwarg': NativeFunc('call_kwarg', _call_kwarg),
            'call_errno': NativeFunc('call_errno', _call_errno),
            'urandom_draws': NativeFunc('urandom_draws', _urandom_draws),
            'was_called': NativeFunc('was_called', lambda ex, a, k: a[0] in ex.ghost.get('call_args', {})),
            'entries_none_from': NativeFunc('entries_none_from', _entries_none_from),
        })
        return mods


class UnknownModule(N.NativeObj):
    def __init__(self, name):
        self.name = name
        self.classes = {}

    def getattr(self, ex, name):
        if name in self.classes:
            return self.classes[name]
        m = Missing('%s.%s (module outside the verified sources)' % (self.name, name))
        m.qual = '%s.%s' % (self.name, name)
        return m


class LoggingModule(N.NativeObj):
    def getattr(self, ex, name):
        if name == 'getLogger':
            return NativeFunc('getLogger', lambda ex, a, k: LOGGER)
        if name in ('DEBUG', 'INFO', 'WARNING', 'ERROR', 'CRITICAL'):
            return {'DEBUG': 10, 'INFO': 20, 'WARNING': 30, 'ERROR': 40, 'CRITICAL': 50}[name]
        return NativeFunc('logging.' + name, lambda ex, a, k: None)


class Logger(N.NativeObj):
    def getattr(self, ex, name):
        if name == 'getEffectiveLevel':
            return NativeFunc('getEffectiveLevel', lambda ex, a, k: 30)
        if name == 'isEnabledFor':
            return NativeFunc('isEnabledFor', lambda ex, a, k: False)
        return NativeFunc('log.' + name, lambda ex, a, k: None)


LOGGER = Logger()


class ReModule(N.NativeObj):
    def getattr(self, ex, name):
        if name == 'compile':
            return NativeFunc('re.compile', lambda ex, a, k: RePattern(a[0]))
        return Missing('re.' + name)


class RePattern(N.NativeObj):
    """Regular expressions: concrete subjects are matched natively; symbolic
    subjects are abstracted by an uninterpreted predicate (stated assumption)."""
    def __init__(self, pat):
        self.pat = pat

    def getattr(self, ex, name):
        if name in ('match', 'search', 'fullmatch'):
            return NativeFunc('re.' + name, lambda ex, a, k: self.run(ex, name, a))
        return Missing('re pattern.' + name)

    def run(self, ex, name, a):
        import re
        s = a[0]
        pat = self.pat
        if isinstance(pat, SBytes) and pat.conc is not None and isinstance(s, SBytes) and s.conc is not None:
            r = getattr(re.compile(bytes(pat.conc)), name)(bytes(s.conc))
            return True if r else None
        if isinstance(pat, str) and isinstance(s, str):
            r = getattr(re.compile(pat), name)(s)
            return ReMatch(r) if r else None
        h = ex.hooks.get('regex')
        if h:
            return h(ex, self, s)
        b = ex.fresh_bool('re.match')
        return True if ex.branch(b) else None


def _nd_int(ex, a, k):
    lo = a[0] if a else k.get('lo')
    hi = a[1] if len(a) > 1 else k.get('hi')
    v = SInt(z3.Int(ex.fresh_name('nd!int')))
    if lo is not None:
        ex.assume(mk_bool(v.t >= zint(lo)))
    if hi is not None:
        ex.assume(mk_bool(v.t <= zint(hi)))
    ex.nondet.append(('int', v))
    return v


def _nd_bool(ex, a, k):
    v = ex.fresh_bool('nd!bool')
    ex.nondet.append(('bool', v))
    return v


def _nd_bytes(ex, a, k, mutable=False):
    lo = a[0] if a else k.get('minlen', 0)
    hi = a[1] if len(a) > 1 else k.get('maxlen')
    if isinstance(lo, int) and (hi is None or isinstance(hi, int)):
        v = ex.fresh_bytes('nd!bytes', lo, hi, mutable)
    else:
        v = ex.fresh_bytes('nd!bytes', 0, None, mutable)
        ex.assume(mk_bool(N.zlen(v) >= zint(lo)))
        if hi is not None:
            ex.assume(mk_bool(N.zlen(v) <= zint(hi)))
    ex.nondet.append(('bytes', N.snapshot(v)))
    return v


def _require(ex, a, k):
    caller = '?'
    for fr in reversed(ex.frames[:-1]):
        if fr.func is not None:
            caller = fr.func.qualname
            break
    ex.oblige('%s/call-pre:%s' % (caller, a[1]), ex.truth(a[0]), detail='interface precondition ' + str(a[1]))


def _ideal(ex, a, k):
    """ideal(tag, outlen, *args): an idealised (collision-free, otherwise
    uninterpreted) function from byte strings/ints to a byte string of outlen
    octets: equal arguments give the same result, different arguments give
    different results (for outlen > 0).  Stated assumption for crypto (C20)."""
    tag, outlen, args = a[0], a[1], list(a[2:])
    memo = ex.ghost.setdefault('ideal', {}).setdefault(tag, [])
    for (pargs, pres) in memo:
        if len(pargs) != len(args):
            continue
        eq = N.vand(ex, [N.veq(ex, x, y) for x, y in zip(args, pargs)])
        if eq is False:
            continue
        if ex.branch(eq):
            return pres
    res = ex.fresh_bytes('ideal!' + str(tag), length=outlen)
    for (pargs, pres) in memo:
        if len(pargs) == len(args):
            ne = N.vnot(N.veq(ex, res, pres))
            ex.assume(ne)
    memo.append((args, res))
    ex.nondet.append(('bytes', N.snapshot(res)))
    return res


def _entries_none_from(ex, a, k):
    """entries lo.. of a table are None (lo may be symbolic: decided per value)"""
    lst, lo = a[0], a[1]
    items = lst.items
    if isinstance(lo, int):
        for i in range(max(lo, 0), len(items)):
            if force(ex, items[i]) is not None:
                return False
        return True
    for c in range(0, len(items) + 1):
        if ex.branch(mk_bool(zint(lo) == c)):
            return _entries_none_from(ex, [lst, c], k)
    return True


def _call_ret(ex, a, k):
    """value returned by the last call of a callee replaced by contract a[0]"""
    d = ex.ghost.get('call_ret', {})
    if a[0] not in d:
        raise Unsupported('call_ret: %s did not return on this path' % a[0])
    return d[a[0]]


def _call_kwarg(ex, a, k):
    """keyword argument a[1] of the last call of the callee replaced by contract a[0]; a[2] if it was not given"""
    env = ex.ghost.get('call_args', {}).get(a[0])
    if env is None:
        raise Unsupported('call_kwarg: %s was not called on this path' % a[0])
    return env.get(a[1], a[2])


def _call_raised(ex, a, k):
    """name of the exception class the last call of the callee replaced by contract a[0] raised, None if it
    returned (or was not called)"""
    e = ex.ghost.get('call_exc', {}).get(a[0])
    return None if e is None else e[0]


def _call_errno(ex, a, k):
    e = ex.ghost.get('call_exc', {}).get(a[0])
    if e is None:
        raise Unsupported('call_errno: %s did not raise on this path' % a[0])
    return e[1]


def _call_arg(ex, a, k):
    """argument passed at the last call of a callee replaced by contract a[0]"""
    env = ex.ghost.get('call_args', {}).get(a[0])
    if env is None or a[1] not in env:
        raise Unsupported('call_arg: %s was not called with %s on this path' % (a[0], a[1]))
    return env[a[1]]


def _same_entries(ex, a, k):
    """frame condition on a table: every entry except index `skip` is
    unchanged (same None-ness; entries never inspected are trivially unchanged)"""
    new, old, skip = a[0], a[1], a[2]
    ni, oi = new.items, old.items
    if len(ni) != len(oi):
        return False
    acc = []
    for i in range(len(ni)):
        x, y = ni[i], oi[i]
        if isinstance(x, LazyVal) and not x.forced and isinstance(y, LazyVal) and (y.link is x or y is x):
            continue
        xv, yv = force(ex, x), force(ex, y)
        same = (xv is None) == (yv is None)
        if same:
            continue
        if isinstance(skip, int):
            if i != skip:
                return False
        else:
            acc.append(mk_bool(zint(skip) == i))
    return N.vand(ex, acc) if acc else True


def _ghost(ex, a, k):
    ex.events.append(('ghost',) + tuple(a))
    h = ex.hooks.get('on_ghost')
    if h:
        return h(ex, a)
    return None


class TripleDes(N.NativeObj):
    """pyDes.triple_des(key, CBC, iv): encryption/decryption are ideal functions"""
    def __init__(self, key, iv):
        self.key, self.iv = key, iv

    def getattr(self, ex, name):
        if name in ('encrypt', 'decrypt'):
            def f(ex_, a, k, name=name):
                data = a[0]
                if not isinstance(data, SBytes):
                    ex_.throw('TypeError', 'data must be bytes')
                n = data.length if isinstance(data.length, int) else SInt(data.length)
                return _ideal(ex_, ['3des-' + name, n, self.key, self.iv, data], {})
            return NativeFunc('3des.' + name, f)
        return Missing('triple_des.' + name)


class ReMatch(N.NativeObj):
    def __init__(self, m):
        self.m = m

    def getattr(self, ex, name):
        if name == 'groups':
            return NativeFunc('groups', lambda ex, a, k: STuple(self.m.groups()))
        if name == 'group':
            return NativeFunc('group', lambda ex, a, k: self.m.group(*a))
        return Missing('re match.' + name)


def _urandom(ex, a, k):
    n = a[0]
    v = ex.fresh_bytes('urandom', length=n)
    ex.ghost.setdefault('urandom', []).append(v)     # ghost: the draws of this path, for freshness clauses
    return v


def _os_system(ex, a, k):
    """os.system(cmd): the exit status of an external command is an arbitrary integer (nothing else is modelled)"""
    v = SInt(z3.Int(ex.fresh_name('os.system')))
    ex.nondet.append(('int', v))
    return v


class FileVal(N.NativeObj):
    """what open() returns for a file outside the verified sources: read() yields arbitrary octets"""
    def __init__(self, binary):
        self.binary = binary

    def getattr(self, ex, name):
        if name == 'read':
            if not self.binary:
                return Missing('read() of a text file')
            return NativeFunc('file.read', lambda ex_, a, k: ex_.fresh_bytes('file.read'))
        if name == 'close':
            return NativeFunc('file.close', lambda ex_, a, k: None)
        return Missing('file.' + name)


def b_open(ex, a, k):
    """open(path, mode): the file system is not modelled - the call fails with an OSError or returns a file of
    arbitrary content"""
    mode = a[1] if len(a) > 1 else k.get('mode', 'r')
    if ex.choose(2) == 1:
        ex.throw('FileNotFoundError', 'No such file or directory')
    return FileVal(isinstance(mode, str) and 'b' in mode)


def _thread_start(ex, a, k):
    """Thread.start() / Timer.start(): threads are not executed.  Every contract is verified under the assumption
    that the function runs sequentially in its caller's thread; code that starts a thread of its own leaves that
    assumption.  With the contract hook no_threads this is an obligation (C15: a driver call that spawns a thread
    lets a second thread drive the device); otherwise the contract is undecided."""
    ex.ghost['threads_started'] = ex.ghost.get('threads_started', 0) + 1
    if ex.hooks.get('no_threads'):
        ex.oblige('starts-no-thread', False,
                  detail='the function under contract starts a thread (Thread/Timer.start()): the started thread '
                         'runs outside the caller\'s lock')
        return None
    raise Unsupported('Thread.start() in code under contract (threads are not executed)')


def _urandom_draws(ex, a, k):
    """spec builtin: the values os.urandom returned so far on this path (since function entry)"""
    return STuple(ex.ghost.get('urandom', []))


def _time_time(ex, a, k):
    last = ex.ghost.get('time')
    t = z3.Real(ex.fresh_name('time'))
    if last is not None:
        ex.assume(t >= last)
    else:
        ex.assume(t >= 0)
    ex.ghost['time'] = t
    return SInt(t)


def _deque(ex, a, k):
    l = SList([], 'deque')
    if a:
        for x in N.iterate(ex, a[0]):
            l.items.append(x)
    return l


def _defaultdict(ex, a, k):
    d = SDict(a[0] if a else None)
    return d


def _select(ex, a, k):
    """select.select(rlist, wlist, xlist[, timeout]): the first readable is ready, or nothing is (timeout)"""
    if ex.branch(_nd_bool(ex, [], {})):       # recorded like nondet_bool(): the native replay answers the same
        return STuple((a[0], SList([]), SList([])))
    return STuple((SList([]), SList([]), SList([])))


def _contextmanager(ex, a, k):
    f = a[0]
    if not isinstance(f, FuncVal):
        raise Unsupported('contextlib.contextmanager on %r' % (f,))
    f.is_ctxgen = True       # calling it yields a CtxGenInst; st_With runs the body inline
    return f


def _hexlify(ex, a, k):
    b = a[0]
    if isinstance(b, SBytes) and b.conc is not None:
        import binascii
        return SBytes.concrete(binascii.hexlify(bytes(b.conc)))
    if b is None or is_num(b) or isinstance(b, str):
        ex.throw('TypeError', "a bytes-like object is required")
    if isinstance(b, SBytes):
        r = ex.fresh_bytes('hexlify')
        r.ascii_only = True          # hex digits: decode() never fails
        return r
    return OPAQUE


def _unhexlify(ex, a, k):
    b = a[0]
    import binascii
    if isinstance(b, SBytes) and b.conc is not None:
        try:
            return SBytes.concrete(binascii.unhexlify(bytes(b.conc)))
        except binascii.Error as e:
            ex.throw('binascii.Error', str(e))
    if isinstance(b, str):
        try:
            return SBytes.concrete(binascii.unhexlify(b))
        except binascii.Error as e:
            ex.throw('binascii.Error', str(e))
    if isinstance(b, SBytes):
        n = b.concrete_len()
        if n is None or n > 16:
            raise Unsupported('unhexlify of symbolic octets without a small concrete length')
        if n % 2:
            ex.throw('binascii.Error', 'Odd-length string')
        snap = N.snapshot(b)

        def ishex(t):
            return z3.Or(z3.And(t >= 48, t <= 57), z3.And(t >= 65, t <= 70), z3.And(t >= 97, t <= 102))

        def val(t):
            return z3.If(t <= 57, t - 48, z3.If(t <= 70, t - 55, t - 87))
        ts = [N._z(snap.at(i)) for i in range(n)]
        if not ex.branch(mk_bool(z3.And([ishex(t) for t in ts]) if ts else z3.BoolVal(True))):
            ex.throw('binascii.Error', 'Non-hexadecimal digit found')
        return N.bytes_from_terms([z3.simplify(16 * val(ts[2 * i]) + val(ts[2 * i + 1])) for i in range(n // 2)])
    raise Unsupported('unhexlify symbolic')


def _random_choice(ex, a, k):
    l = a[0]
    if isinstance(l, SList) and l.mid is None:
        items = l.items
        if not items:
            ex.throw('IndexError', 'Cannot choose from an empty sequence')
        if all(is_num(x) for x in items) and len(items) > 8:
            i = ex.fresh_int('choice', 0, len(items) - 1)
            return N.select_concrete(ex, items, i)
        return items[ex.choose(len(items))]
    raise Unsupported('random.choice')


class CountVal(object):
    def __init__(self, start, step):
        self.start, self.step = start, step


def _count(ex, a, k):
    start = a[0] if a else k.get('start', 0)
    step = a[1] if len(a) > 1 else k.get('step', 1)
    return CountVal(start, step)


def _reduce(ex, a, k):
    f, it = a[0], list(N.iterate(ex, a[1]))
    if len(a) > 2:
        acc = a[2]
    else:
        if not it:
            ex.throw('TypeError', 'reduce() of empty sequence')
        acc, it = it[0], it[1:]
    for x in it:
        acc = ex.call(f, [acc, x], {})
    return acc


def _floor(ex, a, k):
    import math
    v = a[0]
    if isinstance(v, (int, float)):
        return math.floor(v)
    if isinstance(v, SInt) and v.t.sort() == z3.RealSort():
        return mk_int(z3.ToInt(v.t))
    if isinstance(v, SInt):
        return v
    raise Unsupported('floor')


def _ceil(ex, a, k):
    import math
    if isinstance(a[0], (int, float)):
        return math.ceil(a[0])
    raise Unsupported('ceil symbolic')


# ---------------------------------------------------------------- builtins
def b_len(ex, a, k):
    v = a[0]
    if isinstance(v, SBytes):
        return v.length if isinstance(v.length, int) else mk_int(v.length)
    if isinstance(v, SList):
        return ex.seq_len(v)
    if isinstance(v, (str, tuple)):
        return len(v)
    if isinstance(v, SDict):
        if v.sym:
            raise Unsupported('len of dict with symbolic keys')
        return len(v.d)
    if isinstance(v, SSet):
        if v.ranges or v.minus is not None or v.pred is not None:
            return N.set_len(ex, v)
        return len(v.d)
    if isinstance(v, RangeVal):
        return ex.range_len(v)
    if isinstance(v, SObj):
        f, _ = v.cls.lookup('__len__')
        if isinstance(f, FuncVal):
            return ex.call(BoundMethod(v, f), [], {})
        h = ex.hooks.get('native_len')
        if h:
            r = h(ex, v)
            if r is not NotImplemented:
                return r
        ex.throw('TypeError', "object of type '%s' has no len()" % v.cls.name)
    if isinstance(v, SStr):
        raise Unsupported('len of symbolic string')
    ex.throw('TypeError', "object of type '%s' has no len()" % N.tname(v))


def b_range(ex, a, k):
    for x in a:
        if not is_num(x) or isinstance(x, float):
            ex.throw('TypeError', "'%s' object cannot be interpreted as an integer" % N.tname(x))
    if len(a) == 1:
        return RangeVal(0, a[0], 1)
    if len(a) == 2:
        return RangeVal(a[0], a[1], 1)
    st = a[2]
    if isinstance(st, int) and st == 0:
        ex.throw('ValueError', 'range() arg 3 must not be zero')
    if isinstance(st, SInt):
        if ex.branch(mk_bool(st.t == 0)):
            ex.throw('ValueError', 'range() arg 3 must not be zero')
    return RangeVal(a[0], a[1], st)


def class_of(ex, v):
    B = ex.world.bclasses
    if v is None:
        return B['NoneType']
    if isinstance(v, (bool, SBool)):
        return B['bool']
    if isinstance(v, (int, SInt)):
        if isinstance(v, SInt) and v.t.sort() == z3.RealSort():
            return B['float']
        return B['int']
    if isinstance(v, float):
        return B['float']
    if isinstance(v, (str, SStr)):
        return B['str']
    if isinstance(v, SBytes):
        return B['bytearray'] if v.mutable else B['bytes']
    if isinstance(v, SList):
        return B['deque'] if v.kind == 'deque' else B['list']
    if isinstance(v, tuple):
        return B['tuple']
    if isinstance(v, SDict):
        return B['defaultdict'] if v.default_factory is not None else B['dict']
    if isinstance(v, SSet):
        return B['set']
    if isinstance(v, SObj):
        return v.cls
    if isinstance(v, ClassVal):
        return B['type']
    if isinstance(v, (FuncVal, BoundMethod, NativeFunc, NativeMethod)):
        return B['function']
    if isinstance(v, ModuleVal):
        return B['module']
    if isinstance(v, RangeVal):
        return B['range']
    if isinstance(v, slice):
        return B['slice']
    if isinstance(v, LockVal):
        return B['Lock']
    if isinstance(v, CondVal):
        return B['Condition']
    raise Unsupported('type of %r' % (v,))


def b_isinstance(ex, a, k):
    v, spec = a
    if isinstance(spec, tuple):
        return any(b_isinstance(ex, [v, s], {}) for s in spec)
    if isinstance(spec, Missing):
        raise Unsupported('isinstance against missing class: %s' % spec.why)
    if not isinstance(spec, ClassVal):
        if isinstance(spec, NativeFunc) and spec.name == 'collections.deque':
            return isinstance(v, SList) and v.kind == 'deque'
        ex.throw('TypeError', 'isinstance() arg 2 must be a type or tuple of types')
    return class_of(ex, v).issubclass(spec)


def b_issubclass(ex, a, k):
    c, spec = a
    if isinstance(spec, tuple):
        return any(c.issubclass(s) for s in spec)
    return c.issubclass(spec)


def b_type(ex, a, k):
    if len(a) == 1:
        return class_of(ex, a[0])
    raise Unsupported('type() with three arguments')


def b_int(ex, a, k):
    if not a:
        return 0
    v = a[0]
    if len(a) > 1 or 'base' in k:
        base = a[1] if len(a) > 1 else k['base']
        if isinstance(v, str) and isinstance(base, int):
            try:
                return int(v, base)
            except ValueError as e:
                ex.throw('ValueError', str(e))
        if isinstance(v, SBytes) and v.conc is not None:
            try:
                return int(bytes(v.conc), base)
            except ValueError as e:
                ex.throw('ValueError', str(e))
        raise Unsupported('int(symbolic, base)')
    if isinstance(v, bool):
        return int(v)
    if isinstance(v, int):
        return v
    if isinstance(v, SBool):
        return mk_int(zint(v))
    if isinstance(v, SInt):
        if v.t.sort() == z3.RealSort():
            return mk_int(z3.If(v.t >= 0, z3.ToInt(v.t), -z3.ToInt(-v.t)))
        return v
    if isinstance(v, float):
        return int(v)
    if isinstance(v, str):
        try:
            return int(v)
        except ValueError as e:
            ex.throw('ValueError', str(e))
    if isinstance(v, SBytes) and v.conc is not None:
        try:
            return int(bytes(v.conc))
        except ValueError as e:
            ex.throw('ValueError', str(e))
    if isinstance(v, SObj):
        f, _ = v.cls.lookup('__int__')
        if isinstance(f, FuncVal):
            return ex.call(BoundMethod(v, f), [], {})
        ex.throw('TypeError', "int() argument must be a string, a bytes-like object or a real number")
    if v is None or isinstance(v, (SList, tuple, SDict)):
        ex.throw('TypeError', "int() argument must be a string, a bytes-like object or a real number")
    raise Unsupported('int(%r)' % (v,))


def b_bool(ex, a, k):
    if not a:
        return False
    return ex.truth(a[0])


def b_float(ex, a, k):
    v = a[0]
    if isinstance(v, (int, float)):
        return float(v)
    if isinstance(v, SInt):
        return SInt(N.to_real(v))
    raise Unsupported('float(%r)' % (v,))


def b_bytes(ex, a, k, mutable=False):
    if not a:
        return SBytes.concrete(b'', mutable)
    v = a[0]
    if isinstance(v, SBytes):
        v.commit()
        return N.clone_meta(v, SBytes(v.length, v._at, mutable, conc=v.conc))
    if isinstance(v, bool):
        v = int(v)
    if isinstance(v, int):
        if v < 0:
            ex.throw('ValueError', 'negative count')
        return SBytes.concrete(bytes(v), mutable)
    if isinstance(v, SInt):
        if ex.branch(mk_bool(v.t < 0)):
            ex.throw('ValueError', 'negative count')
        return SBytes(v.t, lambda i: 0, mutable)
    if isinstance(v, SList) and v.mid is not None and getattr(v.mid, 'const', None) is not None \
            and not v.left and not v.right:
        c = v.mid.const
        if ex.branch(mk_bool(zint(mk_int(v.mid.length)) > 0)):
            M.byte_value(ex, c)
        return SBytes(v.mid.length, lambda i, c=c: c if isinstance(c, int) else zint(c), mutable)
    if isinstance(v, (SList, tuple, RangeVal)):
        items = list(N.iterate(ex, v))
        for x in items:
            M.byte_value(ex, x)
        return N.bytes_from_terms([x if isinstance(x, int) else zint(x) for x in items], mutable)
    if isinstance(v, str):
        if len(a) > 1 or 'encoding' in k:
            enc = a[1] if len(a) > 1 else k['encoding']
            try:
                return SBytes.concrete(v.encode(enc), mutable)
            except UnicodeEncodeError:
                ex.throw('UnicodeEncodeError', 'encode')
        ex.throw('TypeError', 'string argument without an encoding')
    if v is None:
        ex.throw('TypeError', "cannot convert 'NoneType' object to bytes")
    if isinstance(v, SObj):
        f, _ = v.cls.lookup('__bytes__')
        if isinstance(f, FuncVal):
            return ex.call(BoundMethod(v, f), [], {})
        ex.throw('TypeError', "cannot convert '%s' object to bytes" % v.cls.name)
    if isinstance(v, SStr):
        ex.throw('TypeError', 'string argument without an encoding')
    raise Unsupported('bytes(%r)' % (v,))


def b_bytearray(ex, a, k):
    return b_bytes(ex, a, k, True)


def b_str(ex, a, k):
    if not a:
        return ''
    v = a[0]
    if isinstance(v, (str, SStr)):
        return v
    if isinstance(v, (int, float)) or v is None:
        return str(v)
    if isinstance(v, SObj):
        f, c = v.cls.lookup('__str__')
        if isinstance(f, FuncVal) and not ex.hooks.get('opaque_str', True):
            return ex.call(BoundMethod(v, f), [], {})
        return OPAQUE
    if isinstance(v, SBytes) and len(a) > 1:
        return M.bytes_method(ex, v, 'decode', a[1:], k)
    return OPAQUE


def b_list(ex, a, k):
    if not a:
        return SList([])
    v = a[0]
    if isinstance(v, SList) and v.mid is not None:
        n = SList(list(v.left))
        n.mid = v.mid
        n.right = list(v.right)
        return n
    return SList(list(N.iterate(ex, v)))


def b_tuple(ex, a, k):
    if not a:
        return STuple()
    return STuple(N.iterate(ex, a[0]))


def b_dict(ex, a, k):
    d = SDict()
    if a:
        M.dict_method(ex, d, 'update', [a[0]], {})
    for kk, v in k.items():
        d.d[kk] = (kk, v)
    return d


def b_set(ex, a, k):
    if a and isinstance(a[0], RangeVal) and a[0].step == 1 and N.range_is_big(a[0]):
        s = SSet()
        s.ranges.append((a[0].start, a[0].stop))
        return s
    if a and isinstance(a[0], SSet) and (a[0].ranges or a[0].minus is not None or a[0].pred is not None):
        return N.copy_set(a[0])
    return N.make_set(ex, list(N.iterate(ex, a[0])) if a else [])


def b_slice(ex, a, k):
    if len(a) == 1:
        return slice(None, a[0], None)
    if len(a) == 2:
        return slice(a[0], a[1], None)
    return slice(a[0], a[1], a[2])


def b_minmax(which):
    def f(ex, a, k):
        items = list(N.iterate(ex, a[0])) if len(a) == 1 else list(a)
        key = k.get('key')
        if not items:
            if 'default' in k:
                return k['default']
            ex.throw('ValueError', '%s() arg is an empty sequence' % which)
        best = items[0]
        bk = ex.call(key, [best], {}) if key else best
        for x in items[1:]:
            xk = ex.call(key, [x], {}) if key else x
            if not (is_num(xk) and is_num(bk)):
                c = N.compare(ex, ast.Lt() if which == 'min' else ast.Gt(), xk, bk)
                if ex.branch(ex.truth(c)):
                    best, bk = x, xk
                continue
            if not is_symbolic(xk) and not is_symbolic(bk):
                if (xk < bk) if which == 'min' else (xk > bk):
                    best, bk = x, xk
            elif key is None:
                if N.is_real(xk) or N.is_real(bk):
                    zx, zb = N.to_real(xk), N.to_real(bk)
                else:
                    zx, zb = zint(xk), zint(bk)
                c = zx < zb if which == 'min' else zx > zb
                best = mk_int(z3.If(c, zx, zb))
                bk = best
            else:
                c = mk_bool(zint(xk) < zint(bk) if which == 'min' else zint(xk) > zint(bk))
                if ex.branch(c):
                    best, bk = x, xk
        return best
    return f


def seg_sum(ex, seg):
    """uninterpreted sum measure of a symbolic segment, with ground facts"""
    import hashlib
    h = hashlib.sha1(str(seg.tag).encode()).hexdigest()[:8]
    fn = z3.Function('sum!' + h, z3.IntSort(), z3.IntSort(), z3.IntSort())
    t = fn(zint(seg.start), zint(seg.length))
    ex.fact(z3.Implies(zint(seg.length) == 0, t == 0))
    reg = ex.ghost.setdefault('measures', {})
    base = getattr(seg, 'src', seg)
    reg.setdefault(str(base.tag), {})[h] = (fn, getattr(seg, 'fmap', None))
    return t


def b_sum(ex, a, k):
    if isinstance(a[0], SBytes):
        r = N.bytes_sum(ex, a[0])
        return N.binop(ex, ast.Add(), a[1], r) if len(a) > 1 else r
    if isinstance(a[0], SList) and a[0].mid is not None:
        l = a[0]
        acc = a[1] if len(a) > 1 else 0
        for x in l.left + l.right:
            acc = N.binop(ex, ast.Add(), acc, x)
        return mk_int(zint(acc) + seg_sum(ex, l.mid))
    items = N.iterate(ex, a[0])
    acc = a[1] if len(a) > 1 else 0
    for x in items:
        acc = N.binop(ex, ast.Add(), acc, x)
    return acc


def b_abs(ex, a, k):
    v = a[0]
    if isinstance(v, (int, float)):
        return abs(v)
    return mk_int(z3.If(zint(v) >= 0, zint(v), -zint(v)))


def b_sorted(ex, a, k):
    l = a[0]
    if isinstance(l, SList) and l.mid is not None and not l.left and not l.right:
        # a permutation of the segment; the order is abstracted away
        perm = z3.Function(ex.fresh_name('perm'), z3.IntSort(), z3.IntSort())
        mid = l.mid
        ex.notes.append('sorted() over a symbolic list is abstracted to an arbitrary permutation')

        def elem(i):
            j = perm(i)
            ex.fact(z3.And(j >= zint(mid.start), j < zint(mid.start) + zint(mid.length)))
            return mid.elem(j)
        out = SList([])
        out.mid = SymSeg(mid.length, elem, 0, tag='%s|sorted' % mid.tag)
        return out
    return SList(M.sort_values(ex, list(N.iterate(ex, a[0])), k.get('key'), k.get('reverse', False)))


def b_reversed(ex, a, k):
    return SList(list(reversed(list(N.iterate(ex, a[0])))))


class EnumVal(object):
    """enumerate() over a byte string of symbolic length (annotated loops take it lazily)"""
    def __init__(self, seq, start):
        self.seq, self.start = seq, start


def b_enumerate(ex, a, k):
    start = a[1] if len(a) > 1 else k.get('start', 0)
    if isinstance(a[0], SBytes) and a[0].concrete_len() is None:
        return EnumVal(a[0], start)
    return SList([STuple((N.binop(ex, ast.Add(), start, i), x)) for i, x in enumerate(N.iterate(ex, a[0]))])


def b_zip(ex, a, k):
    its = [list(N.iterate(ex, x)) for x in a]
    return SList([STuple(t) for t in zip(*its)])


def b_map(ex, a, k):
    f = a[0]
    its = [list(N.iterate(ex, x)) for x in a[1:]]
    return SList([ex.call(f, list(t), {}) for t in zip(*its)])


def b_filter(ex, a, k):
    f = a[0]
    l = a[1]
    if isinstance(l, SList) and l.mid is not None and f is None:
        probe = l.mid.elem(z3.Int(ex.fresh_name('probe')))
        if ex.truth(probe) is True and all(ex.truth(x) is True for x in l.left + l.right):
            out = SList(list(l.left))
            out.mid = l.mid
            out.right = list(l.right)
            return out
        raise Unsupported('filter over a symbolic list whose elements may be falsy')
    out = []
    for x in N.iterate(ex, a[1]):
        t = ex.truth(x) if f is None else ex.truth(ex.call(f, [x], {}))
        if ex.branch(t):
            out.append(x)
    return SList(out)


def b_any(ex, a, k):
    for x in N.iterate(ex, a[0]):
        if ex.branch(ex.truth(x)):
            return True
    return False


def b_all(ex, a, k):
    for x in N.iterate(ex, a[0]):
        if not ex.branch(ex.truth(x)):
            return False
    return True


def b_getattr(ex, a, k):
    if not isinstance(a[1], str):
        raise Unsupported('getattr with symbolic name')
    if len(a) == 2:
        return ex.getattr(a[0], a[1])
    try:
        return ex.getattr(a[0], a[1])
    except PyRaise as e:
        if e.exc.cls.issubclass(ex.world.bclasses['AttributeError']):
            return a[2]
        raise


def b_hasattr(ex, a, k):
    try:
        ex.getattr(a[0], a[1])
        return True
    except PyRaise as e:
        if e.exc.cls.issubclass(ex.world.bclasses['AttributeError']):
            return False
        raise


def b_setattr(ex, a, k):
    ex.setattr(a[0], a[1], a[2])


def b_super(ex, a, k):
    return SuperVal(a[0], a[1])


def b_property(ex, a, k):
    return PropertyVal(a[0] if a else k.get('fget'), a[1] if len(a) > 1 else k.get('fset'))


def b_hex(ex, a, k):
    if isinstance(a[0], int):
        return hex(a[0])
    return OPAQUE


def b_chr(ex, a, k):
    if isinstance(a[0], int):
        return chr(a[0])
    return OPAQUE


def b_ord(ex, a, k):
    v = a[0]
    if isinstance(v, str) and len(v) == 1:
        return ord(v)
    if isinstance(v, SBytes):
        if not ex.branch(mk_bool(N.zlen(v) == 1)):
            ex.throw('TypeError', 'ord() expected a character')
        return mk_int(v.at(0))
    raise Unsupported('ord')


def b_divmod(ex, a, k):
    return STuple((N.floordiv(ex, a[0], a[1]), N.pymod(ex, a[0], a[1])))


def b_pow(ex, a, k):
    if len(a) == 2:
        return N.num_binop(ex, ast.Pow(), a[0], a[1])
    raise Unsupported('pow with modulus')


def b_iter(ex, a, k):
    v = a[0]
    if isinstance(v, SObj):
        f, _ = v.cls.lookup('__iter__')
        if isinstance(f, FuncVal):
            return ex.call(BoundMethod(v, f), [], {})
    return IterVal(list(N.iterate(ex, v)))


def b_next(ex, a, k):
    it = a[0]
    if isinstance(it, IterVal):
        if it.pos < len(it.items):
            it.pos += 1
            return it.items[it.pos - 1]
        if len(a) > 1:
            return a[1]
        ex.throw('StopIteration')
    if isinstance(it, SObj):
        f, _ = it.cls.lookup('__next__')
        if isinstance(f, FuncVal):
            return ex.call(BoundMethod(it, f), [], {})
    raise Unsupported('next')


def b_callable(ex, a, k):
    v = a[0]
    if isinstance(v, (FuncVal, BoundMethod, NativeFunc, NativeMethod, ClassVal)):
        return True
    if isinstance(v, SObj):
        f, _ = v.cls.lookup('__call__')
        return f is not None
    return False


def b_id(ex, a, k):
    return id(a[0])


def b_repr(ex, a, k):
    if isinstance(a[0], (int, str)) and not isinstance(a[0], bool):
        return repr(a[0])
    return OPAQUE


def b_round(ex, a, k):
    if isinstance(a[0], (int, float)):
        return round(*a)
    raise Unsupported('round symbolic')


def b_memoryview(ex, a, k):
    v = a[0]
    if isinstance(v, SBytes):
        return v
    ex.throw('TypeError', 'memoryview: a bytes-like object is required')


def b_staticmethod(ex, a, k):
    return StaticMethodVal(a[0])


def b_classmethod(ex, a, k):
    return ClassMethodVal(a[0])


def b_eval(ex, a, k):
    s = a[0]
    if not isinstance(s, str):
        raise Unsupported('eval of symbolic string')
    node = ast.parse(s, mode='eval').body
    return ex.eval(node)


def b_vars(ex, a, k):
    raise Unsupported('vars()')


def b_print(ex, a, k):
    return None


def b_bin(ex, a, k):
    if isinstance(a[0], int):
        return bin(a[0])
    return OPAQUE


def b_format(ex, a, k):
    if all(isinstance(x, (int, str)) for x in a):
        return format(*a)
    return OPAQUE


def b_set_within(ex, a, k):
    """spec helper: every member of the (interval) set lies in [lo, hi)"""
    st, lo, hi = a
    if not isinstance(st, SSet) or st.minus is not None:
        raise Unsupported('set_within on %r' % (st,))
    cs = []
    for x in st.d.values():
        cs.append(mk_bool(z3.And(zint(x) >= zint(lo), zint(x) < zint(hi))))
    for a_, b_ in st.ranges:
        cs.append(mk_bool(z3.Or(zint(b_) <= zint(a_), z3.And(zint(a_) >= zint(lo), zint(b_) <= zint(hi)))))
    if st.pred is not None:
        cs.append(mk_bool(z3.And(z3.IntVal(st.pred[0]) >= zint(lo), z3.IntVal(st.pred[1]) <= zint(hi))))
    return N.vand(ex, cs) if cs else True


BUILTIN_FUNCS = {
    'set_within': b_set_within, 'open': b_open,
    'len': b_len, 'range': b_range, 'isinstance': b_isinstance, 'issubclass': b_issubclass,
    'min': b_minmax('min'), 'max': b_minmax('max'), 'sum': b_sum, 'abs': b_abs, 'sorted': b_sorted,
    'reversed': b_reversed, 'enumerate': b_enumerate, 'zip': b_zip, 'map': b_map, 'filter': b_filter,
    'any': b_any, 'all': b_all, 'getattr': b_getattr, 'hasattr': b_hasattr, 'setattr': b_setattr,
    'super': b_super, 'property': b_property, 'hex': b_hex, 'chr': b_chr, 'ord': b_ord,
    'divmod': b_divmod, 'pow': b_pow, 'iter': b_iter, 'next': b_next, 'callable': b_callable,
    'id': b_id, 'repr': b_repr, 'round': b_round, 'staticmethod': b_staticmethod,
    'classmethod': b_classmethod, 'eval': b_eval, 'print': b_print, 'bin': b_bin, 'format': b_format,
    'vars': b_vars,
}

CONSTRUCTORS = {
    'int': b_int, 'bool': b_bool, 'float': b_float, 'bytes': b_bytes, 'bytearray': b_bytearray,
    'str': b_str, 'list': b_list, 'tuple': b_tuple, 'dict': b_dict, 'set': b_set, 'frozenset': b_set,
    'type': b_type, 'memoryview': b_memoryview, 'range': b_range, 'slice': b_slice,
}


def _resolve_class(self, ex, name):
    if isinstance(name, ClassVal):
        return name
    if name in self.bclasses:
        return self.bclasses[name]
    if ':' in name:
        modname, path = name.split(':')
    else:
        parts = name.split('.')
        modname, path = None, None
        for i in range(len(parts) - 1, 0, -1):
            cand = '.'.join(parts[:i])
            if self.find_source(cand) is not None:
                modname, path = cand, '.'.join(parts[i:])
                break
        if modname is None:
            raise Unsupported('cannot resolve class %r' % name)
    m = self.import_module(ex, modname)
    if isinstance(getattr(m, 'native', None), UnknownModule) and '.' not in path:
        # exception class of a module outside the verified sources (named in an assumed raises-clause): a
        # fresh subclass of Exception, the same object for every later `except mod.Cls`
        fc = m.native.classes.get(path)
        if fc is None:
            fc = ClassVal(path, '%s.%s' % (modname, path), [self.bclasses['Exception']], module=m)
            m.native.classes[path] = fc
        return fc
    v = m
    for p in path.split('.'):
        if isinstance(v, ModuleVal):
            v = self.module_attr(ex, v, p)
        elif isinstance(v, ClassVal):
            v, _ = v.lookup(p)
        else:
            raise Unsupported('cannot resolve class %r' % name)
    if not isinstance(v, ClassVal):
        raise Unsupported('%r is not a class' % name)
    return v


def _spec_globals(self, ex):
    if getattr(self, '_specg', None) is None:
        g = {}
        for pkg in ('specs', 'models'):
            base = self.roots.get(pkg)
            if base and os.path.isdir(base):
                for fn in sorted(os.listdir(base)):
                    if fn.endswith('.py') and fn != '__init__.py':
                        m = self.import_module(ex, pkg + '.' + fn[:-3])
                        for k, v in m.globals.items():
                            if not k.startswith('__'):
                                g[k] = v
        self._specg = g
    return self._specg


def _spec_module(self, ex):
    return ModuleVal('<spec>', dict(self.spec_globals(ex)))


World.resolve_class = _resolve_class
World.spec_globals = _spec_globals
World.spec_module = _spec_module
