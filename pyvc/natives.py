"""Built-in semantics for pyvc: operators, containers, struct, builtins."""
import ast
import struct as _struct
import z3

from .values import *   # noqa
from .interp import PyRaise, ReturnEx, BreakEx, ContinueEx


# ---------------------------------------------------------------- utilities
def zi(v):
    return zint(v)


def as_len(b):
    return b.length if isinstance(b.length, int) else b.length


def zlen(b):
    return z3.IntVal(b.length) if isinstance(b.length, int) else b.length


def bytes_from_terms(terms, mutable=False):
    if all(isinstance(t, int) for t in terms):
        return SBytes.concrete(bytes(terms), mutable)
    terms = [t if not isinstance(t, int) else z3.IntVal(t) for t in terms]
    n = len(terms)

    def at(i):
        if isinstance(i, int):
            return terms[i]
        i = z3.simplify(i)
        if z3.is_int_value(i):
            k = i.as_long()
            return terms[k] if 0 <= k < n else z3.IntVal(0)
        r = terms[n - 1] if n else z3.IntVal(0)
        for k in range(n - 2, -1, -1):
            r = z3.If(i == k, terms[k], r)
        return r
    return SBytes(n, at, mutable)


def clone_meta(src, dst):
    dst.origin = src.origin
    dst.parts = src.parts
    return dst


def bytes_concat(a, b, mutable=False):
    a.commit()
    b.commit()
    if a.conc is not None and b.conc is not None:
        return SBytes.concrete(bytes(a.conc + b.conc), mutable)
    if isinstance(a.length, int) and a.length == 0:
        return clone_meta(b, SBytes(b.length, b.at, mutable, conc=b.conc))
    if isinstance(b.length, int) and b.length == 0:
        return clone_meta(a, SBytes(a.length, a.at, mutable, conc=a.conc))
    la = a.length
    if isinstance(la, int) and isinstance(b.length, int):
        ln = la + b.length
    else:
        ln = z3.simplify(zlen(a) + zlen(b))
        if z3.is_int_value(ln):
            ln = ln.as_long()
    aa, ba = a.at, b.at

    def at(i):
        if isinstance(i, int) and isinstance(la, int):
            return aa(i) if i < la else ba(i - la)
        i_ = z3.IntVal(i) if isinstance(i, int) else i
        c = z3.simplify(i_ < la)
        if z3.is_true(c):
            return aa(i)
        if z3.is_false(c):
            return ba(z3.simplify(i_ - la))
        return z3.If(c, _z(aa(i_)), _z(ba(z3.simplify(i_ - la))))
    r = SBytes(ln, at, mutable)
    r.parts = (a.parts or [a]) + (b.parts or [b])
    return r


def bytes_sum(ex, b):
    """sum(b) for a byte string"""
    n = b.concrete_len()
    if n is not None and (b.parts is None or n <= 64):
        t = z3.IntVal(0)
        for i in range(n):
            t = t + _z(b.at(i))
        return mk_int(t)
    if b.origin is not None:
        f, off, name = b.origin
        ps = ex.prefix_sum(f, name)
        lo = zi(off)
        hi = z3.simplify(lo + zlen(b))
        t = ps(hi) - ps(lo)
        ex.fact(z3.Implies(zlen(b) >= 0, z3.And(t >= 0, t <= 255 * zlen(b))))
        return mk_int(t)
    if b.parts:
        t = z3.IntVal(0)
        for p in b.parts:
            t = t + zi(bytes_sum(ex, p))
        return mk_int(t)
    raise Unsupported('sum over a symbolic-length byte string without known structure')


def _z(t):
    return z3.IntVal(t) if isinstance(t, int) else t


def norm_slice(ex, n, lo, hi):
    """Python slice clamping for step 1. n, lo, hi: int | SInt | None -> (lo', len)"""
    if lo is None:
        lo = 0
    if hi is None:
        hi = n
    if all(isinstance(x, int) for x in (n, lo, hi)):
        lo2, hi2, _ = slice(lo, hi).indices(n)
        return lo2, max(hi2 - lo2, 0)
    zn, zl, zh = zi(n), zi(lo), zi(hi)

    def clamp(v, zv):
        if isinstance(v, int) and v == 0:
            return z3.IntVal(0)
        if isinstance(v, int) and v > 0:
            if ex.check(zv > zn) == z3.unsat:
                return zv
            return z3.If(zv > zn, zn, zv)
        if isinstance(v, int) and v < 0:
            return z3.If(zv + zn < 0, 0, zv + zn)
        if v is n:
            return zn
        return z3.If(zv < 0, z3.If(zv + zn < 0, 0, zv + zn), z3.If(zv > zn, zn, zv))
    lo2 = clamp(lo, zl)
    hi2 = clamp(hi, zh)
    lo2 = mk_int(lo2)
    ln = mk_int(z3.If(zi(mk_int(hi2)) - zi(lo2) > 0, zi(mk_int(hi2)) - zi(lo2), 0))
    return lo2, ln


def bytes_slice(ex, b, sl, mutable=None):
    if mutable is None:
        mutable = b.mutable
    if sl.step is not None and sl.step != 1:
        if sl.step == -1 and sl.start is None and sl.stop is None:
            n = b.length
            if b.conc is not None:
                return SBytes.concrete(bytes(b.conc[::-1]), mutable)
            base = b.at

            def rat(i):
                return base(z3.simplify(zlen(b) - 1 - _z(i)))
            return SBytes(n, rat, mutable)
        if b.conc is not None and all(isinstance(x, (int, type(None))) for x in (sl.start, sl.stop, sl.step)):
            return SBytes.concrete(bytes(b.conc[sl.start:sl.stop:sl.step]), mutable)
        if isinstance(b.length, int) and all(isinstance(x, (int, type(None))) for x in (sl.start, sl.stop, sl.step)):
            idx = list(range(b.length))[sl.start:sl.stop:sl.step]
            return bytes_from_terms([b.at(i) for i in idx], mutable)
        raise Unsupported('bytes slice with step')
    n = b.length if isinstance(b.length, int) else SInt(b.length)
    lo, ln = norm_slice(ex, n, sl.start, sl.stop)
    pend = None
    if b.watch is not None:
        w = b.watch
        pend = lambda: w(lo, mk_int(zi(lo) + zi(ln)))   # noqa
    elif b.pending is not None:
        pend = b.commit
    if b.conc is not None and isinstance(lo, int) and isinstance(ln, int):
        r = SBytes.concrete(bytes(b.conc[lo:lo + ln]), mutable)
        r.pending = pend
        return r
    base = b.at
    if isinstance(lo, int):
        if lo == 0:
            at = base
        else:
            def at(i):
                return base(i + lo) if isinstance(i, int) else base(z3.simplify(i + lo))
    else:
        zlo = lo.t

        def at(i):
            return base(z3.simplify(_z(i) + zlo))
    r = SBytes(ln if isinstance(ln, int) else ln.t, at, mutable)
    r.pending = pend
    if b.origin is not None:
        r.origin = (b.origin[0], mk_int(zi(b.origin[1]) + zi(lo)), b.origin[2])
    elif b.parts is not None and isinstance(lo, int) and sl.stop is None:
        acc = 0
        for k, part in enumerate(b.parts):
            if acc == lo:
                r.parts = b.parts[k:]
                break
            if not isinstance(part.length, int):
                break
            acc += part.length
    return r


def teq(x, y):
    """equality of two byte terms (ints, Int terms or bit-vector terms)"""
    if isinstance(x, z3.BitVecRef) or isinstance(y, z3.BitVecRef):
        w = (x if isinstance(x, z3.BitVecRef) else y).size()
        return bv_of(mk_int(x), w) == bv_of(mk_int(y), w)
    return _z(x) == _z(y)


def bytes_eq(ex, a, b):
    """Equality of two byte strings as a formula."""
    if a.conc is not None and b.conc is not None:
        return a.conc == b.conc
    la, lb = a.length, b.length
    if isinstance(la, int) and isinstance(lb, int):
        if la != lb:
            return False
        cs = [teq(a.at(i), b.at(i)) for i in range(la)]
        return mk_bool(z3.And(cs)) if cs else True
    n = la if isinstance(la, int) else (lb if isinstance(lb, int) else None)
    if n is not None:
        cs = [zlen(a) == zlen(b)] + [teq(a.at(i), b.at(i)) for i in range(n)]
        return mk_bool(z3.And(cs))
    # both lengths symbolic
    pol = ex.ghost.get('polarity')
    if pol == '+':
        k = z3.Int(ex.fresh_name('k!eq'))
        body = z3.Implies(z3.And(k >= 0, k < zlen(a)), _z(a.at(k)) == _z(b.at(k)))
        return mk_bool(z3.And(zlen(a) == zlen(b), body))
    k = z3.Int(ex.fresh_name('k!all'))
    saved = ex.collect_facts
    ex.collect_facts = []
    try:
        eq = _z(a.at(k)) == _z(b.at(k))
        facts = ex.collect_facts
    finally:
        ex.collect_facts = saved
    body = z3.Implies(z3.And(k >= 0, k < zlen(a)), eq)
    return mk_bool(z3.And(zlen(a) == zlen(b), z3.ForAll([k], body)))


def veq(ex, a, b):
    """Python == as bool | SBool."""
    a, b = force(ex, a), force(ex, b)
    if a is None or b is None:
        return a is b
    if is_num(a) and is_num(b):
        if not is_symbolic(a) and not is_symbolic(b):
            return a == b
        if isinstance(a, (bool, SBool)) and isinstance(b, (bool, SBool)):
            return mk_bool(zbool(a) == zbool(b))
        if is_bv(a) or is_bv(b):
            w = (a.t if is_bv(a) else b.t).size()
            return mk_bool(bv_of(a, w) == bv_of(b, w))
        return mk_bool(zi(a) == zi(b))
    if isinstance(a, SBytes) and isinstance(b, SBytes):
        return bytes_eq(ex, a, b)
    if isinstance(a, str) and isinstance(b, str):
        return a == b
    if isinstance(a, tuple) and isinstance(b, tuple):
        if len(a) != len(b):
            return False
        return vand(ex, [veq(ex, x, y) for x, y in zip(a, b)])
    if isinstance(a, SList) and isinstance(b, SList):
        if a.mid is None and b.mid is None:
            if len(a.items) != len(b.items):
                return False
            return vand(ex, [veq(ex, x, y) for x, y in zip(a.items, b.items)])
        raise Unsupported('== on lists with symbolic segment')
    if isinstance(a, SObj):
        f, c = a.cls.lookup('__eq__')
        if isinstance(f, FuncVal):
            return ex.truth(ex.call(BoundMethod(a, f), [b], {}))
        return a is b
    if isinstance(b, SObj):
        f, c = b.cls.lookup('__eq__')
        if isinstance(f, FuncVal):
            return ex.truth(ex.call(BoundMethod(b, f), [a], {}))
        return a is b
    if isinstance(a, (SStr,)) or isinstance(b, (SStr,)):
        if isinstance(a, SStr) and isinstance(b, SStr):
            if a.opaque or b.opaque:
                raise Unsupported('== on opaque strings')
        if isinstance(a, str) or isinstance(b, str):
            o, c = (a, b) if isinstance(a, SStr) else (b, a)
            if o.opaque:
                # unknown text against a literal: an arbitrary but fixed answer per (string, literal)
                memo = ex.ghost.setdefault('opaque_eq', {})
                k = (id(o), c)
                if k not in memo:
                    memo[k] = (o, ex.fresh_bool('streq'))
                    ex.ghost['havocked'] = True
                return memo[k][1]
            raise Unsupported('== on symbolic string')
        return False
    if isinstance(a, SDict) and isinstance(b, SDict):
        if set(a.d) != set(b.d):
            return False
        return vand(ex, [veq(ex, a.d[k][1], b.d[k][1]) for k in a.d])
    if isinstance(a, (ClassVal, FuncVal, ModuleVal, LockVal, CondVal)) or \
            isinstance(b, (ClassVal, FuncVal, ModuleVal, LockVal, CondVal)):
        return a is b
    if isinstance(a, SSet) and isinstance(b, SSet):
        return set(a.d) == set(b.d)
    return False


def vand(ex, xs):
    if any(x is False for x in xs):
        return False
    ts = [x.t for x in xs if isinstance(x, SBool)]
    if not ts:
        return True
    return mk_bool(z3.And(ts))


def vor(ex, xs):
    if any(x is True for x in xs):
        return True
    ts = [x.t for x in xs if isinstance(x, SBool)]
    if not ts:
        return False
    return mk_bool(z3.Or(ts))


def vnot(x):
    if isinstance(x, bool):
        return not x
    return mk_bool(z3.Not(x.t))


def key_of(ex, k):
    if isinstance(k, (bool, int, str, float)) or k is None:
        return k
    if isinstance(k, SBytes) and k.conc is not None:
        return ('b', bytes(k.conc))
    if isinstance(k, tuple):
        return ('t',) + tuple(key_of(ex, x) for x in k)
    if isinstance(k, (ClassVal, SObj, FuncVal)):
        return ('o', id(k))
    if isinstance(k, (SInt, SBool)):
        raise SymKey()
    if isinstance(k, SBytes):
        raise SymKey()
    raise Unsupported('unhashable/symbolic key %r' % (k,))


class SymKey(Exception):
    pass


def dict_set(ex, d, k, v):
    try:
        d.d[key_of(ex, k)] = (k, v)
    except SymKey:
        # symbolic key: it must be decided which concrete key it equals
        for kk, (ok, _) in list(d.d.items()):
            if ex.branch(veq(ex, k, ok)):
                d.d[kk] = (ok, v)
                return
        if d.sym is None:
            d.sym = []
        d.sym.append((k, v))


def dict_lookup(ex, d, k):
    """returns (found, value)"""
    try:
        kk = key_of(ex, k)
        if d.sym:
            for sk, sv in reversed(d.sym):
                if ex.branch(veq(ex, k, sk)):
                    return True, sv
        if kk in d.d:
            return True, d.d[kk][1]
        return False, None
    except SymKey:
        if d.sym:
            for sk, sv in reversed(d.sym):
                if ex.branch(veq(ex, k, sk)):
                    return True, sv
        for kk, (ok, v) in d.d.items():
            e = veq(ex, k, ok)
            if e is False:
                continue
            if ex.branch(e):
                return True, v
        return False, None


def range_is_big(r):
    """a range whose bounds are symbolic or that has more than 64 elements is kept as an interval"""
    if isinstance(r.start, int) and isinstance(r.stop, int):
        return r.stop - r.start > 64
    return True


def copy_set(s):
    t = SSet(s.d.items())
    t.ranges = list(s.ranges)
    t.minus = s.minus
    t.pred = s.pred
    return t


def set_member(ex, s, x):
    """x in s for an interval set: a term, no fork"""
    if not is_num(x):
        return False
    zx = zi(x)
    alts = [veq(ex, x, y) for y in s.d.values()]
    for lo, hi in s.ranges:
        alts.append(mk_bool(z3.And(zx >= zi(lo), zx < zi(hi))))
    if s.pred is not None:
        lo, hi, f = s.pred
        alts.append(mk_bool(z3.And(zx >= lo, zx < hi, f(zx))))
    r = vor(ex, alts) if alts else False
    if s.minus is not None:
        m = set_member(ex, s.minus, x)
        r = vand(ex, [r, vnot(m)])
    return r


def set_size_bounds(ex, s):
    """(lower, upper) z3 terms bounding the number of members"""
    up = z3.IntVal(len(s.d))
    lo = z3.IntVal(1 if s.d else 0)
    for a, b in s.ranges:
        w = z3.If(zi(b) > zi(a), zi(b) - zi(a), 0)
        up = up + w
        lo = z3.If(w > lo, w, lo)
    if s.pred is not None:
        up = up + (s.pred[1] - s.pred[0])
    if s.minus is not None:
        mlo, mup = set_size_bounds(ex, s.minus)
        lo = z3.If(lo - mup > 0, lo - mup, 0)
    return lo, up


def set_len(ex, s):
    """len() of an interval set: a fresh integer between the bounds (overlaps are not counted exactly)"""
    lo, up = set_size_bounds(ex, s)
    # the same set expression has the same size: memoise on the structure of the set
    def key(t):
        return (tuple(sorted(map(str, t.d))), tuple((str(zi(a)), str(zi(b))) for a, b in t.ranges),
                None if t.pred is None else str(t.pred[2]), None if t.minus is None else key(t.minus))
    memo = ex.ghost.setdefault('set_len_memo', {})
    k = key(s)
    if k in memo:
        return memo[k]
    n = ex.fresh_int('set!len', 0, None)
    memo[k] = n
    ex.assume(mk_bool(z3.And(zi(n) >= lo, zi(n) <= up)))
    ex.notes.append('len() of a set holding symbolic intervals is abstracted to its bounds')
    return n


def make_set(ex, items):
    s = SSet()
    for x in items:
        s.d[key_of(ex, x)] = x
    return s


# ---------------------------------------------------------------- operators
def shl(ex, a, k):
    if isinstance(k, int):
        if k < 0:
            ex.throw('ValueError', 'negative shift count')
        return mk_int(zi(a) * (1 << k))
    return mk_int(zi(a) * zi(pow2(ex, k)))


def pow2(ex, k):
    if isinstance(k, int):
        return 1 << k
    r = z3.Int(ex.fresh_name('pow2!unk'))
    for j in range(63, -1, -1):
        r = z3.If(k.t == j, z3.IntVal(1 << j), r)
    return mk_int(r)


def mask_runs(m):
    runs = []
    i = 0
    while m >> i:
        if (m >> i) & 1:
            j = i
            while (m >> j) & 1:
                j += 1
            runs.append((i, j - i))
            i = j
        else:
            i += 1
    return runs


def band_const(ex, x, m):
    if m < 0:
        # x & m for negative m: x - (x & ~m)
        return mk_int(zi(x) - zi(band_const(ex, x, ~m)))
    if m == 0:
        return 0
    zx = zi(x)
    tot = None
    for s, w in mask_runs(m):
        part = ((zx / (1 << s)) % (1 << w)) * (1 << s) if s else zx % (1 << w)
        tot = part if tot is None else tot + part
    return mk_int(tot)


def trailing_zeros(t):
    """syntactic lower bound on the number of trailing zero bits of term t"""
    if z3.is_int_value(t):
        v = t.as_long()
        if v == 0:
            return 64
        n = 0
        while v % 2 == 0:
            v //= 2
            n += 1
        return n
    if z3.is_mul(t):
        return sum(trailing_zeros(c) for c in t.children())
    if z3.is_add(t):
        return min(trailing_zeros(c) for c in t.children())
    if z3.is_app_of(t, z3.Z3_OP_ITE):
        return min(trailing_zeros(t.arg(1)), trailing_zeros(t.arg(2)))
    return 0


def bitop_sym(ex, op, a, b):
    za, zb = zi(a), zi(b)
    if op == '|' or op == '^':
        for x, y in ((za, zb), (zb, za)):
            k = trailing_zeros(z3.simplify(x))
            if k > 0:
                k = min(k, 62)
                if ex.check(z3.Not(z3.And(y >= 0, y < (1 << k)))) == z3.unsat:
                    return mk_int(za + zb)
    # fall back to bit-vectors when both are provably within 32 bits
    W = 32
    if ex.check(z3.Not(z3.And(za >= 0, za < (1 << W), zb >= 0, zb < (1 << W)))) == z3.unsat:
        ba, bb = z3.Int2BV(za, W), z3.Int2BV(zb, W)
        r = {'|': ba | bb, '&': ba & bb, '^': ba ^ bb}[op]
        return mk_int(z3.BV2Int(r, False))
    ex.notes.append('bit operation %s on unbounded symbolic operands abstracted' % op)
    return ex.fresh_int('bitop!unk')


def floordiv(ex, a, b):
    if isinstance(b, (int,)) and not isinstance(b, bool):
        if b == 0:
            ex.throw('ZeroDivisionError', 'integer division or modulo by zero')
        if b > 0:
            return mk_int(zi(a) / b)
        q = zi(a) / b
        r = zi(a) - q * b
        return mk_int(z3.If(r == 0, q, q - 1))
    zb = zi(b)
    if ex.branch(mk_bool(zb == 0)):
        ex.throw('ZeroDivisionError', 'integer division or modulo by zero')
    q = zi(a) / zb
    r = zi(a) - q * zb
    return mk_int(z3.If(zb > 0, q, z3.If(r == 0, q, q - 1)))


def pymod(ex, a, b):
    if isinstance(b, int) and not isinstance(b, bool):
        if b == 0:
            ex.throw('ZeroDivisionError', 'integer division or modulo by zero')
        if b > 0:
            return mk_int(zi(a) % b)
    q = floordiv(ex, a, b)
    return mk_int(zi(a) - zi(q) * zi(b))


def is_real(v):
    return isinstance(v, float) or (isinstance(v, SInt) and v.t.sort() == z3.RealSort())


def binop(ex, op, l, r, inplace=False):
    if is_num(l) and is_num(r):
        return num_binop(ex, op, l, r)
    if isinstance(l, Missing) or isinstance(r, Missing):
        raise Unsupported('operation on %s' % ((l if isinstance(l, Missing) else r).why,))
    if isinstance(op, ast.Add):
        if isinstance(l, SBytes) and isinstance(r, SBytes):
            if inplace and l.mutable:
                n = bytes_concat(snapshot(l), r, True)
                l.length, l._at, l.conc = n.length, n._at, n.conc
                clone_meta(n, l)
                return l
            return bytes_concat(l, r, l.mutable)
        if isinstance(l, SList) and isinstance(r, SList):
            if inplace:
                list_extend(ex, l, r)
                return l
            if l.mid is None and r.mid is None:
                return SList(l.items + r.items, l.kind)
            raise Unsupported('+ on lists with symbolic segment')
        if isinstance(l, tuple) and isinstance(r, tuple):
            return STuple(tuple(l) + tuple(r))
        if isinstance(l, (str, SStr)) and isinstance(r, (str, SStr)):
            if isinstance(l, str) and isinstance(r, str):
                return l + r
            return opaque_str(braces=may_carry_braces(l) or may_carry_braces(r), sources=brace_sources([l, r]))
        if isinstance(l, SList) and inplace:
            list_extend(ex, l, r)
            return l
        ex.throw('TypeError', 'unsupported operand type(s) for +')
    if isinstance(op, ast.Mult):
        if isinstance(l, int) and not isinstance(r, int):
            l, r = r, l
        if isinstance(l, SInt) and isinstance(r, SBytes):
            l, r = r, l
        if isinstance(l, SBytes):
            if isinstance(r, int):
                if l.conc is not None:
                    return SBytes.concrete(bytes(l.conc) * r, l.mutable)
                out = SBytes.concrete(b'', l.mutable)
                for _ in range(r):
                    out = bytes_concat(out, l, l.mutable)
                return out
            if isinstance(r, SInt) and l.conc is not None and len(l.conc) == 1:
                c = l.conc[0]
                n = mk_int(z3.If(r.t > 0, r.t, 0))
                return SBytes(zi(n), lambda i: c, l.mutable)
            raise Unsupported('bytes * symbolic')
        if isinstance(l, SList) and isinstance(r, int):
            return SList(l.items * r, l.kind)
        if isinstance(r, SList) and isinstance(l, SInt):
            l, r = r, l
        if isinstance(l, SList) and isinstance(r, SInt) and l.mid is None and len(l.items) == 1 \
                and is_num(l.items[0]):
            # n * [v]: a segment of n equal numbers
            v = l.items[0]
            out = SList([], l.kind)
            out.mid = SymSeg(z3.If(r.t > 0, r.t, 0), lambda i, v=v: v, 0, tag='const')
            out.mid.const = v
            return out
        if isinstance(l, SList) and isinstance(r, SInt):
            for n in range(0, 17):
                if ex.branch(mk_bool(r.t == n if n else r.t <= 0)):
                    return SList(l.items * n, l.kind)
            raise Unsupported('list repeated more than 16 times (symbolic count)')
        if isinstance(l, str) and isinstance(r, int):
            return l * r
        if isinstance(l, tuple) and isinstance(r, int):
            return STuple(tuple(l) * r)
        ex.throw('TypeError', 'unsupported operand type(s) for *')
    if isinstance(op, ast.Mod):
        if isinstance(l, (str, SStr)):
            return str_percent(ex, l, r)
        if isinstance(l, SBytes):
            # b"..%s.." % (bytes, ...): only %s with bytes arguments and a concrete format
            if l.conc is None:
                raise Unsupported('bytes % formatting with a symbolic format')
            fmt = bytes(l.conc)
            argv = list(r) if isinstance(r, tuple) else [r]
            pieces = fmt.split(b'%s')
            if b'%' in b''.join(pieces) or len(pieces) != len(argv) + 1:
                raise Unsupported('bytes % formatting other than %s')
            out = SBytes.concrete(pieces[0])
            ascii_only = all(c < 128 for c in fmt)
            for x, tail in zip(argv, pieces[1:]):
                if not isinstance(x, SBytes):
                    raise Unsupported('bytes % formatting of a non-bytes argument')
                if not (getattr(x, 'ascii_only', False) or (x.conc is not None and all(c < 128 for c in x.conc))):
                    ascii_only = False
                out = bytes_concat(bytes_concat(out, x), SBytes.concrete(tail))
            if ascii_only:
                out.ascii_only = True      # decode() of it never fails
            return out
    if isinstance(op, ast.Sub) and isinstance(l, SSet) and isinstance(r, SSet) and \
            (l.ranges or r.ranges or l.minus is not None or r.minus is not None or l.pred or r.pred):
        s = copy_set(l)
        if s.minus is not None:
            m = copy_set(s.minus)
            m.d.update(r.d)
            m.ranges += r.ranges
            if r.minus is not None:
                raise Unsupported('difference of nested interval-set differences')
            s.minus = m
        else:
            s.minus = copy_set(r)
        return s
    if isinstance(op, ast.Sub) and isinstance(l, SSet) and isinstance(r, SSet):
        s = SSet()
        for k, v in l.d.items():
            if k not in r.d:
                s.d[k] = v
        return s
    if isinstance(op, ast.BitOr) and isinstance(l, SSet) and isinstance(r, SSet):
        s = SSet()
        s.d.update(l.d)
        s.d.update(r.d)
        return s
    if isinstance(op, ast.BitAnd) and isinstance(l, SSet) and isinstance(r, SSet):
        s = SSet()
        for k, v in l.d.items():
            if k in r.d:
                s.d[k] = v
        return s
    if l is None or r is None:
        ex.throw('TypeError', 'unsupported operand type(s): NoneType')
    if isinstance(l, SObj) or isinstance(r, SObj):
        names = {ast.Add: '__add__', ast.Sub: '__sub__', ast.Mult: '__mul__'}
        nm = names.get(type(op))
        if nm and isinstance(l, SObj):
            f, _ = l.cls.lookup(nm)
            if isinstance(f, FuncVal):
                return ex.call(BoundMethod(l, f), [r], {})
        ex.throw('TypeError', 'unsupported operand type(s) for object')
    ex.throw('TypeError', 'unsupported operand type(s) for %s: %s and %s'
             % (op.__class__.__name__, tname(l), tname(r)))


def tname(v):
    if v is None:
        return 'NoneType'
    if isinstance(v, (bool, SBool)):
        return 'bool'
    if isinstance(v, (int, SInt)):
        return 'int'
    if isinstance(v, SBytes):
        return 'bytearray' if v.mutable else 'bytes'
    if isinstance(v, (str, SStr)):
        return 'str'
    if isinstance(v, SObj):
        return v.cls.name
    return type(v).__name__


def bv_binop(ex, op, l, r):
    """machine-integer mode (unsigned, fixed width): used for bit-level code
    whose values provably stay inside the width"""
    w = (l.t if is_bv(l) else r.t).size()
    a, b = bv_of(l, w), bv_of(r, w)
    if isinstance(op, ast.Add):
        return mk_int(a + b)
    if isinstance(op, ast.Sub):
        return mk_int(a - b)
    if isinstance(op, ast.Mult):
        return mk_int(a * b)
    if isinstance(op, ast.FloorDiv):
        return mk_int(z3.UDiv(a, b))
    if isinstance(op, ast.Mod):
        return mk_int(z3.URem(a, b))
    if isinstance(op, ast.LShift):
        return mk_int(a << b)
    if isinstance(op, ast.RShift):
        return mk_int(z3.LShR(a, b))
    if isinstance(op, ast.BitAnd):
        return mk_int(a & b)
    if isinstance(op, ast.BitOr):
        return mk_int(a | b)
    if isinstance(op, ast.BitXor):
        return mk_int(a ^ b)
    raise Unsupported('bit-vector operator %s' % op.__class__.__name__)


def num_binop(ex, op, l, r):
    if is_bv(l) or is_bv(r):
        return bv_binop(ex, op, l, r)
    conc = not is_symbolic(l) and not is_symbolic(r)
    if conc:
        try:
            if isinstance(op, ast.Add):
                return l + r
            if isinstance(op, ast.Sub):
                return l - r
            if isinstance(op, ast.Mult):
                return l * r
            if isinstance(op, ast.FloorDiv):
                return l // r
            if isinstance(op, ast.Mod):
                return l % r
            if isinstance(op, ast.Div):
                return l / r
            if isinstance(op, ast.Pow):
                return l ** r
            if isinstance(op, ast.LShift):
                return l << r
            if isinstance(op, ast.RShift):
                return l >> r
            if isinstance(op, ast.BitAnd):
                return l & r
            if isinstance(op, ast.BitOr):
                return l | r
            if isinstance(op, ast.BitXor):
                return l ^ r
        except ZeroDivisionError:
            ex.throw('ZeroDivisionError', 'division by zero')
        except ValueError as e:
            ex.throw('ValueError', str(e))
        except TypeError as e:
            ex.throw('TypeError', str(e))
        raise Unsupported('numeric op')
    if isinstance(op, ast.Add):
        return mk_int(arith(l, r, lambda a, b: a + b))
    if isinstance(op, ast.Sub):
        return mk_int(arith(l, r, lambda a, b: a - b))
    if isinstance(op, ast.Mult):
        return mk_int(arith(l, r, lambda a, b: a * b))
    if is_real(l) or is_real(r):
        if isinstance(op, ast.Div):
            zr = to_real(r)
            if ex.branch(mk_bool(zr == 0)):
                ex.throw('ZeroDivisionError', 'float division by zero')
            return mk_int(to_real(l) / zr)
        raise Unsupported('float operator %s' % op.__class__.__name__)
    if isinstance(op, ast.FloorDiv):
        return floordiv(ex, l, r)
    if isinstance(op, ast.Mod):
        return pymod(ex, l, r)
    if isinstance(op, ast.Div):
        zr = zi(r)
        if ex.branch(mk_bool(zr == 0)):
            ex.throw('ZeroDivisionError', 'division by zero')
        return mk_int(z3.ToReal(zi(l)) / z3.ToReal(zr))
    if isinstance(op, ast.LShift):
        if isinstance(r, SInt) and ex.branch(mk_bool(r.t < 0)):
            ex.throw('ValueError', 'negative shift count')
        return shl(ex, l, r)
    if isinstance(op, ast.RShift):
        if isinstance(r, int):
            if r < 0:
                ex.throw('ValueError', 'negative shift count')
            return mk_int(zi(l) / (1 << r))
        if ex.branch(mk_bool(r.t < 0)):
            ex.throw('ValueError', 'negative shift count')
        return mk_int(zi(l) / zi(pow2(ex, r)))
    if isinstance(op, ast.BitAnd):
        if isinstance(r, int) and not isinstance(r, bool):
            return band_const(ex, l, r)
        if isinstance(l, int) and not isinstance(l, bool):
            return band_const(ex, r, l)
        if isinstance(l, (bool, SBool)) and isinstance(r, (bool, SBool)):
            return mk_bool(z3.And(zbool(l), zbool(r)))
        return bitop_sym(ex, '&', l, r)
    if isinstance(op, ast.BitOr):
        if isinstance(l, (bool, SBool)) and isinstance(r, (bool, SBool)):
            return mk_bool(z3.Or(zbool(l), zbool(r)))
        if isinstance(r, int):
            return mk_int(zi(l) + r - zi(band_const(ex, l, r)))
        if isinstance(l, int):
            return mk_int(zi(r) + l - zi(band_const(ex, r, l)))
        return bitop_sym(ex, '|', l, r)
    if isinstance(op, ast.BitXor):
        if isinstance(r, int):
            return mk_int(zi(l) + r - 2 * zi(band_const(ex, l, r)))
        if isinstance(l, int):
            return mk_int(zi(r) + l - 2 * zi(band_const(ex, r, l)))
        return bitop_sym(ex, '^', l, r)
    if isinstance(op, ast.Pow):
        if isinstance(l, int) and l == 2:
            if ex.branch(mk_bool(zi(r) < 0)):
                raise Unsupported('negative exponent')
            return pow2(ex, r)
        if isinstance(l, int) and l > 0 and isinstance(r, SInt):
            if ex.branch(mk_bool(zi(r) < 0)):
                raise Unsupported('negative exponent')
            t = z3.Int(ex.fresh_name('pow!unk'))
            for j in range(31, -1, -1):
                t = z3.If(r.t == j, z3.IntVal(l ** j), t)
            return mk_int(t)
        if isinstance(r, int) and 0 <= r <= 4:
            t = z3.IntVal(1)
            for _ in range(r):
                t = t * zi(l)
            return mk_int(t)
        raise Unsupported('symbolic power')
    raise Unsupported('operator %s' % op.__class__.__name__)


def to_real(v):
    if isinstance(v, float):
        return z3.RealVal(repr(v))
    t = zi(v)
    return z3.ToReal(t) if t.sort() == z3.IntSort() else t


def arith(l, r, f):
    if is_real(l) or is_real(r):
        return f(to_real(l), to_real(r))
    return f(zi(l), zi(r))


_UNKNOWN_REP = object()


def opaque_str(braces=False, sources=()):
    """an opaque string; braces=True marks text that may contain '{' or '}' because it was built from symbolic
    octets or text (only such strings make a later .format() on them raise); sources are the byte strings the
    braces could come from"""
    if not braces:
        return OPAQUE
    r = SStr(opaque=True)
    r.braces = True
    r.sources = list(sources)
    return r


def may_carry_braces(v):
    if isinstance(v, SStr):
        return getattr(v, 'braces', False)
    if isinstance(v, SBytes):
        return v.conc is None or b'{' in bytes(v.conc) or b'}' in bytes(v.conc)
    return False        # literals: braces in them are the programmer's replacement fields


def brace_sources(vs):
    out = []
    for v in vs:
        if isinstance(v, SStr):
            out += getattr(v, 'sources', [])
        elif isinstance(v, SBytes) and may_carry_braces(v):
            out.append(v)
    return out


def assume_some_brace(ex, sources):
    """path constraint for the raising branches of .format() on data-built text: one of the source byte strings
    starts with a lone '}' (its repr then puts a single '}' into the text, which str.format refuses) - a witness
    the replay can confirm; the branch itself stands for every way braces in the data can break the format"""
    alts = []
    for b in sources:
        if b.conc is not None:
            continue
        alts.append(z3.And(zlen(b) >= 1, _z(b.at(0)) == 0x7D, z3.Or(zlen(b) == 1, _z(b.at(1)) != 0x7D)))
    if alts:
        ex.assume(mk_bool(z3.Or(*alts)))


def fmt_rep(v):
    """A concrete representative of v's formatting class (int, float, str, None, or a type that inherits
    object.__format__), or _UNKNOWN_REP when the class of v is not certain.  Whether str.format / % raises
    TypeError or ValueError depends on that class only (the 'c' conversion aside, see callers)."""
    if v is None:
        return None
    if isinstance(v, (bool, SBool)):
        return True
    if isinstance(v, float) or is_real(v):
        return 1.5
    if isinstance(v, (int, SInt)):
        return 5
    if isinstance(v, str):
        return v
    if isinstance(v, SStr):
        return 'a'
    if isinstance(v, SBytes):
        return bytearray(b'a') if v.mutable else b'a'
    if isinstance(v, SList):
        return []
    if isinstance(v, tuple):
        reps = [fmt_rep(x) for x in v]
        return _UNKNOWN_REP if any(x is _UNKNOWN_REP for x in reps) else tuple(reps)
    return _UNKNOWN_REP


def format_check(ex, fmt, args, kwargs):
    """str.format: raise what CPython raises where that is determined by the format string and the argument
    classes alone (IndexError / KeyError for a missing argument, TypeError for a format spec on a type without
    __format__ support such as None or bytes, ValueError for a wrong presentation type)."""
    import string
    if not isinstance(fmt, str):
        return
    try:
        fields = list(string.Formatter().parse(fmt))
    except ValueError as e:
        ex.throw('ValueError', str(e))
    auto = 0
    for lit, name, spec, conv in fields:
        if name is None:
            continue
        if any(ch in name for ch in '.['):
            first = name.split('.')[0].split('[')[0]
            plain = False
        else:
            first, plain = name, True
        if first == '':
            idx = auto
            auto += 1
        elif first.isdigit():
            idx = int(first)
        else:
            idx = None
        if idx is not None:
            if idx >= len(args):
                ex.throw('IndexError', 'Replacement index %d out of range for positional args tuple' % idx)
            v = args[idx]
        else:
            if first not in kwargs:
                ex.throw('KeyError', first)
            v = kwargs[first]
        if plain and isinstance(v, SObj) and not ex.hooks.get('opaque_str', True):
            # object.__format__ is str(self) for an empty spec: the class's own __str__ / __repr__ runs
            f, _c = v.cls.lookup('__format__')
            if isinstance(f, FuncVal) and conv is None:
                ex.call(BoundMethod(v, f), [spec or ''], {})
            else:
                f, _c = v.cls.lookup('__repr__' if conv in ('r', 'a') else '__str__')
                if isinstance(f, FuncVal):
                    ex.call(BoundMethod(v, f), [], {})
        if not plain or not spec or '{' in spec or 'c' in spec:
            continue
        rep = fmt_rep(v)
        if rep is _UNKNOWN_REP:
            continue
        if conv in ('r', 's', 'a'):
            rep = 'a'
        try:
            format(rep, spec)
        except TypeError as e:
            ex.throw('TypeError', str(e))
        except ValueError as e:
            ex.throw('ValueError', str(e))


def percent_check(ex, fmt, arg):
    """str % args: TypeError / ValueError where the format string and the argument classes determine it"""
    if not isinstance(fmt, str) or '%c' in fmt or '*' in fmt or '%(' in fmt:
        return
    rep = fmt_rep(arg)
    if rep is _UNKNOWN_REP:
        return
    try:
        fmt % rep
    except TypeError as e:
        ex.throw('TypeError', str(e))
    except ValueError as e:
        ex.throw('ValueError', str(e))


def str_percent(ex, fmt, arg):
    percent_check(ex, fmt, arg)
    args = list(arg) if isinstance(arg, tuple) else [arg]
    if isinstance(fmt, str) and all(isinstance(a, (int, str, float)) and not isinstance(a, bool) or a is None
                                    for a in args):
        try:
            return fmt % (tuple(args) if isinstance(arg, tuple) else arg)
        except (TypeError, ValueError):
            return OPAQUE
    if isinstance(fmt, str):
        # only %d holes and literal text -> SStr (struct formats)
        parts = []
        rest = fmt
        ai = 0
        ok = True
        while rest:
            k = rest.find('%')
            if k < 0:
                parts.append(rest)
                break
            if k:
                parts.append(rest[:k])
            if rest[k:k + 2] == '%d' and ai < len(args) and isinstance(args[ai], (int, SInt)):
                parts.append(args[ai])
                ai += 1
                rest = rest[k + 2:]
            elif rest[k:k + 2] == '%%':
                parts.append('%')
                rest = rest[k + 2:]
            else:
                ok = False
                break
        if ok and ai == len(args):
            return SStr(parts)
    return OPAQUE


def compare(ex, op, l, r):
    if isinstance(op, ast.Eq):
        return veq(ex, l, r)
    if isinstance(op, ast.NotEq):
        return vnot(veq(ex, l, r))
    if isinstance(op, ast.Is):
        return identical(ex, l, r)
    if isinstance(op, ast.IsNot):
        return vnot(identical(ex, l, r))
    if isinstance(op, ast.In):
        return contains(ex, r, l)
    if isinstance(op, ast.NotIn):
        return vnot(contains(ex, r, l))
    if is_num(l) and is_num(r):
        if not is_symbolic(l) and not is_symbolic(r):
            return {ast.Lt: l < r, ast.LtE: l <= r, ast.Gt: l > r, ast.GtE: l >= r}[type(op)]
        if is_bv(l) or is_bv(r):
            w = (l.t if is_bv(l) else r.t).size()
            a, b = bv_of(l, w), bv_of(r, w)
            return mk_bool({ast.Lt: z3.ULT(a, b), ast.LtE: z3.ULE(a, b), ast.Gt: z3.UGT(a, b),
                            ast.GtE: z3.UGE(a, b)}[type(op)])
        if is_real(l) or is_real(r):
            a, b = to_real(l), to_real(r)
        else:
            a, b = zi(l), zi(r)
        return mk_bool({ast.Lt: a < b, ast.LtE: a <= b, ast.Gt: a > b, ast.GtE: a >= b}[type(op)])
    if isinstance(l, str) and isinstance(r, str):
        return {ast.Lt: l < r, ast.LtE: l <= r, ast.Gt: l > r, ast.GtE: l >= r}[type(op)]
    if isinstance(l, SBytes) and isinstance(r, SBytes) and l.conc is not None and r.conc is not None:
        a, b = bytes(l.conc), bytes(r.conc)
        return {ast.Lt: a < b, ast.LtE: a <= b, ast.Gt: a > b, ast.GtE: a >= b}[type(op)]
    if isinstance(l, tuple) and isinstance(r, tuple) and all(isinstance(x, (int, str)) for x in tuple(l) + tuple(r)):
        a, b = tuple(l), tuple(r)
        return {ast.Lt: a < b, ast.LtE: a <= b, ast.Gt: a > b, ast.GtE: a >= b}[type(op)]
    if l is None or r is None or isinstance(l, (SBytes, str, SObj, tuple, SList)) or \
            isinstance(r, (SBytes, str, SObj, tuple, SList)):
        if (isinstance(l, SBytes) and isinstance(r, SBytes)):
            raise Unsupported('ordering of symbolic bytes')
        ex.throw('TypeError', "'%s' not supported between instances of '%s' and '%s'"
                 % (op.__class__.__name__, tname(l), tname(r)))
    raise Unsupported('comparison %s of %r and %r' % (op.__class__.__name__, l, r))


def identical(ex, l, r):
    if l is None or r is None:
        return l is r
    if isinstance(l, (bool, SBool)) and isinstance(r, (bool, SBool)):
        return veq(ex, l, r)
    if isinstance(l, (bool, SBool)) or isinstance(r, (bool, SBool)):
        return False
    if is_num(l) and is_num(r):
        return veq(ex, l, r)
    if isinstance(l, str) and isinstance(r, str):
        return l == r
    if isinstance(l, SBytes) and isinstance(r, SBytes):
        return l is r
    return l is r


def contains(ex, cont, x):
    if isinstance(cont, tuple):
        return vor(ex, [veq(ex, x, y) for y in cont])
    if isinstance(cont, SList):
        if cont.mid is not None:
            raise Unsupported('in on list with symbolic segment')
        return vor(ex, [veq(ex, x, force_item(ex, cont.items, i)) for i in range(len(cont.items))])
    if isinstance(cont, SDict):
        if isinstance(x, (SInt, SBool)) and not cont.sym:
            return vor(ex, [veq(ex, x, ok) for (ok, _) in cont.d.values()])
        found, _ = dict_lookup(ex, cont, x)
        return found
    if isinstance(cont, SSet) and (cont.ranges or cont.minus is not None or cont.pred is not None):
        return set_member(ex, cont, x)
    if isinstance(cont, SSet):
        try:
            return key_of(ex, x) in cont.d
        except SymKey:
            return vor(ex, [veq(ex, x, y) for y in cont.d.values()])
    if isinstance(cont, RangeVal):
        if cont.step == 1:
            if not is_num(x):
                return False
            return mk_bool(z3.And(zi(x) >= zi(cont.start), zi(x) < zi(cont.stop)))
        if all(isinstance(v, int) for v in (cont.start, cont.stop, cont.step)):
            return vor(ex, [veq(ex, x, y) for y in range(cont.start, cont.stop, cont.step)])
        raise Unsupported('in range with symbolic step')
    if isinstance(cont, str):
        if isinstance(x, str):
            return x in cont
        raise Unsupported('symbolic str in str')
    if isinstance(cont, SBytes):
        if is_num(x):
            n = cont.concrete_len()
            if n is None:
                raise Unsupported('int in symbolic-length bytes')
            return vor(ex, [veq(ex, x, mk_int(cont.at(i))) for i in range(n)])
        if isinstance(x, SBytes) and x.conc is not None and cont.conc is not None:
            return bytes(x.conc) in bytes(cont.conc)
        raise Unsupported('bytes in bytes (symbolic)')
    if isinstance(cont, SObj):
        f, _ = cont.cls.lookup('__contains__')
        if isinstance(f, FuncVal):
            return ex.truth(ex.call(BoundMethod(cont, f), [x], {}))
    if cont is None:
        ex.throw('TypeError', "argument of type 'NoneType' is not iterable")
    raise Unsupported('in on %r' % (cont,))


# ------------------------------------------------------------ item access
def norm_index(ex, n, i, what='index'):
    """Bounds-check index i against length n; returns non-negative index."""
    if isinstance(i, bool):
        i = int(i)
    if isinstance(n, int) and isinstance(i, int):
        if i < 0:
            i += n
        if not 0 <= i < n:
            ex.throw('IndexError', what + ' out of range')
        return i
    if not is_num(i):
        ex.throw('TypeError', 'indices must be integers')
    z, zn = zi(i), zi(n)
    if isinstance(i, int):
        j = mk_int(z + zn) if i < 0 else i
    else:
        if ex.branch(mk_bool(z < 0)):
            j = mk_int(z + zn)
        else:
            j = i
    ok = mk_bool(z3.And(zi(j) >= 0, zi(j) < zn))
    if not ex.branch(ok):
        ex.throw('IndexError', what + ' out of range')
    return j


def getitem(ex, obj, idx):
    if isinstance(idx, SBool):
        idx = SInt(zint(idx))
    elif isinstance(idx, bool):
        idx = int(idx)
    if isinstance(obj, SBytes):
        if isinstance(idx, slice):
            return bytes_slice(ex, obj, idx)
        n = obj.length if isinstance(obj.length, int) else SInt(obj.length)
        j = norm_index(ex, n, idx)
        if obj.watch is not None:
            obj.watch(j, mk_int(zi(j) + 1))
        return mk_int(obj.at(j if isinstance(j, int) else j.t))
    if isinstance(obj, tuple):
        if isinstance(idx, slice):
            if all(isinstance(x, (int, type(None))) for x in (idx.start, idx.stop, idx.step)):
                return STuple(tuple(obj)[idx])
            raise Unsupported('tuple slice symbolic')
        if isinstance(idx, SInt):
            return select_concrete(ex, list(obj), idx)
        j = norm_index(ex, len(obj), idx, 'tuple index')
        return obj[j]
    if isinstance(obj, SList):
        return list_getitem(ex, obj, idx)
    if isinstance(obj, SDict):
        found, v = dict_lookup(ex, obj, idx)
        if found:
            return v
        if obj.default_factory is not None:
            v = ex.call(obj.default_factory, [], {})
            dict_set(ex, obj, idx, v)
            return v
        ex.throw('KeyError', idx)
    if isinstance(obj, str):
        if isinstance(idx, slice):
            if all(isinstance(x, (int, type(None))) for x in (idx.start, idx.stop, idx.step)):
                return obj[idx]
            raise Unsupported('str slice symbolic')
        if isinstance(idx, int):
            j = norm_index(ex, len(obj), idx, 'string index')
            return obj[j]
        if isinstance(idx, SInt):
            return select_concrete(ex, list(obj), idx)
    if isinstance(obj, RangeVal):
        if isinstance(idx, int) and all(isinstance(v, int) for v in (obj.start, obj.stop, obj.step)):
            return range(obj.start, obj.stop, obj.step)[idx]
    if isinstance(obj, SObj):
        f, _ = obj.cls.lookup('__getitem__')
        if isinstance(f, FuncVal):
            return ex.call(BoundMethod(obj, f), [idx], {})
        hook = ex.hooks.get('native_getitem')
        if hook:
            r = hook(ex, obj, idx)
            if r is not NotImplemented:
                return r
        ex.throw('TypeError', "'%s' object is not subscriptable" % obj.cls.name)
    if obj is None:
        ex.throw('TypeError', "'NoneType' object is not subscriptable")
    if is_num(obj):
        ex.throw('TypeError', "'int' object is not subscriptable")
    raise Unsupported('subscript of %r' % (obj,))


def force_item(ex, items, j):
    v = items[j]
    if isinstance(v, LazyVal):
        v = v.force(ex)
    return v


def select_concrete(ex, items, idx):
    """items[idx] for symbolic idx over a concrete list: fork per position."""
    n = len(items)
    if ex.branch(mk_bool(idx.t < 0)):
        idx = mk_int(idx.t + n)
    if not ex.branch(mk_bool(z3.And(zi(idx) >= 0, zi(idx) < n))):
        ex.throw('IndexError', 'index out of range')
    if isinstance(idx, int):
        return items[idx]
    if all(is_num(x) for x in items):
        r = zi(items[-1])
        for k in range(n - 2, -1, -1):
            r = z3.If(idx.t == k, zi(items[k]), r)
        return mk_int(r)
    for k in range(n):
        if ex.branch(mk_bool(idx.t == k)):
            return items[k]
    raise PathEnd()


def list_getitem(ex, l, idx):
    if isinstance(idx, slice):
        if l.mid is None:
            items = l.items
            if all(isinstance(x, (int, type(None))) for x in (idx.start, idx.stop, idx.step)):
                return SList(items[idx])
            raise Unsupported('list slice with symbolic bounds')
        raise Unsupported('slice of list with symbolic segment')
    if l.mid is None:
        items = l.items
        if isinstance(idx, SInt):
            return force(ex, select_concrete(ex, items, idx))
        j = norm_index(ex, len(items), idx, 'list index')
        return force_item(ex, items, j)
    # symbolic segment present
    n = ex.seq_len(l)
    j = norm_index(ex, n, idx, 'list index')
    nl = len(l.left)
    if isinstance(j, int) and j < nl:
        return l.left[j]
    zj = zi(j) - nl
    inmid = mk_bool(zj < zi(l.mid.length))
    if ex.branch(inmid):
        return l.mid.elem(z3.simplify(zi(l.mid.start) + zj))
    k = mk_int(zj - zi(l.mid.length))
    if isinstance(k, int):
        return l.right[k]
    return select_concrete(ex, l.right, k)


def setitem(ex, obj, idx, v):
    if isinstance(obj, SBytes):
        if not obj.mutable:
            ex.throw('TypeError', "'bytes' object does not support item assignment")
        if isinstance(idx, slice):
            return bytes_setslice(ex, obj, idx, v)
        n = obj.length if isinstance(obj.length, int) else SInt(obj.length)
        j = norm_index(ex, n, idx, 'bytearray index')
        if not is_num(v):
            ex.throw('TypeError', 'an integer is required')
        if not ex.branch(mk_bool(z3.And(zi(v) >= 0, zi(v) <= 255))):
            ex.throw('ValueError', 'byte must be in range(0, 256)')
        if obj.conc is not None and isinstance(j, int) and isinstance(v, int):
            c = list(obj.conc)
            c[j] = v
            obj.conc = tuple(c)
            return
        obj.commit()
        base = obj._at if obj.conc is None else SBytes(obj.length, None, conc=obj.conc).at
        zj, zv = zi(j), zi(v)

        def at(i, base=base):
            if isinstance(i, int) and isinstance(j, int):
                return zv if i == j else base(i)
            c = z3.simplify(_z(i) == zj)
            if z3.is_true(c):
                return zv
            if z3.is_false(c):
                return base(i)
            return z3.If(c, zv, _z(base(i)))
        obj._at, obj.conc = at, None
        obj.origin = obj.parts = None
        return
    if isinstance(obj, SList):
        if isinstance(idx, slice):
            if obj.mid is None and all(isinstance(x, (int, type(None))) for x in (idx.start, idx.stop, idx.step)):
                items = obj.items
                items[idx] = list(iterate(ex, v))
                return
            raise Unsupported('list slice assignment')
        if obj.mid is not None:
            raise Unsupported('item store into list with symbolic segment')
        items = obj.items
        if isinstance(idx, SInt):
            n = len(items)
            if ex.branch(mk_bool(idx.t < 0)):
                idx = mk_int(idx.t + n)
            if not ex.branch(mk_bool(z3.And(zi(idx) >= 0, zi(idx) < n))):
                ex.throw('IndexError', 'list assignment index out of range')
            if isinstance(idx, int):
                items[idx] = v
                return
            for k in range(n):
                if ex.branch(mk_bool(idx.t == k)):
                    items[k] = v
                    return
            raise PathEnd()
        j = norm_index(ex, len(items), idx, 'list assignment index')
        items[j] = v
        return
    if isinstance(obj, SDict):
        dict_set(ex, obj, idx, v)
        return
    if isinstance(obj, SObj):
        f, _ = obj.cls.lookup('__setitem__')
        if isinstance(f, FuncVal):
            ex.call(BoundMethod(obj, f), [idx, v], {})
            return
    if obj is None:
        ex.throw('TypeError', "'NoneType' object does not support item assignment")
    if isinstance(obj, tuple):
        ex.throw('TypeError', "'tuple' object does not support item assignment")
    raise Unsupported('item store into %r' % (obj,))


def bytes_setslice(ex, obj, sl, v):
    if sl.step is not None:
        raise Unsupported('bytearray slice store with step')
    if isinstance(v, SList):
        v = bytes_from_terms([zi(x) if not isinstance(x, int) else x for x in v.items])
    if not isinstance(v, SBytes):
        ex.throw('TypeError', 'can assign only bytes, buffers, or iterables of ints')
    n = obj.length if isinstance(obj.length, int) else SInt(obj.length)
    lo, ln = norm_slice(ex, n, sl.start, sl.stop)
    head = bytes_slice(ex, snapshot(obj), slice(0, lo, None))
    tail = bytes_slice(ex, snapshot(obj), slice(mk_int(zi(lo) + zi(ln)), None, None))
    new = bytes_concat(bytes_concat(head, v), tail, True)
    obj.length, obj._at, obj.conc = new.length, new._at, new.conc
    clone_meta(new, obj)


def snapshot(b):
    s = SBytes(b.length, b._at, b.mutable, conc=b.conc)
    return clone_meta(b, s)


def delitem(ex, obj, idx):
    if isinstance(obj, SBytes):
        if not obj.mutable:
            ex.throw('TypeError', "'bytes' object doesn't support item deletion")
        if not isinstance(idx, slice):
            n = obj.length if isinstance(obj.length, int) else SInt(obj.length)
            j = norm_index(ex, n, idx)
            idx = slice(j, mk_int(zi(j) + 1), None)
        bytes_setslice(ex, obj, idx, SBytes.concrete(b''))
        return
    if isinstance(obj, SList):
        if obj.mid is not None:
            raise Unsupported('del on list with symbolic segment')
        items = obj.items
        if isinstance(idx, slice):
            if all(isinstance(x, (int, type(None))) for x in (idx.start, idx.stop, idx.step)):
                del items[idx]
                return
            raise Unsupported('del list slice symbolic')
        j = norm_index(ex, len(items), idx, 'list assignment index')
        if not isinstance(j, int):
            raise Unsupported('del list[symbolic]')
        del items[j]
        return
    if isinstance(obj, SDict):
        try:
            k = key_of(ex, idx)
        except SymKey:
            raise Unsupported('del dict[symbolic key]')
        if k not in obj.d:
            ex.throw('KeyError', idx)
        del obj.d[k]
        return
    if isinstance(obj, SObj):
        f, _ = obj.cls.lookup('__delitem__')
        if isinstance(f, FuncVal):
            ex.call(BoundMethod(obj, f), [idx], {})
            return
    raise Unsupported('del item of %r' % (obj,))


# ------------------------------------------------------------ iteration
def iterate(ex, v, where=None):
    if isinstance(v, tuple):
        return list(v)
    if isinstance(v, SList):
        if v.mid is None:
            if any(isinstance(x, LazyVal) for x in v.items):
                return (force_item(ex, v.items, i) for i in range(len(v.items)))
            return list(v.items)
        return iter_symlist(ex, v, where)
    if isinstance(v, SBytes):
        n = v.concrete_len()
        if n is not None:
            return [mk_int(v.at(i)) for i in range(n)]
        return iter_symbytes(ex, v, where)
    if isinstance(v, RangeVal):
        if all(isinstance(x, int) for x in (v.start, v.stop, v.step)):
            return list(range(v.start, v.stop, v.step))
        return iter_symrange(ex, v, where)
    if isinstance(v, SDict):
        return [ok for (ok, _) in v.d.values()]
    if isinstance(v, SSet):
        return list(v.d.values())
    if isinstance(v, str):
        return list(v)
    if v.__class__.__name__ == 'CountVal':
        return iter_count(ex, v, where)
    if v.__class__.__name__ == 'EnumVal':
        return [STuple((binop(ex, ast.Add(), v.start, i), x)) for i, x in enumerate(iterate(ex, v.seq, where))]
    if isinstance(v, IterVal):
        rest = v.items[v.pos:]
        v.pos = len(v.items)
        return rest
    if isinstance(v, SObj):
        f, _ = v.cls.lookup('__iter__')
        if isinstance(f, FuncVal):
            it = ex.call(BoundMethod(v, f), [], {})
            if isinstance(it, SObj):
                return iter_obj(ex, it)
            return iterate(ex, it, where)
    if v is None:
        ex.throw('TypeError', "'NoneType' object is not iterable")
    if is_num(v):
        ex.throw('TypeError', "'int' object is not iterable")
    raise Unsupported('iteration over %r' % (v,))


def iter_obj(ex, it):
    nx, _ = it.cls.lookup('__next__')
    if not isinstance(nx, FuncVal):
        raise Unsupported('iterator without __next__')
    n = 0
    while True:
        try:
            x = ex.call(BoundMethod(it, nx), [], {})
        except PyRaise as e:
            if e.exc.cls.issubclass(ex.world.builtin_class('StopIteration')):
                return
            raise
        n += 1
        if n > ex.max_unroll:
            raise Unsupported('iterator exceeds unroll bound')
        yield x


def iter_count(ex, c, where):
    k = 0
    while True:
        if k >= ex.max_unroll:
            raise Unsupported('loop over itertools.count() exceeds unroll bound %d: no bound on the iterations at %s'
                              % (ex.max_unroll, ex.where(where) if where is not None else '?'))
        yield mk_int(zi(c.start) + k * zi(c.step)) if not (isinstance(c.start, int) and isinstance(c.step, int)) \
            else c.start + k * c.step
        k += 1


def iter_symrange(ex, r, where):
    if not isinstance(r.step, int) or r.step == 0:
        raise Unsupported('range with symbolic step')
    k = 0
    while True:
        cur = mk_int(zi(r.start) + k * r.step)
        more = mk_bool(zi(cur) < zi(r.stop)) if r.step > 0 else mk_bool(zi(cur) > zi(r.stop))
        if not ex.branch(more):
            return
        if k >= ex.max_unroll:
            raise Unsupported('for over symbolic range exceeds unroll bound %d (no invariant) at %s'
                              % (ex.max_unroll, ex.where(where) if where is not None else '?'))
        yield cur
        k += 1


def iter_symbytes(ex, b, where):
    k = 0
    while True:
        if not ex.branch(mk_bool(k < zlen(b))):
            return
        if k >= ex.max_unroll:
            raise Unsupported('for over symbolic-length bytes exceeds unroll bound')
        yield mk_int(b.at(k))
        k += 1


def iter_symlist(ex, l, where):
    for x in list(l.left):
        yield x
    k = 0
    while True:
        if not ex.branch(mk_bool(k < zi(l.mid.length))):
            break
        if k >= ex.max_unroll:
            raise Unsupported('for over symbolic-length list exceeds unroll bound')
        yield l.mid.elem(z3.simplify(zi(l.mid.start) + k))
        k += 1
    for x in list(l.right):
        yield x


def unpack_iter(ex, v, n, star=False):
    if v is None or is_num(v):
        ex.throw('TypeError', 'cannot unpack non-iterable %s object' % tname(v))
    items = list(iterate(ex, v))
    if star:
        if len(items) < n - 1:
            ex.throw('ValueError', 'not enough values to unpack')
        return items
    if len(items) != n:
        ex.throw('ValueError', 'too many values to unpack' if len(items) > n
                 else 'not enough values to unpack (expected %d, got %d)' % (n, len(items)))
    return items


# ------------------------------------------------------------ with
def ctx_enter(ex, m):
    if isinstance(m, LockVal):
        lock_acquire(ex, m)
        return True
    if isinstance(m, CondVal):
        lock_acquire(ex, m.lock)
        return True
    if isinstance(m, SObj):
        f, _ = m.cls.lookup('__enter__')
        if isinstance(f, FuncVal):
            return ex.call(BoundMethod(m, f), [], {})
        ex.throw('AttributeError', '__enter__')
    raise Unsupported('with on %r' % (m,))


def ctx_exit(ex, m, exc):
    if isinstance(m, LockVal):
        lock_release(ex, m)
        return False
    if isinstance(m, CondVal):
        lock_release(ex, m.lock)
        return False
    f, _ = m.cls.lookup('__exit__')
    if exc is None:
        r = ex.call(BoundMethod(m, f), [None, None, None], {})
    else:
        r = ex.call(BoundMethod(m, f), [exc.cls, exc, None], {})
    return ex.branch(ex.truth(r))


def lock_acquire(ex, l):
    if l.held and not l.reentrant:
        ex.events.append(('self-deadlock', l))
        h = ex.hooks.get('on_deadlock')
        if h:
            h(ex, l)
    l.held += 1
    ex.events.append(('acquire', l))
    h = ex.hooks.get('on_acquire')
    if h and l.held == 1:
        h(ex, l)


def lock_release(ex, l):
    if l.held == 0:
        ex.throw('RuntimeError', 'release unlocked lock')
    l.held -= 1
    ex.events.append(('release', l))


# ------------------------------------------------------------ attributes
BYTES_METHODS = {'startswith', 'endswith', 'index', 'find', 'decode', 'hex', 'append', 'extend', 'pop',
                 'insert', 'join', 'count', 'tobytes', 'strip', 'rstrip', 'lstrip', 'ljust', 'rjust',
                 'split', 'replace', 'upper', 'lower', 'copy', 'clear', 'reverse', 'remove', 'isalnum',
                 'fromhex', 'tolist', 'release', 'rfind', 'title', 'partition', 'zfill', 'isdigit'}
LIST_METHODS = {'append', 'appendleft', 'pop', 'popleft', 'extend', 'extendleft', 'insert', 'remove',
                'index', 'clear', 'rotate', 'count', 'reverse', 'sort', 'copy'}
DICT_METHODS = {'get', 'setdefault', 'keys', 'values', 'items', 'pop', 'update', 'copy', 'clear',
                'popitem'}
SET_METHODS = {'add', 'remove', 'discard', 'union', 'difference', 'intersection', 'update', 'copy',
               'clear', 'issubset', 'issuperset', 'pop', 'difference_update'}
STR_METHODS = {'format', 'encode', 'join', 'startswith', 'endswith', 'index', 'find', 'upper', 'lower',
               'strip', 'rstrip', 'lstrip', 'split', 'replace', 'ljust', 'rjust', 'zfill', 'isdigit',
               'title', 'capitalize', 'count', 'splitlines', 'rsplit', 'center', 'partition',
               'rpartition', 'isalpha', 'isalnum', 'rfind', 'translate', 'expandtabs'}


def getattr_(ex, obj, name):
    if isinstance(obj, SObj):
        return obj_getattr(ex, obj, name)
    if isinstance(obj, SuperVal):
        f, c = obj.cls_lookup(name) if hasattr(obj, 'cls_lookup') else super_lookup(obj, name)
        if f is None:
            return NativeMethod(obj, name)
        if isinstance(f, FuncVal):
            return BoundMethod(obj.obj, f)
        if isinstance(f, PropertyVal):
            return ex.call(f.fget, [obj.obj], {})
        if isinstance(f, StaticMethodVal):
            return f.f
        if isinstance(f, ClassMethodVal):
            tgt = obj.obj.cls if isinstance(obj.obj, SObj) else obj.obj
            return BoundMethod(tgt, f.f)
        return f
    if isinstance(obj, ClassVal):
        if name == '__name__':
            return obj.name
        if name == '__mro__':
            return STuple(obj.mro)
        if name == '__module__':
            return obj.module.name if obj.module else 'builtins'
        f, c = obj.lookup(name)
        if f is None:
            if obj.builtin or any(k.builtin for k in obj.mro):
                return NativeMethod(obj, name)
            ex.throw('AttributeError', "type object %r has no attribute %r" % (obj.name, name))
        if isinstance(f, StaticMethodVal):
            return f.f
        if isinstance(f, ClassMethodVal):
            return BoundMethod(obj, f.f)
        if isinstance(f, Missing):
            raise Unsupported('use of %s.%s: %s' % (obj.qualname, name, f.why))
        return f
    if isinstance(obj, ModuleVal):
        return ex.world.module_attr(ex, obj, name)
    if obj is None:
        ex.throw('AttributeError', "'NoneType' object has no attribute %r" % name)
    if isinstance(obj, SBytes):
        if name in BYTES_METHODS:
            return NativeMethod(obj, name)
        ex.throw('AttributeError', "'%s' object has no attribute %r" % (tname(obj), name))
    if isinstance(obj, SList):
        if name in LIST_METHODS:
            return NativeMethod(obj, name)
        if name == 'maxlen':
            return None
        ex.throw('AttributeError', "'list' object has no attribute %r" % name)
    if isinstance(obj, SDict):
        if name in DICT_METHODS:
            return NativeMethod(obj, name)
        ex.throw('AttributeError', "'dict' object has no attribute %r" % name)
    if isinstance(obj, SSet):
        if name in SET_METHODS:
            return NativeMethod(obj, name)
        ex.throw('AttributeError', "'set' object has no attribute %r" % name)
    if isinstance(obj, (str, SStr)):
        if name in STR_METHODS:
            return NativeMethod(obj, name)
        ex.throw('AttributeError', "'str' object has no attribute %r" % name)
    if isinstance(obj, tuple):
        if name in ('index', 'count'):
            return NativeMethod(obj, name)
        ex.throw('AttributeError', "'tuple' object has no attribute %r" % name)
    if isinstance(obj, slice):
        if name in ('start', 'stop', 'step'):
            return getattr(obj, name)
        if name == 'indices':
            return NativeMethod(obj, name)
        ex.throw('AttributeError', "'slice' object has no attribute %r" % name)
    if isinstance(obj, CondVal) and name in ('notified', 'notified_all', 'waits'):
        return getattr(obj, name)       # ghost counters (spec only)
    if isinstance(obj, LockVal) and name == 'held':
        return obj.held
    if isinstance(obj, (LockVal, CondVal)):
        return NativeMethod(obj, name)
    if is_num(obj):
        if name in ('bit_length', 'to_bytes', 'real', 'imag', 'is_integer'):
            return NativeMethod(obj, name)
        ex.throw('AttributeError', "'%s' object has no attribute %r" % (tname(obj), name))
    if isinstance(obj, FuncVal):
        if name == '__name__':
            return obj.node.name if hasattr(obj.node, 'name') else '<lambda>'
        if name == '__doc__':
            return None
        ex.throw('AttributeError', "'function' object has no attribute %r" % name)
    if isinstance(obj, BoundMethod):
        if name == '__self__':
            return obj.self_obj
        if name == '__func__':
            return obj.func
        if name == '__name__':
            return obj.func.node.name
        ex.throw('AttributeError', "'method' object has no attribute %r" % name)
    if isinstance(obj, PropertyVal):
        if name == 'setter':
            return NativeMethod(obj, name)
    if isinstance(obj, Missing):
        raise Unsupported('attribute of missing value: %s' % obj.why)
    if isinstance(obj, NativeObj):
        return obj.getattr(ex, name)
    raise Unsupported('getattr %r.%s' % (obj, name))


class NativeObj(object):
    """Base for host-implemented helper objects exposed to interpreted code."""
    def getattr(self, ex, name):
        raise Unsupported('native attr %s' % name)


def super_lookup(sv, name):
    o = sv.obj
    cls = o.cls if isinstance(o, SObj) else o
    return cls.lookup(name, after=sv.cls)


def obj_getattr(ex, obj, name):
    f, c = obj.cls.lookup(name)
    if isinstance(f, PropertyVal):
        return ex.call(f.fget, [obj], {})
    if name in obj.fields:
        v = obj.fields[name]
        if isinstance(v, LazyField):
            v = v.force(ex, obj, name)
        return v
    if f is not None:
        if isinstance(f, FuncVal):
            return BoundMethod(obj, f)
        if isinstance(f, StaticMethodVal):
            return f.f
        if isinstance(f, ClassMethodVal):
            return BoundMethod(obj.cls, f.f)
        if isinstance(f, Missing):
            raise Unsupported('use of %s.%s: %s' % (obj.cls.qualname, name, f.why))
        return f
    if name == '__class__':
        return obj.cls
    if name == '__dict__':
        d = SDict()
        d.d = FieldsProxy(obj.fields)
        return d
    ga, _ = obj.cls.lookup('__getattr__')
    if isinstance(ga, FuncVal):
        return ex.call(BoundMethod(obj, ga), [name], {})
    if getattr(obj, 'partial', False):
        raise Unsupported('field %s.%s not declared in the symbolic shape' % (obj.cls.qualname, name))
    if name in ('__str__', '__repr__', '__init__', '__eq__', '__ne__', '__hash__', '__setattr__',
                '__getattribute__', 'with_traceback'):
        return NativeMethod(obj, name)
    ex.throw('AttributeError', "'%s' object has no attribute %r" % (obj.cls.name, name))


class FieldsProxy(object):
    """live view of an object's attribute dict in SDict storage format"""
    def __init__(self, fields):
        self.f = fields

    def __getitem__(self, k):
        return (k, self.f[k])

    def __setitem__(self, k, v):
        self.f[k] = v[1]

    def __delitem__(self, k):
        del self.f[k]

    def __contains__(self, k):
        return k in self.f

    def __iter__(self):
        return iter(self.f)

    def __len__(self):
        return len(self.f)

    def keys(self):
        return self.f.keys()

    def values(self):
        return [(k, v) for k, v in self.f.items()]

    def items(self):
        return [(k, (k, v)) for k, v in self.f.items()]

    def get(self, k, default=None):
        return (k, self.f[k]) if k in self.f else default

    def pop(self, k, *a):
        if k in self.f:
            return (k, self.f.pop(k))
        if a:
            return a[0]
        raise KeyError(k)

    def clear(self):
        self.f.clear()


class LazyField(object):
    def __init__(self, fn):
        self.fn = fn

    def force(self, ex, obj, name):
        v = self.fn(ex)
        obj.fields[name] = v
        return v


def setattr_(ex, obj, name, v):
    if isinstance(obj, SObj):
        sa, c = obj.cls.lookup('__setattr__')
        if isinstance(sa, FuncVal):
            ex.call(BoundMethod(obj, sa), [name, v], {})
            return
        f, c = obj.cls.lookup(name)
        if isinstance(f, PropertyVal):
            if f.fset is None:
                ex.throw('AttributeError', "can't set attribute %r" % name)
            ex.call(f.fset, [obj, v], {})
            return
        h = ex.hooks.get('on_setattr')
        if h:
            h(ex, obj, name, v)
        obj.fields[name] = v
        return
    if isinstance(obj, ModuleVal):
        obj.globals[name] = v
        return
    if isinstance(obj, ClassVal):
        obj.attrs[name] = v
        return
    if obj is None:
        ex.throw('AttributeError', "'NoneType' object has no attribute %r" % name)
    if isinstance(obj, FuncVal):
        return
    if isinstance(obj, NativeObj):
        return obj.setattr(ex, name, v)
    ex.throw('AttributeError', "'%s' object has no attribute %r" % (tname(obj), name))


# ------------------------------------------------------------ calls
def call(ex, fn, args, kwargs):
    if isinstance(fn, FuncVal):
        return ex.call_function(fn, args, kwargs)
    if isinstance(fn, BoundMethod):
        return call(ex, fn.func, [fn.self_obj] + list(args), kwargs)
    if isinstance(fn, NativeFunc):
        return fn.fn(ex, list(args), kwargs)
    if isinstance(fn, NativeMethod):
        return call_native_method(ex, fn.obj, fn.name, list(args), kwargs)
    if isinstance(fn, ClassVal):
        return instantiate(ex, fn, list(args), kwargs)
    if isinstance(fn, SObj):
        f, _ = fn.cls.lookup('__call__')
        if isinstance(f, FuncVal):
            return ex.call_function(f, [fn] + list(args), kwargs)
        ex.throw('TypeError', "'%s' object is not callable" % fn.cls.name)
    if isinstance(fn, Missing):
        q = getattr(fn, 'qual', None)
        if q is not None and q in ex.call_contracts:
            # function of a module outside the verified sources, standing under an assumed contract:
            # parameters are bound in the order the contract declares them
            c = ex.call_contracts[q]
            import ast as _ast
            src = 'def %s(%s):\n    pass\n' % (q.split('.')[-1], ', '.join(c.params))
            node = _ast.parse(src).body[0]
            f = FuncVal(node, None, [], qualname=q)
            return ex.hooks['apply_contract'](ex, c, f, list(args), kwargs)
        raise Unsupported('call of missing value: %s' % fn.why)
    if fn is None:
        ex.throw('TypeError', "'NoneType' object is not callable")
    if isinstance(fn, StaticMethodVal):
        return call(ex, fn.f, args, kwargs)
    if isinstance(fn, NativeObj) and hasattr(fn, 'call'):
        return fn.call(ex, list(args), kwargs)
    if is_num(fn) or isinstance(fn, (str, SBytes, tuple, SList, SDict)):
        ex.throw('TypeError', "'%s' object is not callable" % tname(fn))
    raise Unsupported('call of %r' % (fn,))


def instantiate(ex, cls, args, kwargs):
    if cls.builtin:
        return ex.world.builtin_new(ex, cls, args, kwargs)
    o = SObj(cls)
    ex.heap.append(o)
    init, c = cls.lookup('__init__')
    if isinstance(init, FuncVal):
        ex.call_function(init, [o] + args, kwargs)
    elif c is not None and c.builtin or init is None:
        ex.world.builtin_init(ex, o, args, kwargs)
    return o


def call_native_method(ex, obj, name, args, kwargs):
    from . import methods
    return methods.call_method(ex, obj, name, args, kwargs)
