"""Environment model of the host link (USB/TTY transport): write() records
what the driver hands over, read() returns an arbitrary byte string or raises
IOError.  This is the assumed contract of nfc.clf.transport.* for C13/C14."""
import errno
from pyvc_rt import nondet_int, nondet_bool, nondet_bytearray


class Transport(object):
    TYPE = "USB"

    def __init__(self):
        self.written = []
        self.last = None

    def write(self, frame):
        # the host link may fail at any point (device unplugged): a write can raise IOError too
        if nondet_bool():
            raise IOError(errno.EIO, "input/output error")
        self.written.append(bytes(frame))

    def read(self, timeout=0):
        if nondet_bool():
            if nondet_bool():
                raise IOError(errno.ETIMEDOUT, "timeout")
            raise IOError(errno.EIO, "input/output error")
        b = nondet_bytearray(0, None)
        self.last = bytes(b)      # ghost: what the device sent last
        return b

    def close(self):
        pass
