"""Environment model of the host link (USB/TTY transport): write() records
what the driver hands over, read() returns an arbitrary byte string or raises
IOError.  This is the assumed contract of nfc.clf.transport.* for C13/C14."""
import errno
from pyvc_rt import nondet_int, nondet_bool, nondet_bytearray, nondet_bytes, require


class Transport(object):
    TYPE = "USB"

    def __init__(self):
        self.written = []
        self.last = None

    def write(self, frame):
        # the host link may fail at any point (device unplugged): a write can raise IOError too
        if nondet_bool():
            raise IOError(errno.EIO, "input/output error")
        self.written.append(bytes(frame))

    def read(self, timeout=0):
        if nondet_bool():
            if nondet_bool():
                raise IOError(errno.ETIMEDOUT, "timeout")
            raise IOError(errno.EIO, "input/output error")
        b = nondet_bytearray(0, None)
        self.last = bytes(b)      # ghost: what the device sent last
        return b

    def close(self):
        pass


class UsbTransport(Transport):
    """nfc.clf.transport.USB as the RC-S380 driver sees it: one bulk read delivers 1..300 octets (bulkRead is
    called with a 300 octet buffer and an empty read is turned into IOError), any content, or fails."""

    def read(self, timeout=0):
        if nondet_bool():
            if nondet_bool():
                raise IOError(errno.ETIMEDOUT, "timeout")
            raise IOError(errno.EIO, "input/output error")
        b = nondet_bytearray(1, 300)
        self.last = bytes(b)
        return b


from specs.pn53x_frame import pn53x_body


class TtyTransport(object):
    """A serial host link as pn532.init() uses it (open/write/read): the chip answers anything or nothing.  Interface
    obligation at every write: what is written is an ACK frame or - after any number of extra preamble octets - a
    well-formed PN53x information frame from the host (TFI D4h)."""
    TYPE = "TTY"
    port = "/dev/ttyUSB0"

    def __init__(self):
        self.written = 0
        self.baudrate = 115200

    def open(self, port, baudrate):
        self.baudrate = baudrate

    def write(self, frame):
        frame = bytes(frame)
        ok = frame == bytes.fromhex('0000FF00FF00')
        if not ok and len(frame) >= 10 and frame[0:10] == bytes(10):
            body = pn53x_body(frame[10:])
            ok = body is not None and body[0] == 0xD4
        require(ok, 'every frame written to the chip is well formed')
        self.written += 1

    def read(self, timeout=0):
        if nondet_bool():
            raise IOError(errno.ETIMEDOUT, "timeout")
        return nondet_bytearray(0, None)

    def close(self):
        pass


import usb1


class UsbEndpoint(object):
    def __init__(self, addr, size):
        self.addr, self.size = addr, size

    def getAddress(self):
        return self.addr

    def getMaxPacketSize(self):
        return self.size


class UsbHandle(object):
    """python-libusb1 device handle as nfc.clf.transport.USB uses it: every bulk transfer may fail with any
    USBError (timeout, device unplugged, pipe error, ...); a read returns up to the requested number of octets"""
    def __init__(self):
        self.transfers = 0

    def _fail(self):
        k = nondet_int(0, 3)
        if k == 1:
            raise usb1.USBErrorTimeout()
        if k == 2:
            raise usb1.USBErrorNoDevice()
        if k == 3:
            raise usb1.USBErrorPipe()

    def bulkWrite(self, endpoint, data, timeout=0):
        self.transfers = self.transfers + 1
        self._fail()
        return len(data)

    def bulkRead(self, endpoint, length, timeout=0):
        self.transfers = self.transfers + 1
        self._fail()
        return nondet_bytearray(0, length)


class UdpSocket(object):
    """the datagram socket of the udp driver: recvfrom() delivers a datagram of ANY content (bounded here: at most 8
    octets, so that the driver's text parsing is decided exactly) or fails; sendto() sends all, part, or fails"""
    def __init__(self):
        self.sent = 0

    def sendto(self, data, addr):
        self.sent = self.sent + 1
        if nondet_bool():
            raise IOError(errno.ENETUNREACH, "network is unreachable")
        return nondet_int(0, len(data))

    def recvfrom(self, bufsize):
        if nondet_bool():
            raise IOError(errno.ECONNREFUSED, "connection refused")
        return (nondet_bytes(0, 8), ('127.0.0.1', 54321))
