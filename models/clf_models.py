"""Environment model of a contactless device driver (nfc.clf.device.Device
interface).  For C15 every driver entry point carries the interface
precondition "the frontend's lock is held by the caller"."""
import errno
import nfc.clf
from pyvc_rt import nondet_int, nondet_bool, nondet_bytes, nondet_bytearray, require


class DeviceModel(object):
    def __init__(self, lock):
        self.lock = lock        # the frontend's lock (ghost reference)
        self.closed = False

    def _enter(self, what):
        require(self.lock.locked(), 'driver call with clf.lock held')
        require(not self.closed, 'driver call on an open device')

    def close(self):
        self._enter('close')
        self.closed = True
        # the final commands may fail on the host link (reader unplugged): the driver is closed all the same
        if nondet_bool():
            raise IOError(5, 'Input/output error')

    def mute(self):
        self._enter('mute')

    def _found(self, brty):
        if nondet_bool():
            return None
        return nfc.clf.RemoteTarget(brty)

    def sense_tta(self, target):
        self._enter('sense_tta')
        if nondet_bool():
            return None
        return nfc.clf.RemoteTarget(target.brty, sens_res=nondet_bytearray(0, 3),
                                    sel_res=nondet_bytearray(0, 2), sdd_res=nondet_bytearray(0, 10),
                                    rid_res=nondet_bytearray(0, 8))

    def sense_ttb(self, target):
        self._enter('sense_ttb')
        return self._found(target.brty)

    def sense_ttf(self, target):
        self._enter('sense_ttf')
        return self._found(target.brty)

    def sense_dep(self, target):
        self._enter('sense_dep')
        return self._found(target.brty)

    def listen_tta(self, target, timeout):
        self._enter('listen_tta')
        return None if nondet_bool() else nfc.clf.LocalTarget(target.brty)

    def listen_ttb(self, target, timeout):
        self._enter('listen_ttb')
        return None if nondet_bool() else nfc.clf.LocalTarget(target.brty)

    def listen_ttf(self, target, timeout):
        self._enter('listen_ttf')
        return None if nondet_bool() else nfc.clf.LocalTarget(target.brty)

    def listen_dep(self, target, timeout):
        self._enter('listen_dep')
        return None if nondet_bool() else nfc.clf.LocalTarget(target.brty, atr_req=nondet_bytearray(16, 64))

    def send_cmd_recv_rsp(self, target, data, timeout):
        self._enter('send_cmd_recv_rsp')
        return nondet_bytearray(0, None)

    def send_rsp_recv_cmd(self, target, data, timeout):
        self._enter('send_rsp_recv_cmd')
        # as the Device interface documents it: the next command, None when the link broke, or a communication error
        k = nondet_int(0, 4)
        if k == 1:
            return None
        if k == 2:
            raise nfc.clf.TimeoutError("timeout")
        if k == 3:
            raise nfc.clf.TransmissionError("transmission")
        if k == 4:
            raise nfc.clf.BrokenLinkError("rf off")
        return nondet_bytearray(0, None)

    def get_max_send_data_size(self, target):
        self._enter('get_max_send_data_size')
        return nondet_int(1, 65535)

    def get_max_recv_data_size(self, target):
        self._enter('get_max_recv_data_size')
        return nondet_int(1, 65535)

    def turn_on_led_and_buzzer(self):
        self._enter('turn_on_led_and_buzzer')

    def turn_off_led_and_buzzer(self):
        self._enter('turn_off_led_and_buzzer')


class TagModel(object):
    """a tag object as nfc.tag.activate returns it: its presence check goes
    through the frontend's public exchange()"""
    def __init__(self, clf):
        self.clf = clf

    @property
    def is_present(self):
        try:
            return self.clf.exchange(b'\x00', 0.1) is not None
        except nfc.clf.CommunicationError:
            return False


import nfc.tag


class TagEmuModel(nfc.tag.TagEmulation):
    """an emulated tag as nfc.tag.emulate returns it"""
    def __init__(self, clf):
        self.clf = clf
        self.cmd = b'\x00'

    def process_command(self, command):
        # interface obligation: what is processed is a command that was received (the real emulations take its len())
        require(command is not None, 'process_command() is given a received command, not None')
        return None if nondet_bool() else nondet_bytearray(0, 64)

    def send_response(self, response, timeout):
        return self.clf.exchange(response, timeout)


class LlcModel(object):
    """the LLC as far as the frontend uses it"""
    def __init__(self, clf):
        self.clf = clf

    def activate(self, mac, **options):
        return nondet_bool()

    def run(self, terminate=None):
        # the link loop exchanges frames through the frontend's public API
        while not terminate():
            try:
                if self.clf.exchange(b'\x00\x00', 0.1) is None:
                    return
            except nfc.clf.CommunicationError:
                return


class ExchangeClf(object):
    """The RF link as a tag object sees it (C16): every exchange() answers with
    arbitrary bytes or fails with one of the three transient error kinds.
    Ghost lists record what was sent and how each attempt ended."""
    OK, TIMEOUT, TRANSMISSION, PROTOCOL, BROKEN = 0, 1, 2, 3, 4

    def __init__(self):
        self.sent = []
        self.outcomes = []
        self.answers = []

    maxkind = 4      # sequence contracts restrict the failures to timeouts (maxkind = 1) to keep the paths few
    gone = False     # a sense() that found nothing leaves the frontend without a target

    def exchange(self, data, timeout):
        if self.gone:
            # ContactlessFrontend.exchange() without an activated target sends nothing and returns None
            return None
        self.sent.append(bytes(data))
        kind = nondet_int(0, self.maxkind)
        self.outcomes.append(kind)
        if kind == 1:
            raise nfc.clf.TimeoutError("timeout")
        if kind == 2:
            raise nfc.clf.TransmissionError("transmission")
        if kind == 3:
            raise nfc.clf.ProtocolError("protocol")
        if kind == 4:
            # the fourth documented CommunicationError: the RF field is gone (the udp driver reports a peer's
            # RFOFF this way on the initiator side too; Device.send_cmd_recv_rsp documents CommunicationError)
            raise nfc.clf.BrokenLinkError("rf off")
        rsp = nondet_bytearray(0, None)
        self.answers.append(bytes(rsp))
        return rsp

    def sense(self, *targets, **options):
        if nondet_bool():
            self.gone = True
            return None
        self.gone = False
        return targets[0]


class FaultyDevice(object):
    """a driver that honours the documented error contract of the Device interface (C13)"""
    def _outcome(self):
        k = nondet_int(0, 5)
        if k == 1:
            raise nfc.clf.TimeoutError("timeout")
        if k == 2:
            raise nfc.clf.TransmissionError("transmission")
        if k == 3:
            raise nfc.clf.BrokenLinkError("field lost")
        if k == 4:
            raise nfc.clf.ProtocolError("protocol")
        if k == 5:
            raise IOError(5, "host link broken")
        return nondet_bytearray(0, None)

    def send_cmd_recv_rsp(self, target, data, timeout):
        return self._outcome()

    def send_rsp_recv_cmd(self, target, data, timeout):
        return None if nondet_bool() else self._outcome()


EVENTS = []      # ghost event log of callbacks and driver calls (C18); reset per path by the contracts


class SenseDevice(object):
    """driver as sense()/listen() may meet it (C18): each technology entry point returns a target, returns
    None, or raises what the Device interface documents (UnsupportedTargetError, CommunicationError, ValueError
    for invalid target attributes).  Requires that the frontend has forgotten any previous target."""
    def __init__(self, clf):
        self.clf = clf

    def _sense(self, name, target):
        require(self.clf.target is None, 'no target is held while the driver discovers')
        EVENTS.append(name)
        k = nondet_int(0, 5)
        if k == 0:
            return None
        if k == 1:
            raise nfc.clf.UnsupportedTargetError("unsupported")
        if k == 2:
            raise nfc.clf.TransmissionError("crc")
        if k == 3:
            raise nfc.clf.TimeoutError("timeout")
        if k == 4:
            raise ValueError("invalid target attribute")
        return nfc.clf.RemoteTarget(target.brty, sens_res=bytearray(b'\x44\x00'), sel_res=bytearray(b'\x00'),
                                    found_by=name)

    def mute(self):
        EVENTS.append('mute')
        # switching the field off talks to the chip: the host link may fail
        if nondet_bool():
            raise IOError(errno.EIO, 'input/output error')

    def sense_tta(self, target):
        return self._sense('sense_tta', target)

    def sense_ttb(self, target):
        return self._sense('sense_ttb', target)

    def sense_ttf(self, target):
        return self._sense('sense_ttf', target)

    def sense_dep(self, target):
        return self._sense('sense_dep', target)


class DirDevice(object):
    """records which exchange direction the frontend used (C18)"""
    def __init__(self):
        self.used = None

    def send_cmd_recv_rsp(self, target, data, timeout):
        self.used = "cmd"
        return nondet_bytearray(0, None)

    def send_rsp_recv_cmd(self, target, data, timeout):
        self.used = "rsp"
        return nondet_bytearray(0, None)


class PresentClf(object):
    """a frontend with the tag in the field: re-activation always finds it"""
    def sense(self, *targets, **options):
        return targets[0]


class BlockClf(ExchangeClf):
    """the RF link below ISO-DEP (C12): like ExchangeClf, and every block handed over must fit the card's frame
    size (FSC - 2 octets EDC = PCB + at most FSC-3 information octets)"""
    def __init__(self, limit):
        ExchangeClf.__init__(self)
        self.limit = limit

    def exchange(self, data, timeout):
        # S-blocks (WTX responses echo the card's own request) are exempt
        require(len(data) <= self.limit or (len(data) >= 1 and data[0] >= 0xC0),
                'block within the frame size of the card')
        return ExchangeClf.exchange(self, data, timeout)


class AtsClf(object):
    """frontend during Type 4A activation: answers RATS with a given ATS"""
    def __init__(self, ats, max_send, max_recv):
        self.ats = ats
        self.max_send_data_size = max_send
        self.max_recv_data_size = max_recv

    def exchange(self, data, timeout):
        return bytearray(self.ats)


class LlcOptModel(LlcModel):
    """LlcModel that records the NFC-DEP options activate() was called with (C19)"""
    def __init__(self, clf):
        self.clf = clf
        self.got = None

    def activate(self, mac, **options):
        self.got = options
        return nondet_bool()


class IsoScriptClf(object):
    """fault script for one ISO-DEP exchange of a single-block command (C12): the first attempt is lost or
    corrupted; the PCD must then send R(NAK) with the current block number, to which a conforming card retransmits
    its response I-block"""
    def __init__(self, kind, pni, payload):
        self.kind = kind            # 1 timeout, 2 transmission error
        self.pni = pni
        self.payload = payload
        self.n = 0

    def exchange(self, data, timeout):
        self.n = self.n + 1
        if self.n == 1:
            if self.kind == 1:
                raise nfc.clf.TimeoutError("lost")
            raise nfc.clf.TransmissionError("corrupted")
        require(self.n == 2, 'no further block after the retransmitted response')
        require(bytes(data) == bytes([0xB2 | self.pni]), 'R(NAK) with the current block number after the fault')
        return bytearray([0x02 | self.pni]) + self.payload


class IsoChainScriptClf(object):
    """fault script for a two-block (chained) command: the card's R(ACK) to the first block is lost; after the PCD's
    R(NAK) the card repeats the R(ACK); the second block then goes out with the toggled block number, carrying the
    rest of the command, and is answered by the response I-block"""
    def __init__(self, pni, miu, command, payload):
        self.pni, self.miu, self.command, self.payload = pni, miu, command, payload
        self.n = 0

    def exchange(self, data, timeout):
        self.n = self.n + 1
        if self.n == 1:
            require(bytes(data) == bytes([0x12 | self.pni]) + bytes(self.command[0:self.miu]),
                    'first I-block: chaining bit, current block number, the first miu octets')
            raise nfc.clf.TimeoutError("R(ACK) lost")
        if self.n == 2:
            require(bytes(data) == bytes([0xB2 | self.pni]), 'R(NAK) with the current block number after the fault')
            return bytearray([0xA2 | self.pni])
        require(self.n == 3, 'no further block after the response')
        require(bytes(data) == bytes([0x02 | (1 - self.pni)]) + bytes(self.command[self.miu:]),
                'second I-block: toggled block number, the rest of the command, sent once')
        return bytearray([0x02 | (1 - self.pni)]) + self.payload


class IsoLostBlockScriptClf(object):
    """fault script for a two-block command whose SECOND block never reaches the card: first block acknowledged,
    second block lost, the card answers the R(NAK) with R(ACK) carrying the old block number, the PCD must send
    the very same second block again, which is then answered by the response"""
    def __init__(self, pni, miu, command, payload):
        self.pni, self.miu, self.command, self.payload = pni, miu, command, payload
        self.n = 0

    def exchange(self, data, timeout):
        self.n = self.n + 1
        second = bytes([0x02 | (1 - self.pni)]) + bytes(self.command[self.miu:])
        if self.n == 1:
            require(bytes(data) == bytes([0x12 | self.pni]) + bytes(self.command[0:self.miu]), 'first I-block')
            return bytearray([0xA2 | self.pni])
        if self.n == 2:
            require(bytes(data) == second, 'second I-block: toggled block number, the rest of the command')
            raise nfc.clf.TimeoutError("block lost")
        if self.n == 3:
            require(bytes(data) == bytes([0xB2 | (1 - self.pni)]), 'R(NAK) with the current block number')
            return bytearray([0xA2 | self.pni])
        require(self.n == 4, 'no further block after the response')
        require(bytes(data) == second, 'the retransmitted block is the same second I-block')
        return bytearray([0x02 | (1 - self.pni)]) + self.payload


class LlcEvModel(object):
    """the LLC as _llcp_connect uses it, logging activation attempts and the link loop (C18)"""
    def __init__(self, clf):
        self.clf = clf

    def activate(self, mac, **options):
        EVENTS.append('activate')
        return nondet_bool()

    def run(self, terminate=None):
        EVENTS.append('run')


class IsoWtxInChainScriptClf(object):
    """script: the card answers a single-block command with a chained response and asks for a waiting time
    extension between the two response blocks (ISO/IEC 14443-4 allows S(WTX) whenever the card needs more time)"""
    def __init__(self, pni, first, second):
        self.pni, self.first, self.second = pni, first, second
        self.n = 0

    def exchange(self, data, timeout):
        self.n = self.n + 1
        if self.n == 1:
            return bytearray([0x12 | self.pni]) + self.first                  # I-block, chaining
        if self.n == 2:
            require(bytes(data) == bytes([0xA2 | (1 - self.pni)]), 'R(ACK) with the toggled block number')
            return bytearray([0xF2, 0x01])                                     # S(WTX) request
        if self.n == 3:
            require(bytes(data) == bytes([0xF2, 0x01]), 'S(WTX) response echoing the request')
            return bytearray([0x02 | (1 - self.pni)]) + self.second           # last I-block
        require(False, 'no further block after the response')


class AnyTransport(object):
    TYPE = "USB"
    baudrate = 115200


class AnyChipset(object):
    """What a driver's Device class sees of its Chipset object when only the Device method is under contract: every
    chipset method returns (nothing the callers below use) or fails with IOError."""
    transport = AnyTransport()

    def __getattr__(self, name):
        def call(*args, **kwargs):
            if nondet_bool():
                raise IOError(errno.EIO, "input/output error")
            return None
        return call


class RegChipset(object):
    """a PN53x chipset as far as register programming goes (C19): reads return any octet, writes are recorded"""
    def __init__(self):
        self.regs = {}
        self.sent = []

    def read_register(self, *names):
        if len(names) == 1:
            return nondet_int(0, 255)
        return [nondet_int(0, 255) for _ in names]

    def write_register(self, *args):
        if len(args) == 2 and isinstance(args[1], int):
            args = [args]
        for name, value in args:
            self.regs[name] = value

    def tg_response_to_initiator(self, data):
        self.sent.append(bytes(data))
