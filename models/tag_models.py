"""Environment models of tags (the dependency "the tag", assumed contracts):
ghost memory behind the command interfaces the NDEF readers/writers use."""
import nfc.tag.tt3
from pyvc_rt import nondet_int, nondet_bool, nondet_bytes, nondet_bytearray, require, ghost


class T3TagAdversary(object):
    """A Type 3 Tag that answers every command arbitrarily (C08): block reads return 16 octets per requested
    block with arbitrary contents, or fail with a command error."""
    def __init__(self, sys):
        self.sys = sys
        self.idm = None
        self.pmm = None
        self.commands = 0

    def polling(self, system_code):
        self.commands = self.commands + 1
        if nondet_bool():
            raise nfc.tag.tt3.Type3TagCommandError(nfc.tag.TIMEOUT_ERROR)
        return (nondet_bytearray(8, 8), nondet_bytearray(8, 8))

    def read_from_ndef_service(self, *blocks):
        self.commands = self.commands + 1
        if nondet_bool():
            raise nfc.tag.tt3.Type3TagCommandError(nfc.tag.TIMEOUT_ERROR)
        n = len(blocks)
        return nondet_bytearray(16 * n, 16 * n)


import nfc.tag.tt4


class T4CardAdversary(object):
    """A Type 4 Tag whose card answers every APDU arbitrarily (C08): any response data of any length, or a
    command error (status word or transport failure)."""
    def __init__(self):
        self.commands = 0

    def send_apdu(self, cla, ins, p1, p2, data=None, mrl=256, check_status=True):
        self.commands = self.commands + 1
        k = nondet_int(0, 2)
        if k == 1:
            raise nfc.tag.tt4.Type4TagCommandError(nfc.tag.TIMEOUT_ERROR)
        if k == 2:
            raise nfc.tag.tt4.Type4TagCommandError(0x6A82)
        return nondet_bytearray(0, None)
