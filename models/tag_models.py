"""Environment models of tags (the dependency "the tag", assumed contracts):
ghost memory behind the command interfaces the NDEF readers/writers use."""
import nfc.tag.tt3
from pyvc_rt import nondet_int, nondet_bool, nondet_bytes, nondet_bytearray, require, ghost


class T3TagAdversary(object):
    """A Type 3 Tag that answers every command arbitrarily (C08): block reads return 16 octets per requested
    block with arbitrary contents, or fail with a command error."""
    def __init__(self, sys):
        self.sys = sys
        self.idm = None
        self.pmm = None
        self.commands = 0

    def polling(self, system_code):
        self.commands = self.commands + 1
        if nondet_bool():
            raise nfc.tag.tt3.Type3TagCommandError(nfc.tag.TIMEOUT_ERROR)
        return (nondet_bytearray(8, 8), nondet_bytearray(8, 8))

    def read_from_ndef_service(self, *blocks):
        self.commands = self.commands + 1
        if nondet_bool():
            raise nfc.tag.tt3.Type3TagCommandError(nfc.tag.TIMEOUT_ERROR)
        n = len(blocks)
        return nondet_bytearray(16 * n, 16 * n)


import nfc.tag.tt4


class T4CardAdversary(object):
    """A Type 4 Tag whose card answers every APDU arbitrarily (C08): any response data of any length, or a
    command error (status word or transport failure)."""
    def __init__(self):
        self.commands = 0

    def send_apdu(self, cla, ins, p1, p2, data=None, mrl=256, check_status=True):
        self.commands = self.commands + 1
        k = nondet_int(0, 2)
        if k == 1:
            raise nfc.tag.tt4.Type4TagCommandError(nfc.tag.TIMEOUT_ERROR)
        if k == 2:
            raise nfc.tag.tt4.Type4TagCommandError(0x6A82)
        return nondet_bytearray(0, None)


import nfc.tag.tt2


class Ntag21xModel(object):
    """NTAG21x as far as password protection goes (NTAG213/215/216 data sheet 8.8, 10.7): the configuration
    pages hold AUTH0, ACCESS, PWD (4 octets) and PACK (2 octets); PWD_AUTH (1Bh) answers PACK iff the
    password matches and NAKs otherwise; PWD and PACK always read back as zero."""
    def __init__(self, cfgpage, mem):
        self.cfgpage = cfgpage
        self.mem = mem          # bytearray: the whole page memory

    def transceive(self, data):
        if len(data) == 5 and data[0] == 0x1B:
            pwd = self.mem[4 * self.cfgpage + 8:4 * self.cfgpage + 12]
            if data[1:5] == pwd:
                return bytearray(self.mem[4 * self.cfgpage + 12:4 * self.cfgpage + 14])
            raise nfc.tag.tt2.Type2TagCommandError(nfc.tag.TIMEOUT_ERROR)
        return nondet_bytearray(0, 16)

    def read(self, page):
        data = bytearray(self.mem[4 * page:4 * page + 16])
        if len(data) != 16:
            raise nfc.tag.tt2.Type2TagCommandError(nfc.tag.tt2.INVALID_PAGE_ERROR)
        # PWD and PACK can not be read back
        for p in range(4):
            if page + p == self.cfgpage + 2:
                data[4 * p:4 * p + 4] = b"\0\0\0\0"
            if page + p == self.cfgpage + 3:
                data[4 * p:4 * p + 2] = b"\0\0"
        return data

    def write(self, page, data):
        if len(data) != 4 or 4 * page + 4 > len(self.mem):
            raise nfc.tag.tt2.Type2TagCommandError(nfc.tag.tt2.INVALID_PAGE_ERROR)
        self.mem[4 * page:4 * page + 4] = data
        return True


from pyvc_rt import ideal


class FelicaLiteModel(object):
    """FeliCa Lite internal authentication (FeliCa Lite user's manual 3.3/3.4, as read independently):
    the card key CK is secret; the reader writes the random challenge to block 80h, each 8-octet half in
    reversed octet order; the session key is 3DES-CBC(CK, iv=0) of RC1||RC2; reading ID (82h) together with
    MAC (81h) returns ID || MAC(ID, SK, iv=RC1) || 8 zero octets."""
    def __init__(self, ck, idblock):
        self.ck = ck
        self.idblock = idblock
        self.rcblock = bytes(16)

    def write(self, data, block):
        if block == 0x80:
            self.rcblock = bytes(data)
        return None

    def rc(self):
        b = self.rcblock
        return bytes([b[7], b[6], b[5], b[4], b[3], b[2], b[1], b[0],
                      b[15], b[14], b[13], b[12], b[11], b[10], b[9], b[8]])

    def read_id_and_mac(self):
        rc = self.rc()
        sk = ideal('3des-encrypt', 16, self.ck, bytes(8), rc)
        mac = ideal('mac', 8, self.idblock, sk, rc[0:8], False)
        return bytearray(self.idblock + mac + bytes(8))
