"""Environment models of tags (the dependency "the tag", assumed contracts):
ghost memory behind the command interfaces the NDEF readers/writers use."""
import nfc.tag.tt3
from pyvc_rt import nondet_int, nondet_bool, nondet_bytes, nondet_bytearray, require, ghost


class T3TagAdversary(object):
    """A Type 3 Tag that answers every command arbitrarily (C08): block reads return 16 octets per requested
    block with arbitrary contents, or fail with a command error."""
    def __init__(self, sys):
        self.sys = sys
        self.idm = None
        self.pmm = None
        self.commands = 0
        self.unverified = False

    def polling(self, system_code):
        self.commands = self.commands + 1
        if nondet_bool():
            raise nfc.tag.tt3.Type3TagCommandError(nfc.tag.TIMEOUT_ERROR)
        return (nondet_bytearray(8, 8), nondet_bytearray(8, 8))

    def read_from_ndef_service(self, *blocks):
        # the real command builder is proved for up to 15 blocks (C08/tt3.read_from_ndef_service[15,*]); more
        # do not fit one response frame
        require(len(blocks) >= 1 and len(blocks) <= 15, 'at most 15 blocks per READ command')
        self.commands = self.commands + 1
        if nondet_bool():
            raise nfc.tag.tt3.Type3TagCommandError(nfc.tag.TIMEOUT_ERROR)
        if nondet_bool():
            # an authenticated FeliCa Lite reads the NDEF service with MAC (read_from_ndef_service is read_with_mac
            # then): the documented answer to a MAC that does not verify is None - nothing of it may be delivered
            self.unverified = True
            return None
        n = len(blocks)
        return nondet_bytearray(16 * n, 16 * n)


import nfc.tag.tt4


class T4CardAdversary(object):
    """A Type 4 Tag whose card answers every APDU arbitrarily (C08): any response data of any length, or a
    command error (status word or transport failure)."""
    def __init__(self):
        self.commands = 0

    def send_apdu(self, cla, ins, p1, p2, data=None, mrl=256, check_status=True):
        self.commands = self.commands + 1
        k = nondet_int(0, 2)
        if k == 1:
            raise nfc.tag.tt4.Type4TagCommandError(nfc.tag.TIMEOUT_ERROR)
        if k == 2:
            raise nfc.tag.tt4.Type4TagCommandError(0x6A82)
        return nondet_bytearray(0, None)

    def exchange(self, data, timeout):
        """the same adversary one layer down, behind ISO-DEP: any response APDU, or a command error"""
        self.commands = self.commands + 1
        k = nondet_int(0, 2)
        if k == 1:
            raise nfc.tag.tt4.Type4TagCommandError(nfc.tag.TIMEOUT_ERROR)
        if k == 2:
            raise nfc.tag.tt4.Type4TagCommandError(nfc.tag.PROTOCOL_ERROR)
        return nondet_bytearray(0, None)


import nfc.tag.tt2


class Ntag21xModel(object):
    """NTAG21x as far as password protection goes (NTAG213/215/216 data sheet 8.8, 10.7): the configuration
    pages hold AUTH0, ACCESS, PWD (4 octets) and PACK (2 octets); PWD_AUTH (1Bh) answers PACK iff the
    password matches and NAKs otherwise; PWD and PACK always read back as zero."""
    def __init__(self, cfgpage, mem):
        self.cfgpage = cfgpage
        self.mem = mem          # bytearray: the whole page memory

    def transceive(self, data):
        if len(data) == 5 and data[0] == 0x1B:
            pwd = self.mem[4 * self.cfgpage + 8:4 * self.cfgpage + 12]
            if data[1:5] == pwd:
                return bytearray(self.mem[4 * self.cfgpage + 12:4 * self.cfgpage + 14])
            # refused: the tag stays mute, or answers a 4-bit NAK that drivers deliver as one octet
            # (0h, 1h, 4h, 5h - the form Type2Tag.read() handles too)
            if nondet_bool():
                return bytearray([(0, 1, 4, 5)[nondet_int(0, 3)]])
            raise nfc.tag.tt2.Type2TagCommandError(nfc.tag.TIMEOUT_ERROR)
        return nondet_bytearray(0, 16)

    def read(self, page):
        data = bytearray(self.mem[4 * page:4 * page + 16])
        if len(data) != 16:
            raise nfc.tag.tt2.Type2TagCommandError(nfc.tag.tt2.INVALID_PAGE_ERROR)
        # PWD and PACK can not be read back
        for p in range(4):
            if page + p == self.cfgpage + 2:
                data[4 * p:4 * p + 4] = b"\0\0\0\0"
            if page + p == self.cfgpage + 3:
                data[4 * p:4 * p + 2] = b"\0\0"
        return data

    def write(self, page, data):
        if len(data) != 4 or 4 * page + 4 > len(self.mem):
            raise nfc.tag.tt2.Type2TagCommandError(nfc.tag.tt2.INVALID_PAGE_ERROR)
        self.mem[4 * page:4 * page + 4] = data
        return True


from pyvc_rt import ideal


class FelicaLiteModel(object):
    """FeliCa Lite internal authentication (FeliCa Lite user's manual 3.3/3.4, as read independently):
    the card key CK is secret; the reader writes the random challenge to block 80h, each 8-octet half in
    reversed octet order; the session key is 3DES-CBC(CK, iv=0) of RC1||RC2; reading ID (82h) together with
    MAC (81h) returns ID || MAC(ID, SK, iv=RC1) || 8 zero octets."""
    def __init__(self, ck, idblock):
        self.ck = ck
        self.idblock = idblock
        self.rcblock = bytes(16)

    def write(self, data, block):
        if block == 0x80:
            self.rcblock = bytes(data)
        return None

    def rc(self):
        b = self.rcblock
        return bytes([b[7], b[6], b[5], b[4], b[3], b[2], b[1], b[0],
                      b[15], b[14], b[13], b[12], b[11], b[10], b[9], b[8]])

    def read_id_and_mac(self):
        rc = self.rc()
        sk = ideal('3des-encrypt', 16, self.ck, bytes(8), rc)
        mac = ideal('mac', 8, self.idblock, sk, rc[0:8], False)
        return bytearray(self.idblock + mac + bytes(8))


from specs.ndef_map import t3_view, cut_ok


class T3NdefTag(object):
    """A Type 3 Tag with system code 12FCh as ghost memory `mem` (16 octets per block, block 0 first).
    Every write command replaces whole blocks atomically; after each one the C02 cut-point condition is an
    interface obligation, and the C03 frame condition (blocks 0..Nmaxb only) is its precondition."""
    def __init__(self, mem, nblocks, goal):
        self.sys = 0x12FC
        self.mem = mem
        self.mem0 = mem
        self.nblocks = nblocks       # physical number of blocks (block 0 .. nblocks-1)
        self.goal = goal             # ghost: the octets being written
        self.writes = 0

    def read_from_ndef_service(self, *blocks):
        first = blocks[0]
        n = len(blocks)
        require(n >= 1 and n <= 15, 'at most 15 blocks per READ command (what one frame carries)')
        if first < 0 or first + n > self.nblocks:
            raise nfc.tag.tt3.Type3TagCommandError(0x01A8)
        return bytearray(self.mem[16 * first:16 * (first + n)])

    def write_to_ndef_service(self, data, *blocks):
        first = blocks[0]
        n = len(blocks)
        require(len(data) == 16 * n, 'write data is 16 octets per block')
        require(n >= 1 and n <= 12, 'at most 12 blocks per WRITE command (what one frame carries)')
        require(first >= 0 and first + n <= 1 + self.frame_nmaxb(), 'C03: write stays inside blocks 0..Nmaxb')
        self.mem = self.mem[0:16 * first] + bytes(data) + self.mem[16 * (first + n):]
        self.writes = self.writes + 1
        require(cut_ok(t3_view(self.mem), t3_view(self.mem0), self.goal), 'C02: cut after this write command')

    def frame_nmaxb(self):
        return self.mem0[3] * 256 + self.mem0[4]


from specs.ndef_map import t4_view


class T4FileCard(object):
    """A Type 4 Tag (short-APDU card, as every tag object of the library assumes: _extended_length_support is
    never set) with the NDEF application: a capability container file `cc` (E103h) and one NDEF file whose
    content is ghost memory `file` (NLEN field + data area, len(file) = maximum file size of the CC).  It sits
    behind ISO-DEP: exchange() takes the command APDU.  SELECT changes `selected` (0 nothing, 1 CC, 2 NDEF
    file); READ BINARY returns the addressed octets of the selected file; UPDATE BINARY replaces them
    atomically.  Well-formed short APDUs, the C03 frame (inside the NDEF file, never the CC), the card's
    MLc/MLe and the C02 cut-point condition are interface obligations."""
    def __init__(self, cc, file, nlen_size, mlc, mle, goal, selected=0, check_cut=False):
        self.check_cut = check_cut
        self.cc = cc
        self.selected = selected
        self.file = file
        self.file0 = file
        self.nlen_size = nlen_size
        self.mlc = mlc
        self.mle = mle
        self.goal = goal
        self.writes = 0
        self.reads = 0

    def exchange(self, apdu, timeout):
        require(len(apdu) >= 4, 'command APDU has a header')
        ins = apdu[1]
        offset = apdu[2] * 256 + apdu[3]
        if ins == 0xB0:
            require(len(apdu) == 5, 'READ BINARY is a case 2 short APDU')
            le = apdu[4] if apdu[4] > 0 else 256
            require(le <= self.mle, 'READ BINARY Le within the MLe of the card')
            self.reads = self.reads + 1
            if self.selected == 0:
                return bytearray(b'\x69\x86')
            f = self.cc if self.selected == 1 else self.file
            if offset > len(f):
                return bytearray(b'\x6B\x00')
            return bytearray(f[offset:offset + le]) + bytearray(b'\x90\x00')
        if ins == 0xD6:
            require(len(apdu) >= 6 and apdu[4] >= 1 and len(apdu) == 5 + apdu[4],
                    'UPDATE BINARY is a case 3 short APDU')
            data = bytes(apdu[5:])
            require(self.selected == 2, 'C03: UPDATE BINARY only with the NDEF file selected, never the CC')
            require(len(data) <= self.mlc, 'UPDATE BINARY data within the MLc of the card')
            require(offset + len(data) <= len(self.file), 'C03: UPDATE BINARY stays inside the NDEF file')
            self.file = self.file[0:offset] + data + self.file[offset + len(data):]
            self.writes = self.writes + 1
            if self.check_cut:
                require(cut_ok(t4_view(self.file, self.nlen_size), t4_view(self.file0, self.nlen_size),
                               self.goal), 'C02: cut after this UPDATE BINARY')
            return bytearray(b'\x90\x00')
        if ins == 0xA4:
            if apdu[2] == 0x04:
                # SELECT by name: the card has the NDEF application of mapping version 2 and later
                if len(apdu) >= 12 and apdu[4] == 7 and bytes(apdu[5:12]) == b'\xD2\x76\x00\x00\x85\x01\x01':
                    self.selected = 0
                    return bytearray(b'\x90\x00')
                return bytearray(b'\x6A\x82')
            if apdu[2] == 0x00 and len(apdu) >= 7 and apdu[4] == 2:
                if bytes(apdu[5:7]) == b'\xE1\x03':
                    self.selected = 1
                    return bytearray(b'\x90\x00')
                if bytes(apdu[5:7]) == self.cc[9:11]:
                    self.selected = 2
                    return bytearray(b'\x90\x00')
            return bytearray(b'\x6A\x82')
        return bytearray(b'\x6D\x00')


class T2TagAdversary(nfc.tag.tt2.Type2Tag):
    """A Type 2 Tag seen through the page commands (C08): every READ answers 16 arbitrary octets or fails with a
    command error; SECTOR SELECT succeeds or fails."""
    def __init__(self):
        self.commands = 0

    def read(self, page):
        self.commands = self.commands + 1
        if nondet_bool():
            raise nfc.tag.tt2.Type2TagCommandError(nfc.tag.tt2.INVALID_PAGE_ERROR)
        return nondet_bytearray(16, 16)

    def sector_select(self, sector):
        if nondet_bool():
            raise nfc.tag.tt2.Type2TagCommandError(nfc.tag.tt2.INVALID_SECTOR_ERROR)
        return sector


import nfc.tag.tt1


class T1TagAdversary(nfc.tag.tt1.Type1Tag):
    """A Type 1 Tag seen through the read commands (C08), with exactly what the real command methods guarantee
    about an arbitrary tag: RALL returns any octets, READ8 at most 8, RSEG exactly 128, or a command error; block
    and segment numbers out of range are refused with ValueError as the real methods do."""
    def __init__(self):
        self.commands = 0

    def read_all(self):
        self.commands = self.commands + 1
        if nondet_bool():
            raise nfc.tag.tt1.Type1TagCommandError(nfc.tag.TIMEOUT_ERROR)
        return nondet_bytearray(0, None)

    def read_block(self, block):
        if block < 0 or block > 255:
            raise ValueError("invalid block number")
        self.commands = self.commands + 1
        if nondet_bool():
            raise nfc.tag.tt1.Type1TagCommandError(nfc.tag.TIMEOUT_ERROR)
        return nondet_bytearray(0, 8)

    def read_segment(self, segment):
        if segment < 0 or segment > 15:
            raise ValueError("invalid segment number")
        self.commands = self.commands + 1
        if nondet_bool():
            raise nfc.tag.tt1.Type1TagCommandError(nfc.tag.TIMEOUT_ERROR)
        return nondet_bytearray(128, 128)


from specs.ndef_map import t12_view


class TagImage(object):
    """Abstract view of a Type 1/2 memory reader together with the tag behind it (the refinement by the real
    Type2TagMemoryReader is proved separately, C01/tt2.reader.*): `img` is the linear memory image the NDEF code
    works on (what was read, with pending modifications), `mem` what the tag holds.  synchronize() writes the
    units (pages of `unit` octets) that differ, in ascending order; the field may be lost after any of them, so
    every state img[0:unit*j] + mem[unit*j:] must satisfy the C03 frame and, for C02, the cut-point condition."""
    def __init__(self, img, off, end, a, b, unit, goal, check_cut=False, inside=False):
        self.inside = inside
        self.img = img
        self.mem = img
        self.mem0 = img
        self.off, self.end, self.a, self.b = off, end, a, b
        self.unit = unit
        self.goal = goal
        self.check_cut = check_cut
        self.syncs = 0

    def __getitem__(self, key):
        require(key >= 0 and key < len(self.img), 'memory image index inside the tag memory')
        return self.img[key]

    def __setitem__(self, key, value):
        if isinstance(key, slice):
            require(key.start >= 0 and key.start <= key.stop and key.stop <= len(self.img),
                    'memory image slice inside the tag memory')
            require(len(value) == key.stop - key.start, 'slice assignment of identical length')
            self.img = self.img[0:key.start] + bytes(value) + self.img[key.stop:]
        else:
            require(key >= 0 and key < len(self.img), 'memory image index inside the tag memory')
            require(value >= 0 and value <= 255, 'octet value')
            self.img = self.img[0:key] + bytes([value]) + self.img[key + 1:]

    def synchronize(self):
        j = nondet_int(0, len(self.img) // self.unit)
        mid = self.img[0:self.unit * j] + self.mem[self.unit * j:]
        # C03: whatever prefix of the pending units has reached the tag, only octets of the NDEF message area
        # (from the TLV's length field to the end of the data area, reserved range excluded) differ from before
        require(mid[0:self.off + 1] == self.mem0[0:self.off + 1], 'C03: nothing before the NDEF length field changes')
        require(mid[self.end:] == self.mem0[self.end:], 'C03: nothing behind the data area changes')
        if self.inside:
            require(mid[self.a:self.b] == self.mem0[self.a:self.b], 'C03: the reserved octets inside the area keep their value')
        if self.check_cut:
            require(cut_ok(t12_view(mid, self.off, self.end, self.a, self.b),
                           t12_view(self.mem0, self.off, self.end, self.a, self.b), self.goal),
                    'C02: field lost after any prefix of this synchronize()')
        self.mem = self.img
        self.syncs = self.syncs + 1


class T2PageTag(nfc.tag.tt2.Type2Tag):
    """A Type 2 Tag as ghost memory behind the page commands: READ returns 16 octets from the addressed page
    of the selected sector, WRITE replaces one page (4 octets) atomically; a write that changes nothing is never
    needed (interface obligation: C03 page-granular write-back of modified pages only)."""
    def __init__(self, mem, lossy=False):
        self.mem = mem
        self.cur = 0
        self.writes = 0
        self.lossy = lossy

    def sector_select(self, sector):
        self.cur = sector
        return sector

    def read(self, page):
        addr = self.cur * 1024 + (page % 256) * 4
        if addr + 16 > len(self.mem):
            raise nfc.tag.tt2.Type2TagCommandError(nfc.tag.tt2.INVALID_PAGE_ERROR)
        return bytearray(self.mem[addr:addr + 16])

    def write(self, page, data):
        addr = self.cur * 1024 + (page % 256) * 4
        require(len(data) == 4 and addr + 4 <= len(self.mem), 'WRITE addresses one page of the tag')
        require(bytes(data) != self.mem[addr:addr + 4], 'only pages whose content differs are written')
        if self.lossy and nondet_bool():
            # the command is lost (tag leaves the field): nothing is written
            raise nfc.tag.tt2.Type2TagCommandError(nfc.tag.TIMEOUT_ERROR)
        self.mem = self.mem[0:addr] + bytes(data) + self.mem[addr + 4:]
        self.writes = self.writes + 1
        return True


class T1BlockTag(nfc.tag.tt1.Type1Tag):
    """A Type 1 Tag as ghost memory behind the write commands: WRITE-E8 replaces one 8-octet block, WRITE-E one
    octet, atomically; only units whose content differs are written (interface obligation)."""
    def __init__(self, mem):
        self.mem = mem
        self.writes = 0

    def write_block(self, block, data, erase=True):
        addr = 8 * block
        require(len(data) == 8 and addr + 8 <= len(self.mem), 'WRITE-E8 addresses one block of the tag')
        require(bytes(data) != self.mem[addr:addr + 8], 'only blocks whose content differs are written')
        self.mem = self.mem[0:addr] + bytes(data) + self.mem[addr + 8:]
        self.writes = self.writes + 1

    def write_byte(self, addr, data, erase=True):
        require(addr >= 0 and addr < len(self.mem) and data >= 0 and data <= 255, 'WRITE-E addresses one octet')
        require(data != self.mem[addr], 'only octets whose content differs are written')
        self.mem = self.mem[0:addr] + bytes([data]) + self.mem[addr + 1:]
        self.writes = self.writes + 1


import nfc.clf


class EmuNdefMemory(object):
    """The application side of an emulated Type 3 Tag (as examples/tagtool.py serves it): `mem` holds nblocks
    blocks of 16 octets; the read service answers blocks that exist, the write service stores them."""
    def __init__(self, mem, nblocks):
        self.mem = mem
        self.nblocks = nblocks
        self.calls = 0

    def ndef_read(self, block_number, rb, re):
        if block_number < self.nblocks:
            return bytearray(self.mem[16 * block_number:16 * (block_number + 1)])

    def ndef_write(self, block_number, block_data, wb, we):
        if block_number < self.nblocks:
            require(len(block_data) == 16, 'the write service receives whole blocks')
            self.mem = self.mem[0:16 * block_number] + bytes(block_data) + self.mem[16 * (block_number + 1):]
            self.calls = self.calls + 1
            return True
        return False


class LoopbackClf(object):
    """The RF link between a reader's Type3Tag object and the library's own Type3TagEmulation: what the reader
    sends is the command the emulation processes (as ContactlessFrontend.connect(card=...) does: process_command,
    send_response); no answer is a timeout."""
    def __init__(self, emu):
        self.emu = emu
        self.commands = 0

    def exchange(self, data, timeout):
        self.commands = self.commands + 1
        rsp = self.emu.process_command(bytearray(data))
        if rsp is None:
            raise nfc.clf.TimeoutError("no response")
        return rsp


class FelicaKeyTag(object):
    """FeliCa Lite / Lite-S system blocks as protect() uses them: MC (88h), CKV (86h) and the card key CK (87h, write
    only, each 8-octet half stored in reversed octet order)."""
    def __init__(self, ck, mc, ckv):
        self.ck = ck
        self.mc = mc
        self.ckv = ckv
        self.key_writes = 0

    def read(self, blocks):
        if blocks[0] == 0x88:
            return bytearray(self.mc)
        if blocks[0] == 0x86:
            return bytearray(self.ckv)
        return nondet_bytearray(16, 16)

    def write(self, data, block):
        require(len(data) == 16, 'a block is 16 octets')
        if block == 0x87:
            d = bytes(data)
            self.ck = bytes([d[7], d[6], d[5], d[4], d[3], d[2], d[1], d[0],
                             d[15], d[14], d[13], d[12], d[11], d[10], d[9], d[8]])
            self.key_writes = self.key_writes + 1
        if block == 0x88:
            self.mc = bytes(data)
        if block == 0x86:
            self.ckv = bytes(data)
        return None
