"""Environment models for NFC-DEP activation (C19): a frontend whose exchange()
returns the peer's ATR_RES / whose listen() returns the peer's ATR_REQ, built
by the independent encoders of specs/nfcdep.py from arbitrary peer settings."""
import nfc.clf
from pyvc_rt import nondet_int, nondet_bool, nondet_bytes, nondet_bytearray
from specs.nfcdep import enc_atr_res, enc_atr_req, pp_of


class PeerTargetClf(object):
    """frontend seen by an Initiator: the peer is a Target with the given settings"""
    def __init__(self, lrt, wt, gbt, did):
        self.lrt, self.wt, self.gbt, self.did = lrt, wt, gbt, did
        self.sent = []

    def exchange(self, data, timeout):
        self.sent.append(bytes(data))
        if len(data) == 7 and data[2:4] == b'\xD4\x04':
            # PSL_REQ (F0 06 D4 04 did brs fsl) is answered with PSL_RES (D5 05 did)
            res = bytes([0xD5, 0x05, data[4]])
            return bytearray(bytes([0xF0, len(res) + 1]) + res)
        nfcid3 = nondet_bytes(10, 10)
        res = enc_atr_res(nfcid3, self.did, 0, 0, self.wt, pp_of(self.lrt, len(self.gbt) > 0, False), self.gbt)
        return bytearray(bytes([0xF0, len(res) + 1]) + res)


class PeerInitiatorClf(object):
    """frontend seen by a Target: the peer is an Initiator with the given settings"""
    def __init__(self, lri, gbi, did):
        self.lri, self.gbi, self.did = lri, gbi, did

    def listen(self, target, timeout):
        nfcid3 = nondet_bytes(10, 10)
        req = enc_atr_req(nfcid3, self.did, 0, 0, pp_of(self.lri, len(self.gbi) > 0, False), self.gbi)
        return nfc.clf.LocalTarget('106A', atr_req=bytearray(req), dep_req=nondet_bytearray(3, 64),
                                   sens_res=bytearray(b'\x01\x01'))


class AnyTargetClf(object):
    """frontend seen by an Initiator whose peer answers anything (C07): every exchange() returns arbitrary octets
    or fails with a documented communication error"""
    def exchange(self, data, timeout):
        k = nondet_int(0, 3)
        if k == 1:
            raise nfc.clf.TimeoutError("timeout")
        if k == 2:
            raise nfc.clf.TransmissionError("transmission")
        if k == 3:
            raise nfc.clf.ProtocolError("protocol")
        return nondet_bytearray(0, 255)


class AnyInitiatorClf(object):
    """frontend seen by a Target whose peer sent anything (C07): listen() returns nothing, or a target with the
    attribute request as received - the drivers deliver ATR_REQ only with its command code D4h 00h and at least the
    16 octets of the fixed part - and the first DEP command, arbitrary"""
    def listen(self, target, timeout):
        if nondet_bool():
            return None
        return nfc.clf.LocalTarget('106A', atr_req=bytearray(b'\xD4\x00') + nondet_bytearray(14, 62),
                                   dep_req=nondet_bytearray(3, 64), sens_res=bytearray(b'\x01\x01'))
