"""Environment model of an LLCP data link connection socket as the SNEP and
handover layers use it (assumed contract, C05): what is sent is what the peer
receives, in order, once.  Ghost state: `stream` is the concatenation of all
octets sent so far, `nsent` the number of send() calls, `maxlen` the longest
fragment; `inp` is what the peer will send, handed out by recv() in arbitrary
non-empty fragments."""
import nfc.llcp
from pyvc_rt import nondet_int, nondet_bool, nondet_bytes, require


class Socket(object):
    def __init__(self, inp):
        self.stream = b''
        self.nsent = 0
        self.maxlen = 0
        self.inp = inp
        self.pos = 0
        self.first_reply = None

    def send(self, data):
        self.stream = self.stream + bytes(data)
        self.nsent = self.nsent + 1
        if len(data) > self.maxlen:
            self.maxlen = len(data)
        return nondet_bool()

    def poll(self, event, timeout=None):
        return nondet_bool()

    def recv(self):
        if self.pos >= len(self.inp):
            return None
        n = nondet_int(1, len(self.inp) - self.pos)
        frag = self.inp[self.pos:self.pos + n]
        self.pos = self.pos + n
        return frag

    def getsockopt(self, option):
        return nondet_int(128, 2175)

    def getpeername(self):
        return 4

    def close(self):
        pass


class PolledSocket(Socket):
    """the same connection seen through poll("recv"): true exactly while the peer's octets are not used up (then
    the connection is closed and poll returns false); recv() after a true poll returns a non-empty fragment"""
    def poll(self, event, timeout=None):
        return self.pos < len(self.inp)


class MiuSocket(Socket):
    """a connection whose send MIU option is the ghost field `miu`"""
    def getsockopt(self, option):
        return self.miu
