"""Environment models for the LLCP link controller: the interface contract
of the objects stored in llc.sap[i] (assumed here, and proved separately for
every implementing class: ServiceAccessPoint, ServiceDiscovery)."""
from pyvc_rt import nondet_int, nondet_bool, assume, require


class Ghost(object):
    def __init__(self):
        self.raw_used = False


GHOST = Ghost()


class AnyPdu(object):
    """some PDU: only its length, header size and whether it is an
    information-bearing UI/I PDU are known"""
    def __init__(self, header_size, n, info=False):
        self.header_size = header_size
        self.n = n
        self.info = info

    @property
    def name(self):
        return "I" if self.info else "RR"

    def __len__(self):
        return self.n


class SapModel(object):
    """kind: 0 raw access point, 1 logical data link, 2 data link connection"""
    def __init__(self, kind):
        self.kind = kind

    @property
    def mode(self):
        return self.kind

    def dequeue(self, miu_size, icv_size):
        if nondet_bool():
            return None
        hs = nondet_int(2, 3)
        p = AnyPdu(hs, nondet_int(hs, None))
        if self.kind == 0:
            GHOST.raw_used = True     # raw access points bypass the limit by design
            return p
        require(miu_size >= 0, 'dequeue.miu_size>=0')
        require(icv_size >= 0, 'dequeue.icv_size>=0')
        # interface postcondition (C10), see specs.llcp_frames.within_miu
        p.info = nondet_bool()
        icv = icv_size if p.info else 0
        assume(len(p) <= 3 or len(p) + icv - p.header_size <= miu_size)
        return p

    def sendack(self):
        if nondet_bool():
            return None
        return AnyPdu(3, 3)       # RR / RNR


import nfc.clf
from pyvc_rt import nondet_bytes


class MacModel(object):
    """the NFC-DEP layer below the link controller: one exchange delivers arbitrary octets, nothing, or fails
    with one of the documented communication errors"""
    def __init__(self):
        self.calls = 0

    def exchange(self, send_data, timeout):
        self.calls = self.calls + 1
        k = nondet_int(0, 5)
        if k == 1:
            raise nfc.clf.TimeoutError
        if k == 2:
            raise nfc.clf.TransmissionError
        if k == 3:
            raise nfc.clf.ProtocolError
        if k == 4:
            raise nfc.clf.BrokenLinkError
        if k == 5:
            return None
        return nondet_bytes(0, None)
