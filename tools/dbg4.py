import sys, os, traceback
sys.path.insert(0, os.path.dirname(os.path.dirname(os.path.abspath(__file__))))
from pyvc.run import load_contracts
from contracts.common import world_factory
import pyvc.contracts as PC, pyvc.interp as I
allc = load_contracts(); by = {c.name: c for c in allc}
orig = I.Exec.explore
def explore(self, body):
    self.pending = [[]]
    self.reset_path([]); self.paths += 1
    try:
        body()
    except RecursionError:
        fr = [f.func.qualname for f in self.frames if f.func is not None]
        print('DEPTH', len(fr)); print(fr[-14:])
I.Exec.explore = explore
PC.verify(world_factory, by[sys.argv[1]], by)
