"""run a contract on concrete inputs through pyvc (engine self-consistency)"""
import sys, os, json
sys.path.insert(0, os.path.dirname(os.path.dirname(os.path.abspath(__file__))))
from pyvc.run import load_contracts
from contracts.common import world_factory
import pyvc.contracts as PC
from pyvc.contracts import *
allc = load_contracts(); by = {c.name: c for c in allc}
c = by[sys.argv[1]]
params = eval(sys.argv[2])
import copy
c2 = copy.copy(c); c2.params = {k: Const(v) for k, v in params.items()}; c2.requires = []
r = PC.verify(world_factory, c2, by)
print(r.paths, r.normal_paths, r.raise_paths, r.undecided)
for o in r.obligations:
    print(o['name'], o['status'], o['detail'] if o['status'] != 'discharged' else '')
