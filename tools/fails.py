import sys, os
sys.path.insert(0, os.path.dirname(os.path.dirname(os.path.abspath(__file__))))
from pyvc.run import load_contracts
from contracts.common import world_factory
import pyvc.contracts as PC
from collections import Counter
allc = load_contracts(); by = {c.name: c for c in allc}
r = PC.verify(world_factory, by[sys.argv[1]], by)
c = Counter((o['name'].split('/')[-1], (o['detail'] or '')[:110], o['where']) for o in r.obligations if o['status'] != 'discharged')
for k, v in c.most_common(20): print(v, k)
print(r.undecided[:3])
