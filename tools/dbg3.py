import sys, os, traceback
sys.path.insert(0, os.path.dirname(os.path.dirname(os.path.abspath(__file__))))
from pyvc.run import load_contracts
from contracts.common import world_factory
import pyvc.contracts as PC
from pyvc.interp import PyRaise
allc = load_contracts(); by = {c.name: c for c in allc}
orig = PC.clause_truth
def traced(ex, src, locals_, module, env=None, polarity=None, what='clause'):
    try:
        return orig(ex, src, locals_, module, env, polarity, what)
    except Exception as e:
        if 'post.reached' in str(getattr(ex, 'cur_obligation', '')) or True:
            s = locals_.get('self')
            if s is not None and hasattr(s, 'fields') and 'sap' in s.fields:
                it = s.fields['sap'].items[17]
                print('ERR', str(e)[:80], 'live17:', it, getattr(it, 'forced', None), getattr(it, 'value', None))
                o = ex.ghost['old_env']['self'].fields['sap'].items[17]
                print('   old17:', o, getattr(o, 'forced', None), getattr(o, 'value', None), getattr(o,'link',None) is it)
        raise
PC.clause_truth = traced
r = PC.verify(world_factory, by[sys.argv[1]], by)
