"""Regenerates MANIFEST.json from the table below (kept valid at all times)."""
import json, os
HERE = os.path.dirname(os.path.dirname(os.path.abspath(__file__)))

CLAIMED = {
 'C11': dict(
   category='proof',
   text='Every obligation generated from the current nfc/llcp/pdu.py (encode/__len__ against an independent '
        'frame-format spec, decode of the spec encoding, decode of arbitrary byte strings: raises only DecodeError, '
        'agrees with the independent reading, loop variants, and reads confined to the PDU\'s own octets) is '
        'discharged by z3 for all field values and all byte strings; list-valued PDUs (SNL, AGF round trip with two '
        'sub-PDUs and with one sub-PDU of every judgeable type and any DSAP/SSAP) are bounded stand-ins and not counted.',
   design_ref='DESIGN.md Part A sections A.4 (this property), A.8',
   note='Trusted: pyvc encoding of Python semantics (cross-checked against CPython on every run), z3, '
        'specs/llcp_frames.py as the reading of LLCP 1.3. TLV-loop decoders: field agreement for arbitrary byte '
        'strings is proved only for fixed-format PDU types; SNL/AGF round trips bounded (<=3 entries / 2 sub-PDUs).',
   technique='contract-based deductive verification: AST->z3 VC generation (pyvc) over the real source, sidecar contracts'),
 'C10': dict(
   category='proof',
   text='Interface contract of dequeue()/sendack() (information field within miu_size, or a 3-octet control PDU) proved for '
        'tco.TransmissionControlObject/LogicalDataLink/DataLinkConnection, llc.ServiceAccessPoint and '
        'llc.ServiceDiscovery for all queue contents and all miu_size; llc.collect() proved against that interface '
        'with loop invariants over an unbounded list of service access points and an unbounded aggregate (list '
        'measure for the AGF length): the returned PDU/aggregate never exceeds cfg[send-miu] unless a raw access '
        'point contributed; send()/sendto() refuse oversize messages before queuing; connect() clamps send_miu. The '
        'C11 contracts that len(pdu) is the length of the encoding and that a PDU decoded at any offset agrees with the '
        'independent reading are obligations of this check too (the bound is computed from len(pdu); aggregation is '
        'transparent only if members decode from their own octets).',
   design_ref='DESIGN.md Part A sections A.4 (this property), A.8',
   note='llc.sap is abstracted to the list of its active entries, each obeying the interface contract '
        '(models/llc_models.py, proved per implementing class); secure data transfer (self.sec) off; sorted() order '
        'abstracted; termination of the aggregation while-loop not proved; AGF dispatch order not covered.',
   technique='contract-based deductive verification: AST->z3 VC generation (pyvc), loop invariants, interface contracts'),
 'C14': dict(
   category='proof',
   text='pn53x Chipset.command (verified on the pn532 subclass): the frame written equals an independently built '
        'normal/extended frame for every command code and payload length (both sides of the 254/255 switch are one '
        'symbolic case, data checksum via a prefix-sum measure); for every byte string the transport may return, the '
        'call raises IOError, raises Chipset.Error for a well-framed error frame, or returns exactly the payload an '
        'independent validator extracts. acr122 ccid_xfr_block/command and rcs380 Frame likewise. The eight shift '
        'steps of calculate_crc equal the ISO/IEC 14443-3 Annex B byte step for all 2^24 (register, octet) pairs '
        '(bit-vector query). add/check_crc_a/b end-to-end are bounded stand-ins (<=1 octet) and not counted. '
        'pn532.init() on a serial link: every hand-built frame written during the bring-up (GetFirmwareVersion, '
        'SAMConfiguration, SetSerialBaudrate at every speed) is an ACK or a well-formed host frame, whatever stty, the '
        'device tree and the chip answer (interface obligation of the transport model at each write).',
   design_ref='DESIGN.md Part A sections A.4 (this property), A.8',
   note='Transport is an environment model (arbitrary bytes or IOError per read). Log-call arguments are not '
        'evaluated (cmd_code restricted to the codes in Chipset.CMD). The pn532.init contract models open() and '
        'os.system() as arbitrary, takes the Chipset/Device constructors as assumed contracts and is not replayable '
        'natively. The fold of the CRC step over a message is '
        'argued on paper (both sides are left folds of step functions proved equal). _tt2_send_cmd_recv_rsp CRC '
        'rejection and termination of the ACK-skipping loop are not covered.',
   technique='contract-based deductive verification: AST->z3 VC generation (pyvc), bit-vector mode for the CRC'),
 'C15': dict(
   category='proof',
   text='Lock-ownership contracts: every method of the driver interface (models/clf_models.DeviceModel: mute, sense_*, '
        'listen_*, send_*, size queries, LED/buzzer, close) requires "clf.lock held and device open"; the requirement is '
        'an obligation at every call into self.device reached from open, close, sense, listen, exchange, '
        'max_send/recv_data_size, _rdwr_connect (presence-check loop and LED phases), _llcp_connect, _card_connect, '
        'connect and __exit__, for all option/callback outcomes. self.device is havocked to None at every lock '
        'acquisition (another thread may have closed it), so a missing None check fails too; re-acquiring the '
        'non-reentrant lock is an obligation (no self-deadlock). The driver\'s close() may fail with IOError: the '
        'frontend still drops the reference. Driver side: the LED/buzzer, mute and close methods of the acr122, pn53x, '
        'rcs380 and rcs956 drivers and the pn532/rcs380 exchange paths run in the caller\'s thread and start no thread '
        'or timer of their own (obligation starts-no-thread).',
   design_ref='DESIGN.md Part A sections A.4 (this property), A.8',
   note='Meta-argument (trusted): if every driver call is made with the one frontend lock held, driver calls from '
        'different threads cannot overlap; threads are not executed. nfc.tag.activate/emulate, device.connect and the '
        'LLC are replaced by assumed contracts/models that use only the public frontend API. __str__ attribute reads '
        'are not covered.',
   technique='contract-based deductive verification: ghost lock state + interface preconditions per call site (pyvc)'),
 'C17': dict(
   category='proof',
   text='Address-table contracts on llc._bind_by_none/_bind_by_addr/_bind_by_name/bind/close/dispatch and '
        'LogicalDataLink.recvfrom over a symbolic 64-entry table (entries instantiated lazily): the address handed out '
        'was free and is the least free one in its range (32-63 anonymous, 16-31 named, fixed address for well-known '
        'names), EFAULT/EACCES/EADDRINUSE/EAGAIN/EINVAL exactly in the stated cases with nothing changed, every other '
        'entry unchanged (frame), closing the last socket frees the address, a UI PDU is delivered only to the socket '
        'bound at its DSAP with payload and source intact, connect-by-name reaches the socket bound under the name or '
        'answers DM; the service discovery responder answers a lookup with the address bound under the name, or 0 when '
        'nothing is bound under it (well-known name or not), for any number of lookups in one SNL PDU (loop invariant); '
        'a connect() refused with DM leaves the socket unconnected, so that a retry by name reaches the socket bound '
        'under it then.',
   design_ref='DESIGN.md Part A sections A.4 (this property), A.8',
   note='One socket per service access point in the table shape; service-name syntax check (regular expression) is an '
        'uninterpreted predicate; resolve() (blocking) and cross-device delivery are not covered (the channel is C10/C11); '
        'an exhausted 16-31 range raises EADDRNOTAVAIL as the existing tests pin (the statement lists EAGAIN).',
   technique='contract-based deductive verification: data-structure contracts with frame conditions (pyvc)'),
 'C05': dict(
   category='proof',
   text='Representation invariant of an ESTABLISHED DataLinkConnection (modulo-16 counters, outstanding I PDUs <= RW(R), '
        'queued + unconfirmed received I PDUs == V(R)-V(RA) <= RW(L)) proved to be preserved by send, recv, sendack, '
        'dequeue and by the reception of I, RR and RNR PDUs, for all counter values (wrap-around included) and '
        'unbounded queues; send refuses oversize messages and a full window and otherwise appends I(N(S)=V(S)); an I '
        'PDU is accepted iff N(S)==V(R) and it fits the MIU, is appended at the tail, else FRMR; acknowledgements carry '
        'N(R)=V(RA) (also the RR/RNR that announces a busy-state change), a PDU that does not fit the frame stays at '
        'the head of the send queue; connect/accept adopt the peer\'s MIU and RW and the endpoint they establish starts '
        'inside the invariant (fresh counters, receive buffer == receive window); sequence state is written only under '
        'the lock.',
   design_ref='DESIGN.md Part A sections A.4 (this property), A.8',
   note='Per endpoint only: each method is one atomic step (lock discipline is checked); peer conformance (N(R) within '
        'V(SA)..V(S), N(S) within the window) is a precondition; blocking send (wait on a full window), thread schedules '
        'and the two-endpoint composition (paper lemma over a FIFO channel) are not decided.',
   technique='contract-based deductive verification: representation invariant per operation (pyvc)'),
 'C19': dict(
   category='proof',
   text='Negotiation lemma as a pair of contracts per layer, for all option values in one symbolic case. LLC: '
        'llc.activate() hands the MAC general bytes that an independent reader (specs/nfcdep.py) decodes to the local '
        'recv-miu, send-lto, WKS, LSC/DPC and version; and for general bytes an independent encoder builds from '
        'arbitrary peer settings, cfg[send-miu], recv-lto, send-wks, send-lsc, llcp-dpc become exactly the peer\'s '
        'values (both roles). NFC-DEP: ATR_REQ/ATR_RES encode and decode against independent layouts incl. the LR '
        'field; Initiator.activate and Target.activate against a peer modelled from the independent encoders: '
        'MIU + 3 + DID octet == / <= the LR the peer announced, RWT formula, general bytes, DID adoption, and the '
        'announced LRi/GBi in the ATR_REQ that is sent. connect(llcp=...) hands the application\'s NFC-DEP options '
        '(brs, acm, rwt, lrt, lri - zero and False included) to activate() unchanged; "all later traffic stays within '
        'the limits" is C10, whose contracts are obligations of this check too.',
   design_ref='DESIGN.md Part A sections A.4 (this property), A.8',
   note='The MAC is replaced by assumed contracts in the LLC proofs; the radio (sense/listen/exchange) is an '
        'environment model; passive 106A activation without PSL (brs=0) and NAD unused; bit-rate selection and "all '
        'later traffic stays within the limits" (C04/C10) are not part of this check. Floats are reals.',
   technique='contract-based deductive verification: encode/decode contracts against independent spec functions (pyvc)'),
 'C16': dict(
   category='proof',
   text='tt1/tt2 transceive and tt3 send_cmd_recv_rsp against a link model whose every exchange answers with arbitrary '
        'bytes or fails with timeout/transmission/protocol error (loops of 1+retries unrolled completely): the command '
        'is re-sent only after a failure, never after an answer, all attempts carry identical bytes, the result is the '
        'answer of the successful attempt, and after 1+retries failures the TypeNTagCommandError carries the reason code '
        'of the last error. Surface operations (tt1 read_id/read_all/read_byte/read_block/read_segment/write_byte/'
        'write_block/_is_present, tt2 read/write/sector_select/_is_present, tt3 polling/read_from_ndef_service/'
        'write_to_ndef_service/_is_present): for every link behaviour and every response only the tag type\'s '
        'command error (or the documented ValueError for bad arguments) escapes; polling() returns a 2- or 3-tuple as '
        'requested; sector_select reports a new sector only after the passive acknowledge of its second packet; '
        'IsoDepInitiator.exchange (shared with C12) turns every link error into Type4TagCommandError; Type4Tag._is_present '
        'returns a bool for every link error; FeliCa Lite _read_attribute_data returns None or attributes whether or '
        'not the tag is authenticated; the Type 3 block commands with the largest block lists the NDEF code uses (15 '
        'per READ, 12 per WRITE) are well-formed and return one block per requested block.',
   design_ref='DESIGN.md Part A sections A.4 (this property), A.8',
   note='The RF link is an environment model (models/clf_models.ExchangeClf). Not covered yet: NDEF-level operations '
        '(Tag.ndef, format, protect, authenticate, dump), vendor subclasses; '
        'BrokenLinkError is outside the quantifier.',
   technique='contract-based deductive verification: raises-clauses and ghost command log over a symbolic error oracle (pyvc)'),
 'C07': dict(
   category='proof',
   text='Total-robustness contracts, for every byte string at the position where the peer speaks: dep '
        'Initiator/Target.decode_frame and ATR/PSL/DEP/DSL/RLS decode raise only ProtocolError/TransmissionError; '
        'AggregatedFrame.decode decodes only non-AGF sub-PDUs (the recursion depth is one: the sub-PDU call site '
        'satisfies the precondition of the non-recursive decode summary, which is justified by the C11 case contracts), '
        'every TLV loop has a variant; ParameterExchange.decode yields parameters within their field widths; '
        'llc.activate returns a bool for arbitrary general bytes in both roles; Type3TagEmulation.process_command '
        'returns a response or None for every command (block-list parsers bounded to 2 services/2 blocks, and to one '
        'service with up to 16 two-byte block list elements so that every status-flag position occurs; not counted); '
        'SnepServer.process_snep_request answers every complete request of any content (request code, length field) '
        'and raises nothing. DataLinkConnection.enqueue, for every PDU type the peer may address to a connection in any '
        'state, never reaches a wait() without timeout (it runs in the link thread); str(pdu) of every PDU type raises '
        'nothing for any field value (received PDUs are formatted eagerly for logging); a connection socket\'s waiters '
        'are notified when its service access point is shut down.',
   design_ref='DESIGN.md Part A sections A.4 (this property), A.8',
   note='The MAC is an assumed contract (returns arbitrary general bytes). llc.exchange is under contract in C09, the '
        'handover server in C06. Not covered: run loops beyond C09, connect(); thread death and blocking are outside this family (DESIGN section 6).',
   technique='contract-based deductive verification: raises = documented classes over fully symbolic byte strings (pyvc)'),
 'C13': dict(
   category='proof',
   text='raises-clauses over symbolic chipset behaviour: pn53x Device.send_cmd_recv_rsp and send_rsp_recv_cmd (verified '
        'on pn532.Device with the real pn532.Chipset wrappers; every host command of the exchange may independently '
        'return, raise IOError or raise Chipset.Error with any status 1..255, as C14 proves for Chipset.command) and '
        'rcs380 Device.send_cmd_recv_rsp/send_rsp_recv_cmd (every send_command may return a payload, None or raise '
        'IOError; all 32-bit communication status words): only nfc.clf.TimeoutError, TransmissionError, '
        'BrokenLinkError, ProtocolError or IOError escape for all target kinds. ContactlessFrontend.exchange adds '
        'nothing but IOError(ENODEV) and releases its lock on every path. rcs380 send_rsp_recv_cmd: the error kind '
        'follows the status bits (RF_OFF: BrokenLinkError whatever else is set, else receive timeout: TimeoutError, '
        'else TransmissionError). pn53x in_data_exchange raises the 6-bit error code of its bit-field status octet (so '
        '"errno 1 is a timeout" holds with MI/NAD bits set); an rcs380 response with a non-zero status is never returned '
        'as data; the host transport may fail on write as well as on read; Chipset.command\'s own contract (C14) is an '
        'obligation of this check too.',
   design_ref='DESIGN.md Part A sections A.4 (this property), A.8',
   note='Assumed: one octet per register in a ReadRegister response (the payload of any other well-framed response may have any length, zero included - since fix f6bf079); pn532 TT1 bit-reversal path '
        'and the CRC check are assumed total. Not covered: pn531/pn533/rcs956/acr122/arygon specific overrides, udp, '
        'listen-mode TT3 path, the status-to-class mapping of the pn53x family beyond class membership.',
   technique='contract-based deductive verification: raises-clauses, modular over the C14 command contract (pyvc)'),
 'C18': dict(
   category='proof',
   text='sense(): for every pair (and single) of targets of every kind and every driver outcome (target, None, '
        'UnsupportedTargetError, CommunicationError, ValueError): with several targets nothing is raised, the result is '
        'the first target found in argument order, self.target is None at every driver call and equals the result at '
        'exit, the field is muted first and again when nothing was found; a non-RemoteTarget argument raises ValueError '
        'before any driver call. listen()/exchange(): the captured target is exactly what the call returned and the '
        'exchange direction follows its kind. One activation (_rdwr_connect, _card_connect) with a ghost event log: '
        'callbacks in the order discover, connect, release; on-release exactly once iff on-connect returned true; the '
        'documented return values (likewise _llcp_connect: on-connect once for the first successful activation, link loop '
        'only after a true on-connect, on-release once after it), with the device reference possibly gone at every lock '
        'acquisition (frontend closed '
        'from a callback or another thread). connect(): TypeError iff an option is not a dict; None when no option survives '
        'on-startup. A DEP target with a documented-valid ATR_REQ (16..64 octets) is handed to the driver; llc.activate() '
        'is true exactly when THIS activation installed its MAC, whatever an earlier attempt on the same link '
        'controller left behind. dep.Initiator.deactivate() - the last step of the link loop that _llcp_connect takes as '
        'returning or raising IOError - sends exactly one RLS_REQ/DSL_REQ and returns None whatever the peer answers '
        '(log-call argument expressions on that path are evaluated, not skipped).',
   design_ref='DESIGN.md Part A sections A.4 (this property), A.8',
   note='Driver, tag activation/emulation are environment models/assumed contracts; callbacks return documented types; '
        'the activation loop over several iterations and "ends promptly" (time) are not covered; '
        'driver I/O faults are C13.',
   technique='contract-based deductive verification: ghost event log + postconditions (pyvc)'),
 'C20': dict(
   category='proof',
   text='NTAG21x: _authenticate sends PWD_AUTH with the first four key octets and returns true exactly when PWD and '
        'PACK of a tag model match the six derived key octets (ValueError for 1..5 octet passwords); '
        'protect(password) - the public nfc.tag.Tag.protect - followed by _authenticate(password2) is true exactly when both passwords derive the '
        'same key, for all passwords, protect_from and read_protect values; a refused PWD_AUTH is silence or a 1-octet '
        'NAK. FeliCa Lite (modulo an idealised, '
        'collision-free MAC and 3DES): _authenticate returns true exactly when the tag model holds the derived card '
        'key (challenge octet order, session key derivation, MAC over the ID block with RC1 as IV), sets the session '
        'key only then, and the challenge written to the tag is the os.urandom draw of this very call (a recorded '
        'session can not be replayed); read_with_mac returns data only when the MAC field of this response equals the MAC of its data '
        'field under the session key, for arbitrary (attacker chosen) responses; the real read command returns exactly '
        '16 octets per requested block or raises (the MAC code slices the response from its end).',
   design_ref='DESIGN.md Part A sections A.4 (this property), A.8',
   note='Cryptography is idealised (pyDes triple_des and generate_mac are uninterpreted collision-free functions: '
        'unforgeability is assumed, not proved); generate_mac\'s body is out of reach; the tags are environment models '
        'read from the data sheets. Not covered: FeliCa Lite-S mutual authentication and write_with_mac, FeliCa '
        'protect(), Ultralight C. FeliCa contracts are not natively replayable.',
   technique='contract-based deductive verification with uninterpreted ideal functions for crypto (pyvc)'),
 'C06': dict(
   category='proof',
   text='SNEP fragmentation layer over an assumed FIFO socket model, for every message length and every send_miu >= 1: '
        'client send_request - the concatenation of the fragments handed to the socket is a prefix of the request and '
        'the whole request on success, no fragment exceeds send_miu, later fragments are sent only after the 6-octet '
        'Continue response was read (loop invariant via a ghost stream); client recv_response - the result is the '
        'prefix of the peer\'s octets of exactly the announced length, refused when the announced length exceeds the '
        'acceptable length, Continue is sent at most once; server _serve - process_snep_request is called only with a '
        'complete request whose announced length is within max_acceptable_length (interface precondition at the call '
        'site), all loops have variants. HandoverServer.serve: the request handed to the application is exactly the '
        'octets received since the previous request, handed over only after a strict completeness probe accepted '
        'those octets (interface preconditions at the call sites, loop invariants over the ghost input stream). '
        'HandoverClient.send_octets: fragments are the message in order, none longer than the socket MIU; recv_octets '
        'returns exactly the octets received so far, only after the strict completeness probe accepted them. The '
        'per-operation contracts of the data link connection (C05) are obligations of this check too: they are what '
        'justifies the FIFO socket model on each endpoint; so are the C10 contracts of llc.collect(), '
        'ServiceAccessPoint.dequeue, DataLinkConnection.send and llc.connect (fragments are sized by the send MIU and '
        'the link collects against that same limit).',
   design_ref='DESIGN.md Part A sections A.4 (this property), A.8',
   note='The socket is an environment model (C05 is its justification); ndef encode/decode are not inspected. Not '
        'covered: SnepClient.put/get header construction, the ndeflib '
        'semantics of strict/relaxed decoding (assumed contract), the full stack from connect() to the radio (modular proof stops at the socket).',
   technique='contract-based deductive verification: loop invariants over a ghost byte stream (pyvc)'),
 'C09': dict(
   category='other',
   text='Sequential half only. Termination state: ServiceAccessPoint.shutdown leaves every socket of each type unbound, '
        'SHUTDOWN, with empty queues and its conditions notified; LogicalLinkController.terminate clears all 64 table '
        'entries (loop invariant) and sets link state SHUTDOWN; run_as_initiator/run_as_target call terminate() on '
        'every exit, normal or exceptional. After termination: every socket API entry point of the link controller, '
        'for every socket type, returns or raises nfc.llcp.Error (or the documented argument errors) and never reaches '
        'a wait() without timeout. Wake-up: for every blocking call site (DLC recv/accept/connect/send/close/poll, LDL '
        'recvfrom/sendto/poll, RAP recv/poll, ServiceDiscovery.resolve), if the link terminates while the caller '
        'waits, the call returns or raises nfc.llcp.Error and does not wait again. llc.exchange returns a PDU or None '
        'for every MAC outcome and every queued PDU including ones that can not be encoded (an escaping EncodeError '
        'would end the run loop without terminate()). terminate() reaches sockets only through llc.sap[addr].sock_list: '
        'the table contracts of close and bind (C17: an open bound socket stays listed, an access point goes only with '
        'its last socket) are obligations of this check too.',
   design_ref='DESIGN.md Part A sections A.4 (this property), A.8',
   note='NOT decided (outside this technique family): that a blocked thread is actually woken under every schedule, '
        'bounded time, connect() returning, service threads exiting. "Terminates while waiting" is modelled as the '
        'effect of close() at the wait() site; threads are not executed.',
   technique='contract-based deductive verification of the sequential obligations (pyvc); liveness not applicable'),
 'C04': dict(
   category='proof',
   text='Per endpoint, for all inputs: encode_frame/decode_frame of DEP_REQ/DEP_RES for both roles against an '
        'independent frame layout (PFB bits, optional DID/NAD, F0 start octet at 106A, length octet); '
        'Initiator.exchange and Target.exchange over the transport step replaced by its contract: every information '
        'field handed to the transport is at most the MIU established at activation (precondition at every call site, '
        'chaining loops with invariants and variants for every payload length), PNI stays in 0..3, DID/NAD presence '
        'matches, only CommunicationError subclasses escape for every response the transport may deliver; '
        'Initiator.send_dep_req_recv_dep_res over the frame exchange replaced by its contract: never returns a NACK, '
        'an RTOX response carries its value, only CommunicationError subclasses escape. Initiator.activate: miu + 3 + '
        '[DID] + [NAD] equals the LR of the Target for every DID/NAD option (NAD 0 included). '
        'Target.send_dep_res_recv_dep_req over the frame exchange replaced by its contract with ghost flags: a request '
        'repeated with the current PNI or a NAK is answered by the pending response, an attention request by an '
        'attention response (loop invariant). The Initiator transport step never reports a raw TransmissionError '
        '(it is always answered by NAK/ATN retries): only the response, TimeoutError, ProtocolError or BrokenLinkError; '
        'when the first response of a step is corrupted it sends a NAK and returns the response a conforming Target '
        'retransmits (information PDU, or ACK while chaining); when the first frame is lost it sends an attention '
        'request and, after the attention response, the same request again, whose response is the result.',
   design_ref='DESIGN.md Part A sections A.4 (this property), A.8',
   note='NOT decided: exactly-once delivery and reassembly under fault scripts, the composition of two real endpoints '
        '(each is verified against an assumed contract of the step below it), termination of the Target recovery loop, '
        'deactivate, clock progress of the deadline loop (assumed). With C19 (miu + header <= LR) the call-site '
        'precondition gives "no frame exceeds the announced payload size".',
   technique='contract-based deductive verification: modular layering with call-site preconditions (pyvc)'),
 'C12': dict(
   category='proof',
   text='Type4Tag.send_apdu: the command APDU handed to the ISO-DEP layer equals the ISO/IEC 7816-4 short resp. '
        'extended encoding for every header, data length and Le; the response minus 90 00 is returned or the status '
        'is raised. IsoDepInitiator.exchange against a link whose every exchange answers arbitrarily or fails: every '
        'I/R-block handed to the link has at most miu + 1 octets (interface precondition at each call site), the block '
        'number stays in {0,1}, and only Type4TagCommandError escapes, for every command length, frame size and retry '
        'budget (all loops under invariants). Type4ATag activation: for every standard-conformant ATS (any subset of '
        'TA/TB/TC, historical bytes, TL only) miu + 3 equals min(FSC(FSCI), device limit), FWT follows FWI of TB(1) or '
        'the default, nothing is raised; Type4BTag activation likewise from the protocol info of SENSB_RES. Three '
        'single-fault scripts against a conforming card are decided completely (scripted link whose every expected '
        'block is an interface obligation): first attempt of a single-block command lost or corrupted -> R(NAK), the '
        'retransmitted response is returned once; R(ACK) lost while chaining -> R(NAK), repeated R(ACK), the next block '
        'carries the rest with the toggled number; second block lost -> R(NAK), R(ACK) with the old number, the very '
        'same block is sent again; S(WTX) request between the blocks of a chained response -> S(WTX) response, the '
        'remaining blocks are appended (this contract found the defect repaired in 29ff1a4).',
   design_ref='DESIGN.md Part A sections A.4 (this property), A.8',
   note='NOT decided: at-most-once execution and complete response under fault scripts (needs a card role model '
        'over histories; the loops are verified only for safety), termination of the WTX / retransmit-after-ACK '
        'loops against an adversarial card (no variant exists; reported as a note, known findings under C08), retry counting.',
   technique='contract-based deductive verification: interface preconditions + raises-clauses (pyvc)'),
 'C01': dict(
   category='proof',
   text='Type 3 and Type 4 Tags, against ghost tag memory (models/tag_models.T3NdefTag, T4FileCard) and an independent '
        'reading of the NDEF mapping (specs/ndef_map.py): for every well-formed attribute block / capability container, '
        'every previous memory content and every message of length 0..capacity, _write_ndef_data leaves a memory in '
        'which a fresh reader finds exactly the message (postcondition over the whole memory, loop invariants over the '
        'block / UPDATE BINARY loops, unbounded); _read_ndef_data returns exactly the message the independent reading '
        'finds, sends no write command and reports len <= capacity; _discover_ndef takes the real limits of the CC '
        '(capacity + NLEN field = file size, capped at what 16-bit offsets address; MLe/MLc capped at short-APDU '
        'limits); the octets setter refuses longer data before any command. Type 2 write path, for layouts whose '
        'reserved ranges lie outside the message area (before the NDEF TLV or behind the data area): '
        '_write_ndef_data proved against an abstract memory image (models.TagImage: linear image + tag memory, '
        'synchronize() flushes differing pages in ascending order) - the fresh reader finds exactly the message; the '
        'real Type2TagMemoryReader (__getitem__, __setitem__ for index and slice, synchronize) is proved to refine '
        'that image against a page-wise ghost tag (representation invariant, every intermediate tag state has the '
        'shape cache[0:4j] + old[4j:], only differing pages are written). Type 1 write path likewise for layouts whose '
        'reserved range lies outside the message area or covers its tail (the static 120 octet layout), with the '
        'Type 1 memory reader\'s synchronize() proved for block-wise and byte-wise writing. For ONE reserved range inside '
        'the message area behind the TLV header (the lock/OTP octets 104..127 of every dynamic memory Type 1 Tag, a '
        'memory control TLV of a Type 2 Tag) both writers are proved too: the data loop carries the closed form of '
        '"value octets skip the range" as its invariant, the skip-jump loop has its own invariant and variant, the '
        'fresh reader (independent view with the range skipped) finds exactly the message. Facts the write contracts '
        'start from are obligations too: the Type 2 reader refinement over several sectors (page = (index >> 2) & 255 in '
        'sector index >> 10), sector_select changing _current_sector exactly when the tag switched (C16), and the public '
        'format()/protect() wrappers of every tag class dropping the cached NDEF object when the type specific '
        'formatter reports success (so no write goes through a pre-format view). Layouts with several '
        'reserved ranges inside the message area are '
        'bounded stand-ins (real code under CPython on 23/44 fixed layouts x boundary lengths, independent TLV reader); '
        'the control-TLV helpers get_lock_byte_range/get_rsvd_byte_range of both tag types are proved against the '
        'independent reading for every TLV value '
        'and not counted; the emulated Type 3 Tag is not covered.',
   design_ref='DESIGN.md Part A sections A.4 (this property), A.8',
   note='Tag memories are environment models: Type 3 service with atomic block-list writes; Type 4 short-APDU card '
        'whose 16-bit P1P2 offset addresses the whole file (offsets above 7FFFh as the library itself assumes). '
        'Well-formed means: T3 valid checksum, Nbr/Nbw >= 1, declared blocks exist, RFU zero; T4 mapping 2.x/3.x, '
        'MLe >= 15, MLc >= 1. FeliCa Lite / NXP / Broadcom product classes are not covered.',
   technique='contract-based deductive verification: ghost memory + abstract view postconditions, loop invariants (pyvc)'),
 'C02': dict(
   category='proof',
   text='Type 3 and Type 4: the cut-point condition (a fresh reader sees the previous message, an empty / not readable '
        'area, or the complete new message) is an interface obligation of the ghost tag at every state-changing '
        'command (each Type 3 block-list write, each UPDATE BINARY), proved at every call site for every layout, '
        'message and previous content, inside the write loops by invariant; the final state satisfies it too. '
        'Type 4 is stated for MLc >= NLEN field size (with a smaller MLc no command sequence can commit the length '
        'atomically). Type 1/2 are bounded stand-ins (every cut point of every write on 23/44 layouts) and not counted: '
        'the cut-point queries over img[0:u*j] + mem[u*j:] did not discharge within the budget. Proved for Type 2: a WRITE '
        'that fails anywhere in synchronize() leaves the memory reader consistent with the tag (what it believes to be '
        'on the tag is on the tag), so a repeated write behaves as specified.',
   design_ref='DESIGN.md Part A sections A.4 (this property), A.8',
   note='Atomicity of one command on the tag is assumed (a block-list write / UPDATE BINARY happens entirely or not '
        'at all). Same environment models and well-formedness as C01.',
   technique='contract-based deductive verification: interface preconditions on ghost tag memory at every write (pyvc)'),
 'C03': dict(
   category='proof',
   text='Type 3 and Type 4: every write command addresses only blocks 0..Nmaxb resp. octets inside the NDEF file with '
        'the NDEF file selected (interface obligation at each call site), the attribute block keeps everything but '
        'WriteF/Ln/checksum, memory beyond the message keeps its value (frame postcondition over the whole ghost '
        'memory); Type 4 format(wipe) stays inside the file and leaves an empty message. Type 2 (reserved ranges '
        'outside the message area): after every prefix of every synchronize() nothing before the NDEF length field and '
        'nothing behind the data area differs from before (interface obligation of the abstract image at each of the '
        'three flushes); Type 1 likewise; with one reserved range inside the message area the octets of that range keep '
        'their value as well (both tag types). The sector-select contract (C16) and the format()/protect() wrapper '
        'contracts (cached NDEF object dropped after a successful format) are obligations here as for C01. Layouts with '
        'several reserved ranges inside the area are bounded stand-ins and not counted.',
   design_ref='DESIGN.md Part A sections A.4 (this property), A.8',
   note='Same environment models as C01. Type 3 format() (tt3_sony FelicaLite) and Type 1/2 _format are not covered.',
   technique='contract-based deductive verification: frame conditions on ghost tag memory (pyvc)'),
 'C08': dict(
   category='proof',
   text='All four tag types against an adversarial tag (every response arbitrary bytes of any length or a command '
        'error; for Type 4 behind the real send_apdu/transceive). Type 3 _read_attribute_data/_read_ndef_data/polling and '
        'Type 4 _discover_ndef/_read_ndef_data: nothing is raised (Type 4 discovery: only Type4TagCommandError), the '
        'result is None or data with len <= capacity, the command count is bounded (loop variants). Type 1 and Type 2 '
        '_read_ndef_data over arbitrary memory contents - any TLV chain, any lock/memory control TLVs (the skip set is '
        'an arbitrary interval set), any TLV length up to FFFFh, reads failing at any point: nothing is raised, every '
        'loop of the TLV walk, of read_tlv and of the memory readers has a variant, and the result is None or a '
        'message with len <= capacity; the Type 1 memory reader (__getitem__) is a proved summary. A native bounded '
        'stand-in (five scripted adversarial Type 4A cards, not counted) exhibits three KNOWN FINDINGS: endless S(WTX), '
        'endless R(ACK) with the other block number and endless response chaining keep IsoDepInitiator.exchange '
        'sending for ever.',
   design_ref='DESIGN.md Part A sections A.4 (this property), A.8',
   note='Tag.ndef and NDEF.has_changed are proved over a summary of the type specific reader (None or the message, '
        'nothing raised - what the reader contracts establish). nfc.tag.activate dispatch and vendor probing are NOT '
        'decided here. '
        'len() of a set of byte addresses is abstracted to its bounds (the same set expression has the same size). '
        'Termination of the ISO-DEP loops is not proved (no variant exists); the three known findings are listed in '
        'known_findings.json and printed as KNOWN-FINDING lines on every run.',
   technique='contract-based deductive verification: raises-clauses and loop variants against adversarial models (pyvc)'),

}

NOT_APPLICABLE = {}

# additions of the sixth/seventh seeding rounds, appended to the level text / replacing the note
EXTRA_TEXT = {
 'C13': ' Since round 6: the same two exchange functions on the PN531, PN533, RC-S956 and ACR122 driver classes (their '
        'overridden Type 1 Tag paths for the firmware-supported commands included); the kind of error is right for the '
        'pn53x family as well - an RF error is raised only if the host link did not fail with anything but a read timeout; '
        'the real rcs380 Chipset.send_command over a USB transport that delivers 1..300 arbitrary octets per read or '
        'fails, and the real nfc.clf.transport.USB read/write over a libusb handle whose transfers fail with any USBError '
        '(only IOError escapes). Bounded and not counted: the udp driver over arbitrary datagrams of at most 8 octets.',
 'C01': ' Emulated Type 3 Tag (bounded, not counted): the reader-side Type3Tag.write_to_ndef_service / read_from_ndef_service '
        'against the real Type3TagEmulation.process_command over a loopback link refine the ghost tag commands for 1..3 '
        'blocks per command with any block numbers (8/15 blocks with numbers below 256). get_capacity of Type 1 and Type 2 '
        '(what the setter compares with) is proved to fit the free octets of the layout.',
 'C08': ' get_capacity of Type 1 and Type 2: tag octet + length field + capacity fit the free octets between the NDEF TLV '
        'and the end of the data area, so "length <= capacity" means "inside the data area".',
 'C09': ' Termination wakes every waiter (notify_all on each condition, ServiceDiscovery.shutdown for resolving threads); '
        'sockets created after termination end with Error(ESHUTDOWN) instead of waiting.',
 'C16': ' The frontend model raises all four documented CommunicationError subclasses and returns None from exchange() once '
        'a sense() found nothing; sequence contracts on one Type 2 Tag object (READ met NAK / re-activation / tag gone, then '
        'read, presence check or write) end as documented.',
 'C07': ' The real Initiator.activate / Target.activate against a peer that answers anything return general bytes or None '
        'and raise nothing; ServiceAccessPoint.shutdown (link thread) reaches no wait() without timeout.',
 'C14': ' For Type A targets that are neither ISO-DEP nor NFC-DEP (chip CRC check off) data longer than two octets returned '
        'by send_cmd_recv_rsp has passed check_crc_a (pn532, rcs380).',
 'C18': ' A failing mute() leaves no stale target (every raises clause of sense() says self.target is None); the card '
        'emulation loop ends when the link broke (exchange() returned None) and never processes a missing command.',
 'C04': ' Since round 7: Target.exchange reassembly - what is returned is every information field received during the '
        'call, in order (ghost stream in the transport contract, loop invariants over both loops, any number of chained '
        'requests); the initiator-side exchange contracts of the drivers (C13: a chip status other than timeout is a '
        'TransmissionError, never a ProtocolError - what NFC-DEP retries on) are obligations here too.',
 'C12': ' The initiator-side exchange contracts of the drivers (C13 error kinds) are obligations here too.',
 'C10': ' llc.send/sendto keep the connection MIU of a connection socket (not the link MIU) and refuse longer messages; '
        'the numeric TLVs (MIUX, RW, ...) are decoded as an independent reading says (reserved bits never reach a MIU).',
 'C11': ' Parameter.decode of the numeric TLVs (VERSION, MIUX, WKS, LTO, RW, OPT) against an independent reading.',
 'C19': ' Parameter.decode of the numeric TLVs against an independent reading; a PN53x family Target programs its '
        'receiver with DSI and its transmitter with DRI of the PSL_REQ, also when they differ.',
 'C20': ' FeliCa Lite / Lite-S _protect: after a successful protect(password) the card key block holds the key '
        'authenticate(password) derives (Lite-S for the empty password and None); an NDEF read with MAC that does not '
        'verify yields no NDEF (Type 3 reader contracts of C08 registered here).',
 'C03': ' Type 2 format() over the same abstract memory image (nothing before the length field, nothing behind the data '
        'area changes after any prefix of the flush, also with the empty TLV at the very end of the data area). Bounded, '
        'not counted: FelicaStandard.dump() leaves the tag object on the system it polled last.',
 'C05': ' llc.send/sendto keep the connection MIU. The C11 codec contracts (I/RR/RNR encode, decode at any offset, aggregation round trips) are obligations here too.',
 'C06': ' The C11 codec contracts (I PDU decode at any offset of an aggregated frame, round trips) are obligations here too.',
 'C17': ' The C11 codec contracts (UI/SNL encode and decode at any offset) are obligations here too.',
}
NOTE_APPEND = {
 'C14': ' Known gap (seeded change C14-R8A is not caught): the PN532/PN533 register-level Type 1 Tag paths (who '
        'verifies CRC_B there) are out of reach. RC-S380: whenever the last InSetProtocol of an exchange switched the '
        'chip CRC check off, returned data has passed check_crc_a - for Type A targets at 106, 212 and 424 kbps.',
 'C18': ' Known gap (seeded change C18-R8B is not caught): the drivers\' own sense_*/listen_* paths are not under '
        'contract - sense() is proved against a driver model that raises only what the Device interface documents.',
 'C12': ' Added in round 8: the block number is toggled for every received block (rule B) - loop invariants; the '
        'PN53x host frame contract (C14) is an obligation here too.',
}
EXTRA_NOTE = {
 'C04': 'NOT decided: exactly-once delivery under fault scripts, Initiator-side reassembly (its send loop interleaves '
        'timeout extensions), the composition of two real endpoints (each is verified against an assumed contract of the '
        'step below it), termination of the Target recovery loop, clock progress of the deadline loop (assumed). A '
        'conforming peer is assumed to put no information field into an ACK. With C19 (miu + header <= LR) the call-site '
        'precondition gives "no frame exceeds the announced payload size".',
 'C13': 'Assumed: one octet per register in a ReadRegister response (any other response payload has any length, zero '
        'included); the PN532/PN533 register-level Type 1 Tag emulation (string based bit reversal) '
        'and the CRC check are assumed total. Not covered: arygon (thin subclass), the sense/listen paths, the '
        'listen-mode TT3 path. Log arguments are not evaluated in this property (path budget).',
}

def main():
    props = [json.loads(l)['id'] for l in open(os.path.join(HERE, 'properties.jsonl'))]
    checks = []
    for pid in props:
        if pid not in CLAIMED:
            continue
        c = CLAIMED[pid]
        checks.append({
            'property_id': pid,
            'quick_cmd': './check %s --tier quick' % pid,
            'thorough_cmd': './check %s --tier thorough' % pid,
            'evidence_file': 'evidence/%s.json' % pid,
            'replay_cmd_template': './check %s --replay {path}' % pid,
            'engine': 'pyvc',
            'level_claimed': {'category': c['category'], 'text': c['text'] + EXTRA_TEXT.get(pid, ''),
                              'design_ref': c['design_ref']},
            'level_note': EXTRA_NOTE.get(pid, c['note']) + NOTE_APPEND.get(pid, ''),
            'technique': c['technique'],
        })
    na = []
    for pid in props:
        if pid not in CLAIMED:
            na.append({'property_id': pid, 'reason': NOT_APPLICABLE.get(
                pid, 'contracts for this property are not built yet in this tree (work in progress, see DESIGN.md section 8)')})
    m = {
        'version': 1,
        'setup_cmd': './setup.sh',
        'hooks': {'guard': 'NFCPY_VERIF', 'enable': 'none needed: the verifier reads /repo source text; no hook commits',
                  'baseline_off_cmd': '/verif/tools/baseline_off.sh', 'source_commits': [], 'add_only': True},
        'engines': [{'name': 'pyvc', 'path': 'pyvc/', 'serves_properties': sorted(CLAIMED),
                     'kind_free_text': 'self-written verification-condition generator: symbolic execution of the real '
                                       'Python AST per path, loop invariants, modular callee contracts, z3 back end, '
                                       'native replay of counterexamples under /venv/bin/python'}],
        'checks': checks,
        'not_applicable': na,
        'notes': 'Repairs of genuine defects found by the checks are unguarded fix: commits in /repo, listed in known_findings.json.',
    }
    json.dump(m, open(os.path.join(HERE, 'MANIFEST.json'), 'w'), indent=1)
    print('MANIFEST.json: %d checks, %d not_applicable' % (len(checks), len(na)))

if __name__ == '__main__':
    main()
