#!/bin/sh
# Runs the repository's own test suite with the verification guard OFF and
# compares the set of passing tests with /root/.vp/BASELINE.json (stable_pass).
unset NFCPY_VERIF
OUT=${1:-/verif/.work/baseline.junit.xml}
mkdir -p "$(dirname "$OUT")"
cd /repo && /venv/bin/python -m pytest -ra -q -p no:cacheprovider --timeout=900 \
    --continue-on-collection-errors --junitxml="$OUT" > "$OUT.log" 2>&1
tail -1 "$OUT.log"
/venv/bin/python - "$OUT" <<'PY'
import json, sys, xml.etree.ElementTree as ET
base = set(json.load(open('/root/.vp/BASELINE.json'))['stable_pass'])
passed = set()
for tc in ET.parse(sys.argv[1]).getroot().iter('testcase'):
    if not any(c.tag in ('failure', 'error', 'skipped') for c in tc):
        passed.add('%s::%s' % (tc.get('classname'), tc.get('name')))
missing = sorted(base - passed)
print('baseline stable_pass: %d, passing now: %d, missing: %d' % (len(base), len(passed & base), len(missing)))
for m in missing[:20]:
    print('  MISSING', m)
sys.exit(1 if missing else 0)
PY
