#!/bin/bash
# tools/try_seed.sh <seed-id> <prop> [extra ./check args]
# runs ./check <prop> --no-evidence against a scratch copy of /repo (HEAD tree) with seeded/<seed-id>/patch.diff applied;
# /repo itself is not touched.  The copy lives under /tmp and is removed afterwards.
set -u
ID=$1; PROP=$2; shift 2
D=$(mktemp -d /tmp/tryseed.XXXXXX)
git -C /repo archive HEAD | tar -x -C $D
(cd $D && git init -q . && git apply /verif/seeded/$ID/patch.diff) || { echo "patch does not apply"; rm -rf $D; exit 2; }
cd /verif && VERIF_REPO=$D ./check $PROP --no-evidence "$@" > /verif/.work/try-$ID.out 2>&1; RC=$?
grep -E "^VIOLATION|^KNOWN|^CHECKER|^UNDECIDED" /verif/.work/try-$ID.out | cut -c1-260 | head -8
tail -1 /verif/.work/try-$ID.out | cut -c1-200
echo "$ID check exit=$RC"
rm -rf $D
