import sys, os, cProfile, pstats, signal
sys.path.insert(0, os.path.dirname(os.path.dirname(os.path.abspath(__file__))))
from pyvc.run import load_contracts
from contracts.common import world_factory
from pyvc.contracts import verify
allc = load_contracts(); by = {c.name: c for c in allc}
c = by[sys.argv[1]]
pr = cProfile.Profile()
def handler(sig, frm):
    pr.disable(); pstats.Stats(pr).sort_stats('cumulative').print_stats(45); os._exit(0)
signal.signal(signal.SIGALRM, handler); signal.alarm(int(sys.argv[2]))
pr.enable(); verify(world_factory, c, by); pr.disable(); pstats.Stats(pr).sort_stats('cumulative').print_stats(45)
