#!/bin/bash
# tools/seed.sh <outdir/variant> <worktree> <prop> <seed-id>
# 1. confirm in the scratch worktree: demo fails with patch, passes without
# 2. apply to /repo, run ./check <prop>, revert
# 3. store under seeded/<seed-id>/
set -u
SRC=$1; WT=$2; PROP=$3; ID=$4
cd $WT && git checkout -q -- . && git apply --check $SRC/patch.diff || { echo "patch does not apply"; exit 2; }
PYTHONPATH=$WT/src /venv/bin/python $SRC/demo.py >/dev/null 2>&1; R0=$?
git apply $SRC/patch.diff
PYTHONPATH=$WT/src /venv/bin/python $SRC/demo.py >/dev/null 2>&1; R1=$?
git checkout -q -- .
echo "demo without patch rc=$R0 (want 0), with patch rc=$R1 (want !=0)"
cd /repo && git apply $SRC/patch.diff || { echo "does not apply to /repo"; exit 2; }
cd /verif && ./check $PROP --no-evidence > /verif/.work/seed-$ID.out 2>&1; RC=$?
git -C /repo checkout -- .
grep -E "^VIOLATION|^KNOWN|^CHECKER|^UNDECIDED" /verif/.work/seed-$ID.out | cut -c1-260 | head -8
tail -1 /verif/.work/seed-$ID.out | cut -c1-200
echo "check exit=$RC"
mkdir -p /verif/seeded/$ID && cp $SRC/patch.diff $SRC/demo.py /verif/seeded/$ID/ && cp $SRC/notes.txt /verif/seeded/$ID/notes.txt
cat > /verif/seeded/$ID/meta.json <<META
{"property": "$PROP", "demo_rc_without_patch": $R0, "demo_rc_with_patch": $R1, "check_exit_with_patch": $RC,
 "ran": "tools/seed.sh: demo in scratch worktree with/without patch; git -C /repo apply; ./check $PROP; git -C /repo checkout -- ."}
META
