"""debug helper: python3-vt tools/one.py <contract name> [alarm seconds]"""
import sys, time, signal, traceback, glob, os, importlib
sys.path.insert(0, os.path.dirname(os.path.dirname(os.path.abspath(__file__))))
from pyvc.run import load_contracts
from contracts.common import world_factory
from pyvc.contracts import verify
from collections import Counter
name = sys.argv[1]
allc = load_contracts()
by = {c.name: c for c in allc}
def handler(sig, frm):
    import pyvc.contracts as PC
    ex = getattr(PC, 'LAST_EX', None)
    if ex is not None:
        print(sorted(getattr(ex,'branch_hist',{}).items(), key=lambda kv:-kv[1])[:25])
        from collections import Counter
        print(Counter((o.name.split('/',2)[-1], o.status) for o in ex.obligations).most_common(40))
    traceback.print_stack(frm, limit=int(os.environ.get('STACK', '30'))); sys.exit(1)
signal.signal(signal.SIGALRM, handler); signal.alarm(int(sys.argv[2]) if len(sys.argv) > 2 else 60)
for c in [c for c in allc if name in c.name]:
    r = verify(world_factory, c, by)
    print(c.name, 'paths', r.paths, 'normal', r.normal_paths, 'raise', r.raise_paths, 'wall %.2f' % r.wall, 'solver', r.solver_calls, round(r.solver_time, 2))
    for u in r.undecided[:5]: print('   UNDECIDED', u[:1500])
    for u in r.notes[:5]: print('   note', u)
    cnt = Counter((o['name'].split('/', 2)[-1], o['status']) for o in r.obligations)
    for k, v in sorted(cnt.items()): print('   ', k, v)
    seen = set()
    for o in r.obligations:
        if o['status'] != 'discharged' and o['name'] not in seen:
            seen.add(o['name']); print('    FAIL', o['name'], '|', o['detail'], '|', o['where'], str(o['model'])[:400])
