"""prints contracts / named obligations / bounded stand-ins per property from evidence/*.json (for DESIGN.md A.1)"""
import json, glob, os
H = os.path.dirname(os.path.dirname(os.path.abspath(__file__)))
for p in sorted(glob.glob(os.path.join(H, 'evidence', 'C??.json'))):
    e = json.load(open(p))
    c = e['coverage']
    f = c['functions_under_contract']
    nb = sum(1 for x in f if x.get('bounded'))
    ns = sum(1 for x in f if x.get('sentinel'))
    print('%s level=%s contracts=%d (proved %d, bounded %d, sentinels %d) obligations=%d discharged=%d vcs=%d native_bounded=%s wall=%s'
          % (e['property_id'], e['level'], len(f), len(f) - nb - ns, nb, ns, c['obligations'], c['discharged'],
             c.get('path_level_vcs', 0), bool(c.get('native_bounded')), e['wall_s']))
