"""tools/xc.py <contract>: print the cross-check samples of one contract with their native observations"""
import sys, os, json
sys.path.insert(0, os.path.dirname(os.path.dirname(os.path.abspath(__file__))))
from pyvc.run import load_contracts, case_for, native_replay
from contracts.common import world_factory
import pyvc.contracts as PC
allc = load_contracts(); by = {c.name: c for c in allc}
c = by[sys.argv[1]]
r = PC.verify(world_factory, c, by)
ss = [x for x in r.samples if not x.get('havocked')][:12]
cases = [case_for(c, s, i) for i, s in enumerate(ss)]
for s, ob in zip(ss, native_replay(cases)):
    exp = s.get('outcome')
    got = 'return' if ob.get('outcome') == 'return' else ob.get('exc_class', ob.get('error', '?')[-200:])
    print('EXPECT', exp, 'GOT', got, ob.get('exc_where'), ob.get('exc_msg'))
    if str(exp).split('.')[-1] != str(got).split('.')[-1]:
        import re
        print(re.sub(r'"([0-9a-f]{40,})"', lambda m: '"<%d octets %s..>"' % (len(m.group(1)) // 2, m.group(1)[:8]), json.dumps(s))[:2500])
