"""rewrites the numeric columns of the DESIGN.md A.1 table from evidence/*.json"""
import json, glob, os, re
H = os.path.dirname(os.path.dirname(os.path.abspath(__file__)))
rows = {}
for p in sorted(glob.glob(os.path.join(H, 'evidence', 'C??.json'))):
    e = json.load(open(p)); c = e['coverage']; f = c['functions_under_contract']
    ns = sum(1 for x in f if x.get('sentinel'))
    nb = len(c.get('bounded_checks', []))
    rows[e['property_id']] = (len(f) - ns, c['obligations'], c['discharged'], nb)
d = open(os.path.join(H, 'DESIGN.md')).read().split('\n')
for i, l in enumerate(d):
    m = re.match(r'^\| (C\d\d) \| (\w+) \| [^|]* \| [^|]* \| ([^|]*) \| (.*)$', l)
    if m and m.group(1) in rows:
        n, ob, di, nb = rows[m.group(1)]
        assert ob == di, (m.group(1), ob, di)
        old_b = m.group(3).strip()
        note = re.sub(r'^\d+\s*', '', old_b) if old_b not in ('–', '-') else ''
        b = '–' if nb == 0 else ('%d %s' % (nb, note)).strip()
        d[i] = '| %s | %s | %d | %d | %s | %s' % (m.group(1), m.group(2), n, ob, b, m.group(4))
open(os.path.join(H, 'DESIGN.md'), 'w').write('\n'.join(d))
print(rows)
