import sys, os
sys.path.insert(0, os.path.dirname(os.path.dirname(os.path.abspath(__file__))))
from pyvc.run import load_contracts
from contracts.common import world_factory
import pyvc.contracts as PC
allc = load_contracts(); by = {c.name: c for c in allc}
c = by['C11/decode']
orig = PC.seq_conj
def traced(ex, clauses, env, mod):
    r = orig(ex, clauses, env, mod)
    print(clauses, '->', r)
    return r
PC.seq_conj = traced
r = PC.verify(world_factory, c, by)
