#!/bin/bash
# tools/try_patch.sh <patch.diff> <prop> [extra ./check args]: like try_seed.sh for a patch file anywhere
set -u
PATCH=$1; PROP=$2; shift 2
D=$(mktemp -d /tmp/trypatch.XXXXXX)
git -C /repo archive HEAD | tar -x -C $D
(cd $D && git init -q . && git apply $PATCH) || { echo "patch does not apply"; rm -rf $D; exit 2; }
TAG=$(echo $PATCH | tr '/' '_')
cd /verif && VERIF_REPO=$D ./check $PROP --no-evidence "$@" > /verif/.work/try-$TAG.out 2>&1; RC=$?
grep -E "^VIOLATION|^KNOWN|^CHECKER|^UNDECIDED" /verif/.work/try-$TAG.out | cut -c1-230 | head -6
tail -1 /verif/.work/try-$TAG.out | cut -c1-160
echo "$PATCH check exit=$RC"
rm -rf $D
