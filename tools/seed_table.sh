#!/bin/bash
# Re-runs every stored seeded change against the current checks: applies seeded/<id>/patch.diff to /repo, runs the
# property's check (no evidence written), reverts, and writes seeded/TABLE.md (which obligations caught which change).
# tools/seed_table.sh [glob [outfile]]   e.g.  tools/seed_table.sh 'C*-R4*' seeded/TABLE-R4.md
set -u
GLOB=${1:-C*}
cd /verif
[ -z "$(git -C /repo status --porcelain)" ] || { echo "/repo is not clean"; exit 2; }
OUT=${2:-seeded/TABLE.md}
echo "| seed | property | file changed | check exit | obligations reported |" > $OUT
echo "|---|---|---|---|---|" >> $OUT
for d in seeded/$GLOB/; do
  id=$(basename $d); prop=${id%%-*}
  f=$(grep -m1 '^+++ b/' $d/patch.diff | cut -c7-)
  if ! git -C /repo apply /verif/$d/patch.diff 2>/dev/null; then echo "| $id | $prop | $f | patch does not apply | |" >> $OUT; continue; fi
  ./check $prop --no-evidence > .work/tbl-$id.out 2>&1; rc=$?
  git -C /repo checkout -- .
  obs=$(grep '^VIOLATION' .work/tbl-$id.out | sed -E 's/.*obligation=([^ ]+).*/\1/' | sort -u | head -4 | tr '\n' ' ')
  echo "| $id | $prop | $f | $rc | $obs |" >> $OUT
  echo "$id rc=$rc"
  python3 - "$d/meta.json" "$rc" <<'PY'
import json, sys
p, rc = sys.argv[1], int(sys.argv[2])
try:
    m = json.load(open(p))
except Exception:
    m = {}
m['check_exit_current_checks'] = rc
json.dump(m, open(p, 'w'), indent=1)
PY
done
