#!/bin/bash
# Like seed_table.sh, but every seeded change is applied to its own scratch copy of /repo HEAD (outside /repo and
# /verif, removed afterwards; VERIF_REPO points the check at it), so that several run at once and /repo stays
# untouched.  tools/seed_table_par.sh [glob [outfile [jobs]]]
set -u
GLOB=${1:-C*}; OUT=${2:-seeded/TABLE.md}; JOBS=${3:-4}
cd /verif
one() {
  d=$1; id=$(basename $d); prop=${id%%-*}
  f=$(grep -m1 '^+++ b/' $d/patch.diff | cut -c7-)
  D=$(mktemp -d /tmp/seedtbl.XXXXXX)
  git -C /repo archive HEAD | tar -x -C $D
  if ! (cd $D && git init -q . && git apply /verif/$d/patch.diff 2>/dev/null); then
    echo "| $id | $prop | $f | patch does not apply | |" > .work/row-$id.txt; rm -rf $D; echo "$id does not apply"; return; fi
  VERIF_REPO=$D ./check $prop --no-evidence > .work/tbl-$id.out 2>&1; rc=$?
  rm -rf $D
  obs=$(grep '^VIOLATION' .work/tbl-$id.out | sed -E 's/.*obligation=([^ ]+).*/\1/' | sort -u | head -4 | tr '\n' ' ')
  echo "| $id | $prop | $f | $rc | $obs |" > .work/row-$id.txt
  echo "$id rc=$rc"
  python3 - "$d/meta.json" "$rc" <<'PY'
import json, sys
p, rc = sys.argv[1], int(sys.argv[2])
try:
    m = json.load(open(p))
except Exception:
    m = {}
m['check_exit_current_checks'] = rc
json.dump(m, open(p, 'w'), indent=1)
PY
}
export -f one
ls -d seeded/$GLOB/ | grep -v obsolete | xargs -P $JOBS -I{} bash -c 'one {}'
echo "| seed | property | file changed | check exit | obligations reported |" > $OUT
echo "|---|---|---|---|---|" >> $OUT
for d in $(ls -d seeded/$GLOB/ | grep -v obsolete); do cat .work/row-$(basename $d).txt >> $OUT; done
