import sys, os, traceback
sys.path.insert(0, os.path.dirname(os.path.dirname(os.path.abspath(__file__))))
from pyvc.run import load_contracts
from contracts.common import world_factory
import pyvc.contracts as PC, pyvc.natives as N
from pyvc.values import Unsupported
allc = load_contracts(); by = {c.name: c for c in allc}
orig = N.bytes_sum
def traced(ex, b):
    try:
        return orig(ex, b)
    except Unsupported:
        print('SUM FAIL', b, 'origin', b.origin, 'parts', b.parts); traceback.print_stack(limit=6); raise
N.bytes_sum = traced
import pyvc.world as W
r = PC.verify(world_factory, by[sys.argv[1]], by)
