#!/bin/bash
# helper: re-run selected seeds and rebuild seeded/TABLE.md from all row files
cd /verif
source /dev/stdin <<< "$(sed -n '/^one() {/,/^}/p' tools/seed_table_par.sh)"
export -f one
printf '%s\n' "$@" | xargs -P 3 -I{} bash -c 'one seeded/{}/'
OUT=seeded/TABLE.md
echo "| seed | property | file changed | check exit | obligations reported |" > $OUT
echo "|---|---|---|---|---|" >> $OUT
for d in $(ls -d seeded/C*/ | grep -v obsolete); do cat .work/row-$(basename $d).txt >> $OUT; done
