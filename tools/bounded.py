import sys, os, copy, json
sys.path.insert(0, os.path.dirname(os.path.dirname(os.path.abspath(__file__))))
from pyvc.run import load_contracts, case_for, native_replay, confirm
import pyvc.run as R
from contracts.common import world_factory
import pyvc.contracts as PC
allc = load_contracts(); by = {c.name: c for c in allc}; R._BYNAME = by
c = copy.copy(by[sys.argv[1]]); c.loops = {}; c.max_unroll = 3; c.budget_s = 90
r = PC.verify(world_factory, c, by)
print(r.paths, r.undecided[:3])
fails = [o for o in r.obligations if o['status'] == 'failed']
print(len(fails), sorted(set(o['name'] for o in fails)))
cases = [case_for(c, o['model'], i) for i, o in enumerate(fails[:5]) if not (o['model'] or {}).get('skipped')]
for ob, o in zip(native_replay(cases), fails):
    sh = o['name'][len(c.name)+1:]
    print(sh, confirm(c, sh, ob), json.dumps(o['model'])[:300], json.dumps(ob)[:400])
